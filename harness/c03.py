"""C03 — unit conversion factors: translator (CODATA -> Lean), correspondence with the Lean models
(SI specification `conv`/`convPhys`, code model `convImpl`) and an independent Python oracle."""
from __future__ import annotations

import ast as pyast
import itertools
import math
import warnings
from decimal import Decimal
from fractions import Fraction

import common
from common import Ctx, Finding, Outcome

PROPERTY = "C03"
LEAN_TARGETS = ["QcelVerif.Props.C03", "QcelVerif.Model.UnitText", "QcelVerif.Gen.UnitNames", "QcelVerif.Lemmas.UnitNamesChk",
                "QcelVerif.Props.C03NamesA", "QcelVerif.Props.C03NamesB", "QcelVerif.Props.C03NamesC", "QcelVerif.Props.C03NamesD",
                "QcelVerif.Props.C03NamesE", "QcelVerif.Props.C03Text", "QcelVerif.Model.UnitRender", "QcelVerif.Lemmas.UnitLex",
                "QcelVerif.Lemmas.UnitBuild", "QcelVerif.Props.C03Parse", "QcelVerif.Driver.C03"]
DRIVER = "QcelVerif/Driver/C03.lean"
THEOREMS = [
    ("QcelVerif.Units.mag_ne_zero", "positive CODATA constants and non-zero numeric prefactors give a non-zero SI magnitude for every expression (discharges the hypotheses below)"),
    ("QcelVerif.Units.conv_self", "conv a a = 1 for every expression"),
    ("QcelVerif.Units.conv_swap", "same dimension: conv a b * conv b a = 1"),
    ("QcelVerif.Units.conv_chain", "same dimension: conv a b * conv b c = conv a c"),
    ("QcelVerif.Units.conv_prefactor", "conv (p*a) (q*b) = (p/q) * conv a b for all numeric prefactors p, q != 0"),
    ("QcelVerif.Units.conv_dim_mismatch", "different dimensions: the SI model refuses (error, never a number)"),
    ("QcelVerif.Units.parse_sound", "pint's insertion-ordered container arithmetic is sound: magnitude * product of key magnitudes = mag, container dimension = dim, for every expression"),
    ("QcelVerif.Units.convImpl_same_dim", "code model = SI model whenever the two expressions have the same dimension (so the four group laws hold for the code model)"),
    ("QcelVerif.Units.convImpl_unrelated", "code model: dimensions that differ and are not both among the six bridged ones give DimensionalityError"),
    ("QcelVerif.Units.hartree_bridges_published", "code model, any CODATA set: hartree -> Hz, 1/m, kg, K and back return exactly the published '<a>-<b> relationship' value"),
    ("QcelVerif.Units.bridge_fallback_physics", "code model: an energy source none of whose factors carries a NIST name converts to frequency as E/h exactly (fallback branch), for every such expression"),
    ("QcelVerif.Units.nist_relationships_consistent", "both generated CODATA sets: all 56 published X-Y relationships agree with E=h nu=hc/lambda=mc^2=kT from h,c,k,e,m_u,E_h of the same set, and R(a,b)*R(b,a)=1, to a tolerance per set: 1e-9 relative for CODATA2018 and for CODATA2014 pairs without the kelvin, 2e-8 for CODATA2014 pairs with the kelvin (kernel-evaluated on the regenerated data; a literal carried over from the other set breaks it)"),
    ("QcelVerif.Units.bridge_prefixed_source_counterexample", "KNOWN DEFECT, code model: for every prefix p and CODATA set, (10^p Hz -> hartree) = 10^(2p) * published; MHz->hartree * hartree->MHz = 10^6 * R*R'"),
    ("QcelVerif.Units.codata2014_pos", "the regenerated 2014 table is positive, so every theorem with hypothesis cd.Pos applies to it"),
    ("QcelVerif.Units.codata2018_pos", "the regenerated 2018 table is positive"),
    ("QcelVerif.Units.bridge_prefixed_source_2014", "KNOWN DEFECT on the regenerated 2014 data: (MHz->hartree)*(hartree->MHz) is within 3e-8 of 10^6, not of 1"),
    ("QcelVerif.Units.bridge_two_hop_counterexample", "KNOWN DEFECT, code model: Hz -> kg raises DimensionalityError and wavenumber -> Hz raises UndefinedUnitError although the SI/physics model returns a number"),
    ("QcelVerif.Units.bridge_compound_source_counterexample", "KNOWN DEFECT, code model: kg*m^2/s^2 -> Hz raises DimensionalityError although it is an energy"),
    # ---- text level (Model/UnitText.lean; names regenerated from the live registry into Gen/UnitNames.lean)
    ("QcelVerif.Units.Text.registry_tree_sorted", "the regenerated table of the registry's unit keys is a search tree, so the model's lookup is membership in that key set"),
    ("QcelVerif.Units.Text.spellings_resolve", "every listed spelling ({long, symbol prefix} x {long names, plurals, symbols}; every SI prefix on every table unit; 8869 texts) that is not one of the eight collisions resolves — by pint's rule (exact key, prefixes in registry order, plural suffix, de-duplication, first candidate) over the regenerated name set — to exactly the prefix and unit it was written for"),
    ("QcelVerif.Units.Text.spelling_collisions", "the eight collisions (fm, nmi, au, dau, amps, damps, hbar, hbars) are listed spellings, the rule picks the stated other registry unit (fermi, nautical_mile, astronomical_unit, deciastronomical_unit, attometer_per_second, decameter_per_second, dirac_constant) and not the table unit"),
    ("QcelVerif.Units.Text.canon_names_resolve", "the canonical spelling (long prefix + canonical unit name) of every SI prefix on every table unit reads back as that prefix and unit"),
    ("QcelVerif.Units.Text.conv_self_text", "conversion_factor(s, s) = 1 for every text s the front end reads (non-zero magnitude)"),
    ("QcelVerif.Units.Text.conv_swap_text", "texts of the same dimension: factor(sa, sb) * factor(sb, sa) = 1"),
    ("QcelVerif.Units.Text.conv_chain_text", "texts of the same dimension: factor(sa, sb) * factor(sb, sc) = factor(sa, sc)"),
    ("QcelVerif.Units.Text.conv_dim_mismatch_text", "texts of different dimensions: DimensionalityError, never a number (SI reading)"),
    ("QcelVerif.Units.Text.conv_quantity_prefactor", "Quantity arguments p*parse(sa), q*parse(sb): the factor is p/q times the factor of the two texts (errors stay errors)"),
    ("QcelVerif.Units.Text.malformed_source_refused", "a source text the front end refuses (syntax, unclosed parenthesis, empty group, unknown name) makes conversion_factor raise that error whatever the target is"),
    ("QcelVerif.Units.Text.malformed_target_refused", "a target text the front end refuses makes conversion_factor raise that error when the source text is read"),
    ("QcelVerif.Units.Text.convImpl_text_same_dim", "code model on texts = SI model on texts whenever the code's parser reads both texts as they are meant and the dimensions agree"),
    ("QcelVerif.Units.Text.parseImpl_eq_parseText_of_noJuxtaposition", "pint's evaluation of an expression tree equals its meaning for every tree without a juxtaposition node (any names, any resolver)"),
    ("QcelVerif.Units.Text.decimal_quantity_typeError", "a Quantity with a Decimal magnitude on either side is TypeError in conversion_factor (factor *= Decimal)"),
    ("QcelVerif.Units.Text.non_unit_objects", "two arguments that are neither str, Quantity nor Unit give factor 1 (both become None in ureg.convert)"),
    ("QcelVerif.Units.Text.implicit_mul_drops_factor_counterexample", "KNOWN DEFECT, code model on the regenerated data: conversion_factor('2 (3 m)', 'm') = 2 while the text means 6; '2 * (3 m)' gives 6"),
    # ---- the round trip on rendered texts (Model/UnitRender.lean = this file's renderer, tied byte for byte by block RT)
    ("QcelVerif.Units.Text.tokenize_render", "for every well-formed decorated expression e (any digits, any identifier-shaped names, any nesting) and any number of blanks around it, the modelled tokenizer (after ^ -> **) reads the rendered text as exactly the tokens of its pieces"),
    ("QcelVerif.Units.Text.parse_tokens", "the modelled _build_eval_tree, with the step budget parse_expression's model gives it, turns the tokens of every well-formed decorated expression into exactly the tree the renderer had in mind (* / and juxtaposition left-associative, ** with the written exponent, parentheses as written)"),
    ("QcelVerif.Units.Text.parseText_render", "parse_expression's model on the rendered text of every well-formed decorated expression = the expression it denotes (names through any registry's resolver; errors in evaluation order), SI reading"),
    ("QcelVerif.Units.Text.parseImpl_render", "the same under pint's _eval_implicit_mul reading: the renderer only juxtaposes bare (powers of) unit names, so no factor is dropped"),
    ("QcelVerif.Units.Text.render_roundtrip", "parse (render e) = ok e: when every name is a listed spelling (not one of the eight collisions) of the unit it was written for, the rendered text reads back — in both readings, over the regenerated registry names — as exactly the AST the generator wrote down (the normal form is the identity)"),
    ("QcelVerif.Units.Text.conv_text_render", "conversion_factor's SI model on two rendered texts = conv of the two ASTs, so the group laws and the refusal of unrelated dimensions hold verbatim for every pair of texts the renderer can write"),
    ("QcelVerif.Units.Text.convImpl_text_render", "the code model of conversion_factor on two rendered texts of equal dimension returns the ratio of the SI magnitudes of the two ASTs (positive CODATA set)"),
]
TRUSTED_BASE = [
    "Lean 4.33 kernel; axioms per theorem audited on every run (subset of propext, Classical.choice, Quot.sound)",
    "translator gen_units_codata in harness/c03.py (ast.literal_eval of qcelemental/data/nist_201{4,8}_codata.py -> exact rationals in lean/QcelVerif/Gen/UnitsCodata.lean)",
    "translator gen_unit_names in harness/c03.py: the key set of ureg._units with each key's canonical name and ureg._prefixes in order, read from a fresh PhysicalConstantsContext (pint default_en.txt + the definitions of ureg.py) -> packed naturals in lean/QcelVerif/Gen/UnitNames.lean (ASCII keys; the registries of the two CODATA sets must define the same names); every name the runs touch is also resolved by the implementation (ureg.get_name) and compared with the Lean resolver",
    "hand-written SI unit table (Model/Units.lean baseMag/baseDim) — also written independently in Python (harness/c03.py) and the two are compared exactly on every case; the table of spellings (Model/UnitText.lean baseLongs/baseSyms/siPrefixes) is compared row by row with the one in harness/c03.py",
    "hand-written model convImpl of context.py:278-331 + ureg.py:131-193 + pint's UnitsContainer/context path, tied by differential correspondence at relative 1e-12",
    "hand-written model of the text front end (Model/UnitText.lean): string_preprocessor's ^ -> **, Python's tokenizer on the alphabet [A-Za-z0-9_ .+-*/^()] and blank, its bracket counter, pint_eval._build_eval_tree (transcribed branch by branch), EvalTreeNode.evaluate with _eval_implicit_mul, get_name/parse_unit_name/_dedup_candidates, and conversion_factor's handling of str / Quantity / Decimal-Quantity / Unit / other arguments — tied by differential correspondence on the STRINGS: the tree the model reads must equal the tree the generator wrote (exactly), values at relative 1e-12, error classes equal",
    "pint's registry contents, context graph and float evaluation (third party; inside the differential check)",
    "the renderer of harness/c03.py (build_dtree draws the choices, render_d writes the text) is ported to Lean (Model/UnitRender.lean RExpr.render/renderTop); the port is tied on every run: for every text written through the renderer (all of blocks S, B, Bd, Bp, P, U, T, A and the composed source forms of Rl) the driver op `rend` prints RExpr.renderTop of the drawn decorated expression and it must equal the string that is sent byte for byte, the expression must satisfy the decidable hypotheses WF and Listed of Props/C03Parse.lean, and its erase/denote must be the generator's AST (block RT; mismatch kinds render_text / render_hypotheses / render_ast)",
    "harness/c03.py generators and the Python oracle",
]
ASSUMPTIONS = [
    "unit names are those of the table in harness/c03.py (BASES) with the 24 SI prefixes; offset units (degC, degF), non-integer or zero powers and non-ASCII spellings are outside the model and not generated",
    "the name test of _find_nist_unit is modelled structurally (base is one of NIST's eight units, or kilo+gram); exercised for every prefix on every table unit",
    "lru_cache is treated as transparent (every call is also compared on a fresh PhysicalConstantsContext in the thorough tier)",
    "text front end: the model refuses as 'unsupported' (and the generators never write) characters outside [A-Za-z0-9_ .+-*/^()] and blank (tab, comma, %, unicode), //, %, binary + and -, exponents that are not an integer literal under signs/parentheses, a zero exponent, '_' or '.' directly after a number, a number with an exponent part directly followed by j/J (Python reads an imaginary literal: ValueError), the words per/squared/cubed/cubic/square/sq and dimensionless/inf/infinity/nan, registry units outside the table, more than 100 nested operators",
    "pint caches every prefixed unit it has resolved as a new registry key, so a doubly prefixed name ('kilokilometer') is refused by a fresh registry and accepted after 'km' was used once; the name set is exported from a fresh registry and doubly prefixed names are not generated (single prefixes resolve identically in both states — compared on every name)",
    "a non-unit object against a dimensionless unit-like argument is not modelled (pint's outcome depends on the side)",
    "parse(render e) = e IS a theorem (render_roundtrip) for the grammar the renderer writes: non-negative number literals D*[.D*][e|E[+-]D+], identifier-shaped names, a*b a * b a/b a / b, blank juxtaposition before a bare (power of a) unit name, direct juxtaposition of a number and such a name (not j/J/_ first, no digit after a leading e/E), a**n a^n with blanks and the exponent written n +n -n (n) (-n) (- n), the right operand of * / a factor, the base of a power an atom, parentheses anywhere, blanks around the whole text. Outside it (not a theorem, tied differentially as before): texts composed by hand in blocks J (number juxtaposed to a parenthesis — the known defect class), X (malformed), Rl's literal spellings of 1/m when written by hand, and the relational prefactor texts '<p>*<text>' / '<p> * (<text>)' (sent to the implementation only); negative number literals (never generated)",
    "the theorem is about the MODEL of the front end (Model/UnitText.lean); that pint's tokenizer, _build_eval_tree and registry behave like the model stays differential (tree equality on every generated text)",
]
RULE = (
    "a case = (CODATA set, source AST, target AST), ASTs over {numeric prefactor, prefixed table unit, product, quotient, integer power}, "
    "rendered to a STRING with random spelling (alias, symbol, plural, either prefix form; scientific notation / trailing point / leading point for numbers; "
    "'*', blank or direct juxtaposition; '/' ; '**' or '^' with blanks; exponents as n, +n, (n), -n, (-n), (- n); redundant parentheses; blanks around) — "
    "the two strings go to conversion_factor AND to the Lean driver, which parses them itself; the tree it reads must equal the generator's AST. "
    "Blocks: P every SI prefix on every table unit (both directions against the bare unit); S all ordered pairs of the per-dimension seed corpus "
    "(24 dimension classes incl. the 19 au_* units) with randomly decorated compounds; B every ordered pair of the bridged seed corpus across the six "
    "bridged dimensions (plus every prefix on every bridged base as source in the thorough tier); Rl for each CODATA set each of the 17 published "
    "'<X>-<Y> relationship' literals a working conversion can go through (eV, hartree, J -> Hz, 1/m, kg, K; Hz, 1/m, kg, u, K -> hartree): the bare "
    "NIST-named source in every spelling, with numeric prefactors ('2*eV', '2 eV', '2 * (eV)') and per mole, against the bare target and against every "
    "SI prefix on every target unit of that dimension (5 sampled per source form in the quick tier, all in the thorough tier), each judged against the "
    "physics at the tolerance of its set; U unrelated dimensions; T sampled triples; "
    "Q Quantity-typed arguments, Datum.to_units, covalentradii.get(units=); "
    "SP the Lean spelling table row by row against this file's; N listed spellings (1500 sampled / all 8861 in the thorough tier): ureg.get_name against the "
    "Lean resolver and conversion to the bare unit; NC the eight collisions on the implementation; X malformed texts (unknown names inside valid "
    "expressions, dangling and doubled operators, unbalanced and empty parentheses; source side, target side, both): same error class; "
    "J a number juxtaposed to a parenthesised quantity with its own factor (known defect class) next to the explicit-'*' control; "
    "A argument kinds str / Quantity(float) / Quantity(int) / Unit / Quantity(Decimal) / other object on both sides. "
    "RT every distinct text written through the renderer, with its decorated expression, against the Lean port of the renderer (byte for byte), the hypotheses of the round-trip theorems and the generator's AST. "
    "A case is distinct by (set, rendered source, rendered target) and counted non-trivial unless source and target render to the same string."
)
LEVEL_TEXT = (
    "proof, partial: the group laws, the soundness of the container arithmetic, 'code model = SI model on equal dimensions', the published-hartree "
    "bridges and the NIST consistency of the regenerated CODATA tables (to a tolerance per set: 1e-9, and 2e-8 for CODATA2014 kelvin pairs) are Lean "
    "theorems; they are restated for conversion_factor on texts and Quantity arguments (every text the modelled front end reads). Name resolution is "
    "proved unambiguous over the registry's regenerated name set for all 8869 listed spellings except eight explicit collisions, whose resolution is "
    "proved too. That pint + ureg.py + context.py implement the code model — now including tokenizing, tree building, name resolution and the argument "
    "handling of conversion_factor, on the strings themselves — is differential (tree equality, relative 1e-12, error classes). parse(render e) = e is "
    "now PROVED for the model of the front end and every text this harness's renderer can write (tokenizer, tree builder, evaluation and names: "
    "tokenize_render, parse_tokens, render_roundtrip; conv_text_render carries the group laws to the rendered texts), the Lean renderer being tied "
    "byte for byte to the strings that are sent and the theorems' hypotheses evaluated on every one of them; texts composed by hand (blocks J, X) stay "
    "kernel-tested + differential. That every bridged factor the implementation returns agrees "
    "with the physics of its own CODATA set is checked by the oracle at the per-set tolerances. Three bridge defect classes and the dropped factor of "
    "'2 (3 m)' are proved as counter-examples and reported as known findings."
)
TECHNIQUE = "Lean 4 proof over an independent SI model and a hand-written model of the code + translator-regenerated CODATA tables + behavioural correspondence + Python oracle"

# --------------------------------------------------------------------------------------
# translator: CODATA values -> lean/QcelVerif/Gen/UnitsCodata.lean

NIST_NAMES = {
    "invm": "inverse meter", "amu": "atomic mass unit", "ev": "electron volt", "hartree": "hartree",
    "hertz": "hertz", "joule": "joule", "kelvin": "kelvin", "kg": "kilogram",
}
NIST_ORDER = ["invm", "amu", "ev", "hartree", "hertz", "joule", "kelvin", "kg"]
AU_KEYS = {
    "hyper1": "atomic unit of 1st hyperpolarizability", "hyper2": "atomic unit of 2nd hyperpolarizability",
    "action": "atomic unit of action", "chargeDensity": "atomic unit of charge density",
    "current": "atomic unit of current", "dipole": "atomic unit of electric dipole mom.",
    "efield": "atomic unit of electric field", "efg": "atomic unit of electric field gradient",
    "polarizability": "atomic unit of electric polarizability", "potential": "atomic unit of electric potential",
    "quadrupole": "atomic unit of electric quadrupole mom.", "force": "atomic unit of force",
    "magDipole": "atomic unit of mag. dipole mom.", "magFlux": "atomic unit of mag. flux density",
    "magnetizability": "atomic unit of magnetizability", "momentum": "atomic unit of mom.um",
    "permittivity": "atomic unit of permittivity", "time": "atomic unit of time", "velocity": "atomic unit of velocity",
}
CONST_KEYS = {
    "NA": "avogadro constant", "kB": "boltzmann constant", "c": "speed of light in vacuum", "h": "planck constant",
    "Eh": "hartree energy", "eV": "electron volt-joule relationship", "me": "electron mass", "mu": "atomic mass constant",
    "e": "elementary charge", "a0": "bohr radius",
}


def _load_codata_file(year: int) -> dict:
    path = common.REPO / "qcelemental" / "data" / f"nist_{year}_codata.py"
    tree = pyast.parse(path.read_text())
    for node in tree.body:
        if isinstance(node, pyast.Assign) and any(getattr(t, "id", "") == f"nist_{year}_codata" for t in node.targets):
            return pyast.literal_eval(node.value)["constants"]
    raise ValueError(f"nist_{year}_codata not found in {path}")


def _au_key(year: int, u: str) -> str:
    if year == 2018 and u == "momentum":  # ureg.py:81-82
        return "atomic unit of momentum"
    return AU_KEYS[u]


def _lean_rat(s: str) -> str:
    d = Decimal(s)
    sign, digits, exp = d.as_tuple()
    n = int("".join(map(str, digits))) * (-1 if sign else 1)
    if exp >= 0:
        return f"({n * 10 ** exp} : Rat)"
    return f"(({n} : Rat) / ({10 ** (-exp)} : Rat))"


def _extract(year: int) -> dict:
    """values (decimal strings) the unit model needs from one data file"""
    raw = _load_codata_file(year)
    out = {"const": {k: raw[v]["value"] for k, v in CONST_KEYS.items()}}
    out["au"] = {u: raw[_au_key(year, u)]["value"] for u in AU_KEYS}
    rel = {}
    for a in NIST_ORDER:
        for b in NIST_ORDER:
            if a != b:
                rel[(a, b)] = raw[f"{NIST_NAMES[a]}-{NIST_NAMES[b]} relationship"]["value"]
    out["rel"] = rel
    return out


def gen_units_codata(ctx) -> None:
    lines = [
        "import QcelVerif.Model.Units",
        "/-! GENERATED by harness/c03.py:gen_units_codata from qcelemental/data/nist_201{4,8}_codata.py — do not edit -/",
        "namespace QcelVerif.Units.Gen",
        "open QcelVerif.Units",
        "",
    ]
    for year in (2014, 2018):
        ex = _extract(year)
        lines.append(f"def au{year} : AuU → Rat")
        for u in AU_KEYS:
            lines.append(f"  | .{u} => {_lean_rat(ex['au'][u])}")
        lines.append("")
        lines.append(f"def rel{year} : NistU → NistU → Rat")
        for a in NIST_ORDER:
            for b in NIST_ORDER:
                if a != b:
                    lines.append(f"  | .{a}, .{b} => {_lean_rat(ex['rel'][(a, b)])}")
        lines.append("  | _, _ => 1")
        lines.append("")
        lines.append(f"def codata{year} : Codata where")
        for k in CONST_KEYS:
            lines.append(f"  {k} := {_lean_rat(ex['const'][k])}")
        lines.append(f"  au := au{year}")
        lines.append(f"  rel := rel{year}")
        lines.append("")
    lines.append("end QcelVerif.Units.Gen")
    body = "\n".join(lines) + "\n"
    gen = common.LEAN / "QcelVerif" / "Gen"
    gen.mkdir(exist_ok=True)
    f = gen / "UnitsCodata.lean"
    if not f.exists() or f.read_text() != body:
        f.write_text(body)


# --------------------------------------------------------------------------------------
# translator: the name set of the live registry -> lean/QcelVerif/Gen/UnitNames.lean
# (pint's default_en.txt + the definitions of ureg.py:26-126, as a *fresh* PhysicalConstantsContext holds them)

def _pack(s: str) -> int:
    n = 1
    for ch in s.encode("ascii"):
        n = n * 256 + ch
    return n


def _bytes_lit(s: str) -> str:
    return "[" + ",".join(str(c) for c in s.encode("ascii")) + "]"


def _bst_defs(items, prefix, leaf_budget=120):
    """balanced search tree over sorted (key, value) pairs, split into several defs (elaborator depth)"""
    defs = []

    def inline(a, b):
        if a >= b:
            return ".leaf"
        m = (a + b) // 2
        k, v = items[m]
        return f"(.node {inline(a, m)} {k} {v} {inline(m + 1, b)})"

    def build(lo, hi):
        if lo >= hi:
            return ".leaf"
        if hi - lo > leaf_budget:
            mid = (lo + hi) // 2
            l, r = build(lo, mid), build(mid + 1, hi)
            name = f"{prefix}_{len(defs)}"
            k, v = items[mid]
            defs.append(f"def {name} : Bst Nat := .node ({l}) {k} {v} ({r})")
            return name
        name = f"{prefix}_{len(defs)}"
        defs.append(f"def {name} : Bst Nat := {inline(lo, hi)}")
        return name

    root = build(0, len(items))
    return defs, root


def registry_names(year: int):
    """(unit key -> canonical name, [(prefix key, canonical prefix name)]) of a fresh context, ASCII keys only
    (an ASCII text can neither equal nor start with a non-ASCII key)"""
    import qcelemental as qcel

    ureg = qcel.PhysicalConstantsContext(f"CODATA{year}").ureg
    units = {k: d.name for k, d in ureg._units.items() if k.isascii() and d.name.isascii()}
    prefixes = [(k, d.name) for k, d in ureg._prefixes.items() if k.isascii()]
    if list(ureg._suffixes.items()) != [("", ""), ("s", "")]:
        raise ValueError(f"pint suffix table is not ('', 's'): {ureg._suffixes!r}")
    if not ureg.case_sensitive:
        raise ValueError("registry is not case sensitive")
    return units, prefixes


def gen_unit_names(ctx) -> None:
    units, prefixes = registry_names(2014)
    u18, p18 = registry_names(2018)
    if units != u18 or prefixes != p18:
        raise ValueError("the registries of CODATA2014 and CODATA2018 do not define the same names")
    if max(len(k) for k in list(units) + list(units.values())) >= 90:
        raise ValueError("a unit name is too long for PStr.unpack")
    items = sorted((_pack(k), _pack(v)) for k, v in units.items())
    defs, root = _bst_defs(items, "unitTree")
    lines = [
        "import QcelVerif.Model.UnitText",
        "/-! GENERATED by harness/c03.py:gen_unit_names from the registry a fresh PhysicalConstantsContext builds",
        "(pint default_en.txt + qcelemental/physical_constants/ureg.py) — do not edit -/",
        "namespace QcelVerif.Units.Gen",
        "open QcelVerif QcelVerif.Units.Text",
        "",
    ]
    lines += defs
    lines.append(f"def unitTree : Bst Nat := {root}")
    lines.append(f"def unitKeyCount : Nat := {len(items)}")
    lines.append("def prefixTable : List (PStr.Bytes × PStr.Bytes) := [")
    lines.append(",\n".join(f"  ({_bytes_lit(k)}, {_bytes_lit(v)})" for k, v in prefixes))
    lines.append("]")
    lines.append("def nameReg : NameReg := ⟨unitTree, prefixTable⟩")
    lines.append("")
    lines.append("end QcelVerif.Units.Gen")
    body = "\n".join(lines) + "\n"
    f = common.LEAN / "QcelVerif" / "Gen" / "UnitNames.lean"
    f.parent.mkdir(exist_ok=True)
    if not f.exists() or f.read_text() != body:
        f.write_text(body)


TRANSLATORS = [gen_units_codata, gen_unit_names]

# --------------------------------------------------------------------------------------
# the unit table, written a second time (independently of Lean) for rendering and for the oracle

# dimension vectors (L, M, T, I, Th, N, J)
def _v(L=0, M=0, T=0, I=0, Th=0, N=0, J=0):
    return (L, M, T, I, Th, N, J)


def _add(a, b):
    return tuple(x + y for x, y in zip(a, b))


def _sub(a, b):
    return tuple(x - y for x, y in zip(a, b))


def _sm(n, a):
    return tuple(n * x for x in a)


D_LEN, D_MASS, D_TIME, D_CUR, D_TEMP, D_SUB = _v(L=1), _v(M=1), _v(T=1), _v(I=1), _v(Th=1), _v(N=1)
D_ZERO = _v()
D_FREQ, D_INVL = _v(T=-1), _v(L=-1)
D_FORCE = _v(L=1, M=1, T=-2)
D_EN = _v(L=2, M=1, T=-2)
D_ENMOL = _v(L=2, M=1, T=-2, N=-1)
D_PRES = _v(L=-1, M=1, T=-2)
D_CHG = _v(T=1, I=1)
D_VOLT = _v(L=2, M=1, T=-3, I=-1)
D_TESLA = _v(M=1, T=-2, I=-1)
D_FARAD = _v(L=-2, M=-1, T=4, I=2)
D_POWER = _v(L=2, M=1, T=-3)

AU_DIM = {
    "hyper1": _v(L=-1, M=-2, T=7, I=3), "hyper2": _v(L=-2, M=-3, T=10, I=4), "action": _v(L=2, M=1, T=-1),
    "chargeDensity": _v(L=-3, T=1, I=1), "current": D_CUR, "dipole": _v(L=1, T=1, I=1), "efield": _v(L=1, M=1, T=-3, I=-1),
    "efg": _v(M=1, T=-3, I=-1), "polarizability": _v(M=-1, T=4, I=2), "potential": D_VOLT, "quadrupole": _v(L=2, T=1, I=1),
    "force": D_FORCE, "magDipole": _v(L=2, I=1), "magFlux": D_TESLA, "magnetizability": _v(L=2, M=-1, T=2, I=2),
    "momentum": _v(L=1, M=1, T=-1), "permittivity": _v(L=-3, M=-1, T=4, I=2), "time": D_TIME, "velocity": _v(L=1, T=-1),
}
AU_PINT = {
    "hyper1": "au_1st_hyperpolarizability", "hyper2": "au_2nd_hyperpolarizability", "action": "au_action",
    "chargeDensity": "au_charge_density", "current": "au_current", "dipole": "au_electric_dipole_moment",
    "efield": "au_electric_field", "efg": "au_electric_field_gradient", "polarizability": "au_electric_polarizability",
    "potential": "au_electric_potential", "quadrupole": "au_electric_quadrupole_moment", "force": "au_force",
    "magDipole": "au_magnetic_dipole_moment", "magFlux": "au_magnetic_flux_density", "magnetizability": "au_magnetizability",
    "momentum": "au_momentum", "permittivity": "au_permittivity", "time": "au_time", "velocity": "au_velocity",
}
F = Fraction
STATC = F(1, 2997924580)
# base id -> (dimension, magnitude as function of the constants dict, spellings [long names], [symbols], nist tag)
BASES = {
    "meter": (D_LEN, lambda k: F(1), ["meter", "metre"], ["m"]),
    "angstrom": (D_LEN, lambda k: F(1, 10**10), ["angstrom"], []),
    "angstromCap": (D_LEN, lambda k: F(1, 10**10), ["Angstrom"], []),
    "bohr": (D_LEN, lambda k: k["a0"], ["bohr", "Bohr", "bohr_radius", "au_length"], []),
    "inch": (D_LEN, lambda k: F(9144, 10000) / 36, ["inch"], []),
    "foot": (D_LEN, lambda k: F(9144, 10000) / 3, ["foot", "feet"], ["ft"]),
    "yard": (D_LEN, lambda k: F(9144, 10000), ["yard"], ["yd"]),
    "mile": (D_LEN, lambda k: 1760 * F(9144, 10000), ["mile"], ["mi"]),
    "gram": (D_MASS, lambda k: F(1, 1000), ["gram"], ["g"]),
    "amu": (D_MASS, lambda k: k["mu"], ["atomic_mass_unit", "amu", "dalton"], ["u", "Da"]),
    "emass": (D_MASS, lambda k: k["me"], ["electron_mass", "au_mass"], []),
    "second": (D_TIME, lambda k: F(1), ["second", "sec"], ["s"]),
    "minute": (D_TIME, lambda k: F(60), ["minute"], ["min"]),
    "hour": (D_TIME, lambda k: F(3600), ["hour"], ["hr"]),
    "ampere": (D_CUR, lambda k: F(1), ["ampere", "amp"], ["A"]),
    "kelvin": (D_TEMP, lambda k: F(1), ["kelvin"], ["K"]),
    "rankine": (D_TEMP, lambda k: F(5, 9), ["degree_Rankine", "rankine", "degR"], []),
    "mole": (D_SUB, lambda k: F(1), ["mole"], ["mol"]),
    "coulomb": (D_CHG, lambda k: F(1), ["coulomb"], ["C"]),
    "echarge": (D_CHG, lambda k: k["e"], ["elementary_charge", "au_charge"], ["e"]),
    "statC": (D_CHG, lambda k: STATC, ["statcoulomb"], ["statC"]),
    "joule": (D_EN, lambda k: F(1), ["joule"], ["J"]),
    "calorie": (D_EN, lambda k: F(4184, 1000), ["calorie"], ["cal"]),
    "eV": (D_EN, lambda k: k["eV"], ["electron_volt"], ["eV"]),
    "hartree": (D_EN, lambda k: k["Eh"], ["hartree", "hartree_energy", "au_energy"], ["E_h"]),
    "erg": (D_EN, lambda k: F(1, 10**7), ["erg"], []),
    "hertz": (D_FREQ, lambda k: F(1), ["hertz"], ["Hz"]),
    "wavenumber": (D_INVL, lambda k: F(100), ["wavenumber"], []),
    "debye": (_v(L=1, T=1, I=1), lambda k: F(1, 10**18) * STATC * F(1, 100), ["debye"], ["D"]),
    "newton": (D_FORCE, lambda k: F(1), ["newton"], ["N"]),
    "dyne": (D_FORCE, lambda k: F(1, 10**5), ["dyne"], ["dyn"]),
    "pascal": (D_PRES, lambda k: F(1), ["pascal"], ["Pa"]),
    "bar": (D_PRES, lambda k: F(10**5), ["bar"], []),
    "atm": (D_PRES, lambda k: F(101325), ["standard_atmosphere", "atmosphere", "atm"], []),
    "torr": (D_PRES, lambda k: F(101325, 760), ["torr"], []),
    "volt": (D_VOLT, lambda k: F(1), ["volt"], ["V"]),
    "tesla": (D_TESLA, lambda k: F(1), ["tesla"], ["T"]),
    "farad": (D_FARAD, lambda k: F(1), ["farad"], ["F"]),
    "watt": (D_POWER, lambda k: F(1), ["watt"], ["W"]),
    "auPressure": (D_PRES, lambda k: k["Eh"] / k["a0"] ** 3, ["au_pressure"], []),
}
for _u, _d in AU_DIM.items():
    BASES["au:" + _u] = (_d, (lambda u: (lambda k: k["au"][u]))(_u), [AU_PINT[_u]], [])

PREFIXES = [
    (-30, "quecto", "q"), (-27, "ronto", "r"), (-24, "yocto", "y"), (-21, "zepto", "z"), (-18, "atto", "a"),
    (-15, "femto", "f"), (-12, "pico", "p"), (-9, "nano", "n"), (-6, "micro", "u"), (-3, "milli", "m"),
    (-2, "centi", "c"), (-1, "deci", "d"), (1, "deca", "da"), (2, "hecto", "h"), (3, "kilo", "k"),
    (6, "mega", "M"), (9, "giga", "G"), (12, "tera", "T"), (15, "peta", "P"), (18, "exa", "E"),
    (21, "zetta", "Z"), (24, "yotta", "Y"), (27, "ronna", "R"), (30, "quetta", "Q"),
]
PREFIX_BY_EXP = {e: (l, s) for e, l, s in PREFIXES}
# NIST-named bases (the canonical pint name is one of `_nist_units`): hertz joule kelvin hartree electron_volt atomic_mass_unit
NIST_BASE = {"hertz", "joule", "kelvin", "hartree", "eV", "amu"}
# spellings pint reads as something else than <prefix><unit> (an exact unit name wins, or Python keywords): not generated
BAD_SPELLINGS: set = {"nmi", "au", "dau", "hbar", "fm", "amps", "damps", "hbars"}  # nautical_mile, astronomical_unit, deci-au, dirac_constant, fermi, atto-mps, deca-mps
# the same eight, with the registry key pint's rule picks (Lean: Units.Text.collisionTable, theorem spelling_collisions)
COLLISIONS = {
    "fm": (-15, "meter", "fermi"), "nmi": (-9, "mile", "nautical_mile"), "au": (-18, "amu", "astronomical_unit"),
    "dau": (1, "amu", "deciastronomical_unit"), "amps": (0, "ampere", "attometer_per_second"),
    "damps": (-1, "ampere", "decameter_per_second"), "hbar": (2, "bar", "dirac_constant"), "hbars": (2, "bar", "dirac_constant"),
}


def spellings(p: int, b: str):
    """all spellings of prefix 10^p on base b that are generated"""
    _, _, longs, syms = BASES[b]
    if p == 0:
        return [s for s in longs + syms if s not in BAD_SPELLINGS]
    pl, ps = PREFIX_BY_EXP[p]
    out = [pl + s for s in longs + syms] + [ps + s for s in syms] + [ps + longs[0]]
    return [s for s in out if s not in BAD_SPELLINGS]


def all_forms(p: int, b: str):
    """every way of writing 10^p * b that the Lean table `Units.Text.spellingsOf` lists, in its order:
    {long prefix, symbol prefix} x {long names, their plurals, symbols}"""
    _, _, longs, syms = BASES[b]
    bases = longs + [l + "s" for l in longs] + syms
    if p == 0:
        return list(bases)
    pl, ps = PREFIX_BY_EXP[p]
    return [pl + n for n in bases] + [ps + n for n in bases]


# --------------------------------------------------------------------------------------
# ASTs:  ("n", "2.5") | ("u", pexp, base) | ("*", a, b) | ("/", a, b) | ("^", a, n)

def U(b, p=0):
    return ("u", p, b)


def N(s):
    return ("n", str(s))


def MUL(a, b):
    return ("*", a, b)


def DIV(a, b):
    return ("/", a, b)


def POW(a, n):
    return ("^", a, n)


def INV(a):
    return DIV(N(1), a)


def enc(t) -> str:
    k = t[0]
    if k == "n":
        fr = Fraction(Decimal(t[1]))
        return f"n {fr.numerator}/{fr.denominator}" if fr.denominator != 1 else f"n {fr.numerator}"
    if k == "u":
        return f"u {t[1]} {t[2]}"
    if k in "*/":
        return f"{k} {enc(t[1])} {enc(t[2])}"
    return f"^ {t[2]} {enc(t[1])}"


def _num_variant(s: str, rng) -> str:
    """another way of writing the same decimal number (scientific notation, trailing point, leading zeros of the exponent)"""
    r = rng.random()
    if s.startswith("-") or r < 0.6:
        return s
    d = Decimal(s)
    sign, digits, exp = d.as_tuple()
    mant = "".join(map(str, digits))
    if r < 0.7:
        return f"{mant}e{exp}" if exp else f"{mant}e0"
    if r < 0.78:
        return f"{mant}E{exp:+d}" if exp else f"{mant}.0"
    if r < 0.86 and len(mant) > 1:
        return f"{mant[0]}.{mant[1:]}e{exp + len(mant) - 1}"
    if r < 0.93 and exp == 0:
        return mant + "."
    if exp < 0 and -exp >= len(mant):
        return "." + "0" * (-exp - len(mant)) + mant      # .5, .125
    return s


def _unit_variant(p: int, b: str, rng) -> str:
    sp = rng.choice(spellings(p, b))
    _, _, longs, _ = BASES[b]
    if rng.random() < 0.12 and any(sp.endswith(l) for l in longs) and sp + "s" not in BAD_SPELLINGS:
        sp += "s"                                          # plural of a long name
    if rng.random() < 0.04:
        sp = "(" + sp + ")"
    return sp


# ---- the renderer: draw the random choices into a *decorated* expression (`build_dtree`), then write it down (`render_d`).
# `render_d` is ported to Lean (Model/UnitRender.lean `RExpr.renderTop`; driver op `rend|…`) and the two are compared byte for byte
# on every text that is sent (block RT), so the theorems of Props/C03Parse.lean speak about the strings of this file.
# decorated expressions:
#   ("n", ip, fp, dotted, hasExp, capE, esign, ed)   a NUMBER literal as written (digit strings; esign 0 none / 1 '+' / 2 '-')
#   ("u", pexp, base, name)                          a unit name as written (plural included)
#   ("p", e)                                         ( e )
#   ("b", dv, spaced, a, b)                          a*b  a * b  a/b  a / b
#   ("j", blank, a, b)                               a b  ab
#   ("w", crt, spL, spR, (paren, sign, blank, digits), a)     a**n  a^n … with the exponent written n, +n, (n), -n, (-n), (- n)
#   ("raw", text)                                    something the Lean renderer does not model (a negative number): never generated

import re as _re

_NUM_RE = _re.compile(r"^(\d*)(\.(\d*))?(([eE])([+-]?)(\d+))?$")


class RStr(str):
    """a rendered text that remembers the decorated expression it was written from (`dt`) and the blanks around it"""
    dt = None
    pre = 0
    post = 0


def _rstr(text, dt, pre=0, post=0):
    r = RStr(text)
    r.dt, r.pre, r.post = dt, pre, post
    return r


def _numlit(s: str):
    m = _NUM_RE.match(s)
    if not m or (m.group(1) == "" and (m.group(3) or "") == ""):
        return ("raw", s)
    return ("n", m.group(1), m.group(3) or "", m.group(2) is not None, m.group(4) is not None, m.group(5) == "E",
            {"": 0, "+": 1, "-": 2}[m.group(6) or ""], m.group(7) or "")


_POW_OPS = {"**": (False, False, False), "^": (True, False, False), " ** ": (False, True, True), "^ ": (True, False, True),
            " **": (False, True, False)}


def render_d(d) -> str:
    """the text of a decorated expression (deterministic; Lean: RExpr.render)"""
    k = d[0]
    if k == "n":
        _, ip, fp, dotted, has_exp, cap, esign, ed = d
        return ip + ("." + fp if dotted else "") + ((("E" if cap else "e") + ["", "+", "-"][esign] + ed) if has_exp else "")
    if k == "u":
        return d[3]
    if k == "p":
        return "(" + render_d(d[1]) + ")"
    if k == "b":
        sp = " " if d[2] else ""
        return render_d(d[3]) + sp + ("/" if d[1] else "*") + sp + render_d(d[4])
    if k == "j":
        return render_d(d[2]) + (" " if d[1] else "") + render_d(d[3])
    if k == "w":
        _, crt, spl, spr, (paren, sign, blank, ds), a = d
        x = ("(" if paren else "") + ["", "+", "-"][sign] + (" " if blank else "") + ds + (")" if paren else "")
        return render_d(a) + (" " if spl else "") + ("^" if crt else "**") + (" " if spr else "") + x
    if k == "raw":
        return d[1]
    raise ValueError(d)


def enc_d(d) -> str:
    """prefix notation of a decorated expression for the driver op `rend` (None: not expressible)"""
    k = d[0]
    f = lambda b: "1" if b else "0"  # noqa: E731
    e = lambda s: s if s else "-"  # noqa: E731
    if k == "n":
        return f"n {e(d[1])} {e(d[2])} {f(d[3])} {f(d[4])} {f(d[5])} {d[6]} {e(d[7])}"
    if k == "u":
        return f"u {d[1]} {d[2]} {d[3]}"
    if k == "p":
        x = enc_d(d[1])
        return None if x is None else "p " + x
    if k in "bj":
        x, y = enc_d(d[-2]), enc_d(d[-1])
        if x is None or y is None:
            return None
        return (f"b {f(d[1])} {f(d[2])} " if k == "b" else f"j {f(d[1])} ") + x + " " + y
    if k == "w":
        x = enc_d(d[5])
        paren, sign, blank, ds = d[4]
        return None if x is None else f"w {f(d[1])} {f(d[2])} {f(d[3])} {f(paren)} {sign} {f(blank)} {e(ds)} " + x
    return None


def _unit_dtree(p: int, b: str, rng):
    sp = _unit_variant(p, b, rng)
    if sp.startswith("("):
        return ("p", ("u", p, b, sp[1:-1]))
    return ("u", p, b, sp)


def build_dtree(t, rng=None):
    """draw every choice of the rendering of t (left-associative * and /, parentheses only where the AST needs them).  With `rng`:
    random spelling of every unit (alias, symbol, plural), of every number, of the operators (`*`, juxtaposition, `**`/`^`, blanks)
    and of negative exponents; without: one canonical text."""
    k = t[0]
    if k == "n":
        return _numlit(t[1] if rng is None else _num_variant(t[1], rng))
    if k == "u":
        if rng is None:
            return ("u", t[1], t[2], spellings(t[1], t[2])[0])
        return _unit_dtree(t[1], t[2], rng)
    if k in "*/":
        da, db = build_dtree(t[1], rng), build_dtree(t[2], rng)
        if t[2][0] in "*/":
            db = ("p", db)
        if t[1][0] == "n" and t[1][1].startswith("-"):
            da = ("p", da)
        op = k if rng is None else rng.choice([k, f" {k} "])
        if k == "*" and rng is not None and render_d(db)[0].isalpha() and t[2][0] in "u^" and rng.random() < 0.3:
            # juxtaposition: only before a bare (power of a) unit name — a juxtaposed parenthesis binds to the operand before
            # it whatever the pending operator, and a number juxtaposed to a quantity with its own factor drops that factor
            # (block J exercises that class on purpose)
            # (`1e2joule` is outside the model: Python reads `1e2j` as an imaginary literal — a blank is always written there)
            direct = t[1][0] == "n" and render_d(da)[-1].isdigit() and render_d(db)[0] not in "jJ" and rng.random() < 0.5
            return ("j", not direct, da, db)
        return ("b", k == "/", op != k, da, db)
    da = build_dtree(t[1], rng)
    if t[1][0] != "u":
        da = ("p", da)
    op = "**" if rng is None else rng.choice(["**", "^", " ** ", "^ ", " **"])
    if t[2] >= 0:
        n = str(t[2]) if rng is None else rng.choice([str(t[2]), str(t[2]), f"({t[2]})", f"+{t[2]}"])
    else:
        n = str(t[2]) if rng is None else rng.choice([str(t[2]), f"({t[2]})", f"(- {-t[2]})"])
    paren = n.startswith("(")
    body = n.strip("()")
    sign = 1 if body.startswith("+") else 2 if body.startswith("-") else 0
    blank = " " in body
    crt, spl, spr = _POW_OPS[op]
    return ("w", crt, spl, spr, (paren, sign, blank, body.lstrip("+- ")), da)


def render(t, rng=None) -> str:
    """string for pint (an `RStr`: it carries the decorated expression it was written from)"""
    d = build_dtree(t, rng)
    return _rstr(render_d(d), d)


def spelled(p: int, b: str, name: str) -> str:
    """a unit name written directly by a generator block, as a rendered text"""
    return _rstr(name, ("u", p, b, name))


def decorate_top(s: str, rng) -> str:
    """blanks around the whole text / one more pair of parentheses"""
    r = rng.random()
    dt = getattr(s, "dt", None)
    pre, post = getattr(s, "pre", 0), getattr(s, "post", 0)
    if r < 0.06:
        return _rstr(" " + s, dt, pre + 1, post)
    if r < 0.12:
        return _rstr(s + " ", dt, pre, post + 1)
    if r < 0.15:
        return _rstr("  " + s + "  ", dt, pre + 2, post + 2)
    if r < 0.19:
        if dt is None or pre or post:
            return "(" + s + ")"
        return _rstr("(" + s + ")", ("p", dt))
    return s


def py_dim(t):
    k = t[0]
    if k == "n":
        return D_ZERO
    if k == "u":
        return BASES[t[2]][0]
    if k == "*":
        return _add(py_dim(t[1]), py_dim(t[2]))
    if k == "/":
        return _sub(py_dim(t[1]), py_dim(t[2]))
    return _sm(t[2], py_dim(t[1]))


def py_mag(K, t) -> Fraction:
    k = t[0]
    if k == "n":
        return Fraction(Decimal(t[1]))
    if k == "u":
        return Fraction(10) ** t[1] * BASES[t[2]][1](K)
    if k == "*":
        return py_mag(K, t[1]) * py_mag(K, t[2])
    if k == "/":
        return py_mag(K, t[1]) / py_mag(K, t[2])
    return py_mag(K, t[1]) ** t[2]


def leaves(t):
    if t[0] == "u":
        return [t]
    if t[0] == "n":
        return []
    if t[0] in "*/":
        return leaves(t[1]) + leaves(t[2])
    return leaves(t[1])


NODE_OF_DIM = {D_EN: "E", D_FREQ: "F", D_INVL: "W", D_MASS: "M", D_TEMP: "Th", D_ENMOL: "EM"}
NAME_NODES = {"F", "W", "M", "Th"}  # reached through a name-selecting transformer


def equiv(K, node) -> Fraction:
    return {"E": F(1), "F": K["h"], "W": K["h"] * K["c"], "M": K["c"] ** 2, "Th": K["kB"], "EM": 1 / K["NA"]}[node]


# --------------------------------------------------------------------------------------
# implementation access

_CTX = {}


def impl_ctx(year: int, fresh=False):
    import qcelemental as qcel

    if fresh:
        return qcel.PhysicalConstantsContext(f"CODATA{year}")
    if year not in _CTX:
        _CTX[year] = qcel.PhysicalConstantsContext(f"CODATA{year}")
    return _CTX[year]


def consts(year: int) -> dict:
    """the constants of the *running* implementation's context, as exact rationals (for the oracle)"""
    raw = impl_ctx(year).raw_codata
    K = {k: Fraction(Decimal(raw[v]["value"])) for k, v in CONST_KEYS.items()}
    K["au"] = {u: Fraction(Decimal(raw[_au_key(year, u)]["value"])) for u in AU_KEYS}
    K["rel"] = {}
    for a in NIST_ORDER:
        for b in NIST_ORDER:
            if a != b:
                K["rel"][(a, b)] = Fraction(Decimal(raw[f"{NIST_NAMES[a]}-{NIST_NAMES[b]} relationship"]["value"]))
    return K


_K = {}


def KK(year):
    if year not in _K:
        _K[year] = consts(year)
    return _K[year]


def call_impl(year: int, sa, sb, fresh=False):
    """('ok', float) | ('err', class name)"""
    c = impl_ctx(year, fresh)
    try:
        with warnings.catch_warnings():
            warnings.simplefilter("ignore")
            r = c.conversion_factor(sa, sb)
        return ("ok", float(r))
    except Exception as e:  # noqa
        return ("err", type(e).__name__)


def canon(res) -> str:
    return f"ok {res[1]!r}" if res[0] == "ok" else f"err {res[1]}"


# --------------------------------------------------------------------------------------
# comparison helpers

TIE_TOL = Fraction(1, 10**12)      # implementation float vs the code model's exact rational
SI_TOL = Fraction(1, 10**12)       # same dimension: implementation vs ratio of SI magnitudes
REL_TOL = Fraction(1, 10**11)      # reciprocity / chain / prefactor products of implementation floats
# bridged: agreement with E = h nu = hc/lambda = mc^2 = kT (N_A) "to CODATA precision" — per CODATA set, and per
# whether temperature is one of the two dimensions.  Every working bridged conversion goes through exactly one
# published '<a>-<b> relationship' literal (ureg.py:131-193) or through h itself, so its distance from the physics
# computed with h, c, k, e, m_u, E_h of the same set is the distance of that literal.  Measured on the published
# (unchanged) tables, all 56 ordered pairs of each set (tools: the same computation as Lean's relConsistent):
#   CODATA2014, no kelvin : worst 2.95e-10 (hertz -> 1/m)      -> tolerance 1e-9
#   CODATA2014, kelvin    : worst 1.08e-8  (kelvin -> hertz; k_B has 9 digits, u_r 5.7e-7) -> tolerance 2e-8
#   CODATA2018, no kelvin : worst 4.81e-10 (kg -> hertz)       -> tolerance 1e-9
#   CODATA2018, kelvin    : worst 3.50e-10 (1/m -> kelvin)     -> tolerance 1e-9
# (2018: h, c, e, k, N_A are exact and NIST prints the exact quotients truncated to 10 significant digits, so < 1e-9
# holds by construction.)  Between the two sets the 14 kelvin literals differ by >= 3.3e-7 and 28 of the 42 others by
# 1e-9 .. 2e-8 (eV -> 1/m: 8.4e-9), so a value carried over from the other set is outside the tolerance of its class —
# which is why the kelvin pairs of CODATA2014 get their own, wider, tolerance instead of widening the whole set; the
# remaining 14 literals (hartree <-> Hz, 1/m ...; the c-only pairs) agree between the sets to < 1e-9, i.e. to CODATA precision.
BR_TOL = {
    (2014, False): Fraction(1, 10**9), (2014, True): Fraction(2, 10**8),
    (2018, False): Fraction(1, 10**9), (2018, True): Fraction(1, 10**9),
}
BR_TOL_LOOSE = Fraction(1, 10**7)  # the former set-independent tolerance; only counted (distribution key), never decides


def br_tol(year, na, nb) -> Fraction:
    return BR_TOL[(year, "Th" in (na, nb))]


def br_tol_text(year, na, nb) -> str:
    return f"{float(br_tol(year, na, nb)):.0e}"


# largest distance from the physics seen on conversions the oracle accepted, per tolerance class (evidence note)
_DEV: dict = {}
PUB_TOL = Fraction(1, 10**9)       # hartree <-> NIST unit reproduces the published relationship
D6_TOL = Fraction(1, 10**9)


FLOAT_LO, FLOAT_HI = Fraction(1, 10**250), Fraction(10**250)


def in_float_range(x: Fraction) -> bool:
    """well inside the normal double range (pint multiplies a few factors; products of SI prefixes to high powers can leave it)"""
    return x != 0 and FLOAT_LO < abs(x) < FLOAT_HI


def budget(K, t, mult=1) -> float:
    """sum over factors of |exponent| * |log10 magnitude|: bounds every intermediate product pint can form"""
    k = t[0]
    if k == "n":
        v = abs(Fraction(Decimal(t[1])))
        return abs(mult) * abs(math.log10(v)) if v else 0.0
    if k == "u":
        return abs(mult) * abs(math.log10(Fraction(10) ** t[1] * BASES[t[2]][1](K)))
    if k in "*/":
        return budget(K, t[1], mult) + budget(K, t[2], mult)
    return budget(K, t[1], mult * t[2])


def relerr(x: float, exact: Fraction) -> Fraction:
    if not math.isfinite(x):
        return Fraction(1)
    if exact == 0:
        return Fraction(0) if x == 0 else Fraction(1)
    return abs(Fraction(x) / exact - 1)


def parse_model(line: str):
    """'impl ok 1/3;si err Dimensionality;phys ok 2;pa <expr>;pb <expr>;ia <expr>;ib <expr>'
    -> dict: impl/si/phys -> ('ok', Fraction) | ('err', cls); pa/pb/ia/ib -> text (prefix notation of the parsed expression)"""
    out = {}
    for part in line.split(";"):
        name, rest = part.split(" ", 1)
        if name in ("impl", "si", "phys"):
            kind, val = rest.split(" ", 1)
            out[name] = ("ok", Fraction(val)) if kind == "ok" else ("err", val)
        else:
            out[name] = rest
    return out


ERRMAP = {"DimensionalityError": "Dimensionality", "UndefinedUnitError": "UndefinedUnit"}
# exception classes of the text front end (ureg.parse_expression) and of conversion_factor's argument handling
TEXT_ERRMAP = dict(ERRMAP, DefinitionSyntaxError="Syntax", TokenError="Token", AssertionError="Assertion",
                   TypeError="TypeError", AttributeError="AttributeError")

# --------------------------------------------------------------------------------------
# the corpus

SEEDS = {
    "length": [U("meter"), U("angstrom"), U("angstromCap"), U("bohr"), U("inch"), U("foot"), U("yard"), U("mile"), U("meter", -9)],
    "mass": [U("gram"), U("gram", 3), U("amu"), U("emass"), U("gram", -3)],
    "time": [U("second"), U("minute"), U("hour"), U("au:time"), U("second", -15)],
    "charge": [U("coulomb"), U("echarge"), U("statC"), MUL(U("ampere"), U("second")), MUL(U("ampere", -3), U("hour"))],
    "energy": [U("joule"), U("calorie"), U("calorie", 3), U("eV"), U("hartree"), U("erg"), MUL(U("newton"), U("meter")),
               DIV(MUL(U("gram", 3), POW(U("meter"), 2)), POW(U("second"), 2)), MUL(U("watt"), U("second")), MUL(U("volt"), U("coulomb")),
               MUL(U("pascal"), POW(U("meter"), 3)), MUL(U("watt", 3), U("hour")), U("joule", 3), U("hartree", -3)],
    "energy/mol": [DIV(U("joule"), U("mole")), DIV(U("joule", 3), U("mole")), DIV(U("calorie", 3), U("mole")), DIV(U("hartree"), U("mole")),
                   DIV(U("eV"), U("mole")), DIV(U("calorie"), U("mole", -3))],
    "dipole": [U("debye"), MUL(U("echarge"), U("bohr")), MUL(U("coulomb"), U("meter")), U("au:dipole"), MUL(U("echarge"), U("angstrom"))],
    "force": [U("newton"), U("dyne"), DIV(U("hartree"), U("bohr")), U("au:force"), DIV(U("joule"), U("meter")), DIV(U("eV"), U("angstrom"))],
    "pressure": [U("pascal"), U("bar"), U("atm"), U("torr"), U("auPressure"), DIV(U("newton"), POW(U("meter"), 2)),
                 DIV(U("hartree"), POW(U("bohr"), 3)), U("pascal", 9), MUL(U("joule"), POW(U("meter"), -3))],
    "frequency": [U("hertz"), INV(U("second")), U("hertz", 6), INV(U("minute")), POW(U("second", -9), -1)],
    "wavenumber": [U("wavenumber"), INV(U("meter")), INV(U("meter", -2)), INV(U("angstrom")), POW(U("bohr"), -1)],
    "temperature": [U("kelvin"), U("rankine"), U("kelvin", -3)],
    "au:hyper1": [U("au:hyper1"), DIV(MUL(POW(U("coulomb"), 3), POW(U("meter"), 3)), POW(U("joule"), 2)),
                  DIV(MUL(POW(U("echarge"), 3), POW(U("bohr"), 3)), POW(U("hartree"), 2))],
    "au:hyper2": [U("au:hyper2"), DIV(MUL(POW(U("coulomb"), 4), POW(U("meter"), 4)), POW(U("joule"), 3)),
                  DIV(MUL(POW(U("echarge"), 4), POW(U("bohr"), 4)), POW(U("hartree"), 3))],
    "au:action": [U("au:action"), MUL(U("joule"), U("second")), MUL(U("hartree"), U("au:time")), MUL(U("eV"), U("second", -15))],
    "au:chargeDensity": [U("au:chargeDensity"), DIV(U("coulomb"), POW(U("meter"), 3)), DIV(U("echarge"), POW(U("bohr"), 3))],
    "au:current": [U("au:current"), U("ampere"), DIV(U("echarge"), U("au:time")), DIV(U("coulomb"), U("second")), U("ampere", -3)],
    "au:efield": [U("au:efield"), DIV(U("volt"), U("meter")), DIV(U("hartree"), MUL(U("echarge"), U("bohr"))), DIV(U("newton"), U("coulomb"))],
    "au:efg": [U("au:efg"), DIV(U("volt"), POW(U("meter"), 2)), DIV(U("hartree"), MUL(U("echarge"), POW(U("bohr"), 2)))],
    "au:polarizability": [U("au:polarizability"), DIV(MUL(POW(U("coulomb"), 2), POW(U("meter"), 2)), U("joule")),
                          DIV(MUL(POW(U("echarge"), 2), POW(U("bohr"), 2)), U("hartree"))],
    "au:potential": [U("au:potential"), U("volt"), DIV(U("hartree"), U("echarge")), DIV(U("joule"), U("coulomb")), U("volt", -3)],
    "au:quadrupole": [U("au:quadrupole"), MUL(U("coulomb"), POW(U("meter"), 2)), MUL(U("echarge"), POW(U("bohr"), 2)), MUL(U("debye"), U("angstrom"))],
    "au:magDipole": [U("au:magDipole"), DIV(U("joule"), U("tesla")), MUL(U("ampere"), POW(U("meter"), 2))],
    "au:magFlux": [U("au:magFlux"), U("tesla"), DIV(MUL(U("volt"), U("second")), POW(U("meter"), 2)), U("tesla", -3)],
    "au:magnetizability": [U("au:magnetizability"), DIV(U("joule"), POW(U("tesla"), 2))],
    "au:momentum": [U("au:momentum"), DIV(MUL(U("gram", 3), U("meter")), U("second")), MUL(U("newton"), U("second")),
                    DIV(MUL(U("emass"), U("bohr")), U("au:time"))],
    "au:permittivity": [U("au:permittivity"), DIV(U("farad"), U("meter")), DIV(U("coulomb"), MUL(U("volt"), U("meter"))),
                        DIV(POW(U("echarge"), 2), MUL(U("hartree"), U("bohr")))],
    "au:velocity": [U("au:velocity"), DIV(U("meter"), U("second")), DIV(U("bohr"), U("au:time")), DIV(U("mile"), U("hour"))],
}

BRIDGED = {
    "E": [U("hartree"), U("hartree", -3), U("hartree", -6), U("joule"), U("joule", 3), U("eV"), U("eV", 3), U("eV", -3), U("calorie"), U("calorie", 3),
          U("erg"), MUL(U("newton"), U("meter")), DIV(MUL(U("gram", 3), POW(U("meter"), 2)), POW(U("second"), 2)), MUL(U("watt"), U("second"))],
    "F": [U("hertz"), U("hertz", 3), U("hertz", 6), U("hertz", 9), INV(U("second")), INV(U("second", -9))],
    "W": [INV(U("meter")), INV(U("meter", -2)), U("wavenumber"), U("wavenumber", 3), INV(U("angstrom")), INV(U("meter", -9))],
    "M": [U("gram", 3), U("gram"), U("gram", -3), U("amu"), U("amu", 3), U("emass")],
    "Th": [U("kelvin"), U("kelvin", -3), U("kelvin", 3), U("rankine")],
    "EM": [DIV(U("joule"), U("mole")), DIV(U("joule", 3), U("mole")), DIV(U("calorie", 3), U("mole")), DIV(U("hartree"), U("mole")),
           DIV(U("eV"), U("mole")), DIV(U("hartree", -3), U("mole")),
           DIV(DIV(MUL(U("gram", 3), POW(U("meter"), 2)), POW(U("second"), 2)), U("mole"))],
}
# single NIST units by which "conversions to or from hartree reproduce the published relationship" is checked
HARTREE_PUBLISHED = {
    enc(U("hertz")): "hertz", enc(INV(U("meter"))): "invm", enc(POW(U("meter"), -1)): "invm", enc(U("gram", 3)): "kg", enc(U("kelvin")): "kelvin", enc(U("amu")): "amu",
}
CLASS_DIM = {k: py_dim(v[0]) for k, v in SEEDS.items()}

# ---- block Rl: the published relationships a working conversion can go through (ureg.py:131-193).  A source whose
# selected factor carries the NIST name X, converted to the dimension whose NIST unit is Y, is multiplied by the literal
# '<X>-<Y> relationship'; the reverse directions all go to hartree.  17 of the 56 literals of a set are reachable.
REL_SOURCE = {
    "ev": U("eV"), "hartree": U("hartree"), "joule": U("joule"),
    "hertz": U("hertz"), "invm": INV(U("meter")), "kg": U("gram", 3), "amu": U("amu"), "kelvin": U("kelvin"),
}
REL_REACHABLE = [(x, y) for x in ("ev", "hartree", "joule") for y in ("hertz", "invm", "kg", "kelvin")] \
    + [(x, "hartree") for x in ("hertz", "invm", "kg", "amu", "kelvin")]
REL_BARE_TARGET = {"hertz": U("hertz"), "invm": INV(U("meter")), "kg": U("gram", 3), "kelvin": U("kelvin"), "hartree": U("hartree")}
INVM_SPELLINGS = ["1/m", "1/meter", "1 / metre", "m**-1", "meter^-1", "m**(-1)", "1/(m)"]
# the tree each of them is (the Lean front end must read exactly this)
INVM_AST = {sp: (POW(U("meter"), -1) if ("**" in sp or "^" in sp) else INV(U("meter"))) for sp in INVM_SPELLINGS}


def rel_targets(y):
    """every expression the target side of relationship ...-y is exercised with (prefixes on the target are not a defect class)"""
    ps = [0] + [p for p, _, _ in PREFIXES]
    if y == "hertz":
        return [U("hertz", p) for p in ps] + [INV(U("second", p)) for p in ps] + [INV(U("minute")), POW(U("second"), -1)]
    if y == "invm":
        return [INV(U("meter", p)) for p in ps] + [U("wavenumber", p) for p in ps] + [INV(U("angstrom")), INV(U("bohr")), POW(U("bohr"), -1),
                                                                                       POW(U("meter", -2), -1), INV(U("inch"))]
    if y == "kg":
        return [U("gram", p) for p in ps] + [U("amu", p) for p in ps] + [U("emass")]
    if y == "kelvin":
        return [U("kelvin", p) for p in ps] + [U("rankine", p) for p in ps]
    return [U(b, p) for b in ("hartree", "joule", "eV", "calorie", "erg") for p in ps] + [
        MUL(U("newton"), U("meter")), MUL(U("watt"), U("second")), MUL(U("volt"), U("coulomb")), MUL(U("watt", 3), U("hour")),
        MUL(U("pascal"), POW(U("meter"), 3)), DIV(U("joule"), U("mole")), DIV(U("calorie", 3), U("mole")), DIV(U("hartree"), U("mole")),
        DIV(U("eV"), U("mole"))]


def _invm_dt(sp):
    """the decorated expression of each hand-written spelling of 1/m (INVM_SPELLINGS)"""
    one = ("n", "1", "", False, False, False, 0, "")
    m = lambda n: ("u", 0, "meter", n)  # noqa: E731
    return {"1/m": ("b", True, False, one, m("m")), "1/meter": ("b", True, False, one, m("meter")),
            "1 / metre": ("b", True, True, one, m("metre")), "m**-1": ("w", False, False, False, (False, 2, False, "1"), m("m")),
            "meter^-1": ("w", True, False, False, (False, 2, False, "1"), m("meter")),
            "m**(-1)": ("w", False, False, False, (True, 2, False, "1"), m("m")), "1/(m)": ("b", True, False, one, ("p", m("m")))}[sp]


def _written(d):
    """a hand-composed decorated expression as the text it stands for"""
    return _rstr(render_d(d), d)


def rel_source_forms(rng, x):
    """(AST, string) forms of the source that keep the relationship of X selected: every spelling of the bare unit, numeric
    prefactors in the three ways context.py:278-331 accepts them, and (energies) the per-mole form that reaches the same literal"""
    t = REL_SOURCE[x]
    if x == "invm":
        pairs = [(INVM_AST[sp], _written(_invm_dt(sp))) for sp in INVM_SPELLINGS]
        assert [str(p[1]) for p in pairs] == INVM_SPELLINGS
    else:
        pairs = [(t, spelled(t[1], t[2], sp)) for sp in spellings(t[1], t[2])]
    forms = list(pairs)
    for n in rng.sample(DEC_NUMS, 2):
        tx, sp = rng.choice(pairs)
        tn = MUL(N(n), tx)
        dn = _numlit(n)
        # "{n}*{sp}" ("{n}*({sp})" for 1/m), "{n} * ({sp})", "{n} {sp}"
        forms += [(tn, _written(("b", False, False, dn, sp.dt if x != "invm" else ("p", sp.dt)))), (tn, _written(("b", False, True, dn, ("p", sp.dt))))]
        if x != "invm":
            forms.append((tn, _written(("j", True, dn, sp.dt))))
    if x in ("ev", "hartree", "joule"):
        src = rng.choice(pairs)[1]
        mol = rng.choice([(False, "mol"), (True, "mole"), (False, "mole")])     # "/mol", " / mole", "/mole"
        forms += [(DIV(t, U("mole")), _written(("b", True, mol[0], src.dt, ("u", 0, "mole", mol[1]))))]
    return forms
DEC_NUMS = ["2", "3", "0.5", "2.5", "10", "1e-3", "1.25e2", "7", "0.125", "4.184", "1000", "1e6"]


def decorate(rng, t, depth=1):
    """an expression of the same dimension as t (random compound / prefix / prefactor decoration)"""
    r = rng.random()
    if r < 0.25:
        return MUL(N(rng.choice(DEC_NUMS)), t) if rng.random() < 0.7 else MUL(t, N(rng.choice(DEC_NUMS)))
    if r < 0.55:
        # multiply by a dimensionless ratio of two different expressions of one class
        cls = rng.choice(list(SEEDS))
        x, y = rng.choice(SEEDS[cls]), rng.choice(SEEDS[cls])
        if rng.random() < 0.5:
            return DIV(MUL(t, x), y)
        return MUL(DIV(x, y), t) if rng.random() < 0.5 else MUL(t, DIV(x, y))
    if r < 0.7:
        n = rng.choice([2, 3, -2, -3])
        # (t^n)^(1/n) is not available with integer powers: use t^(n+1) / t^n
        return DIV(POW(t, n + 1), POW(t, n))
    if r < 0.8:
        return INV(INV(t))
    if r < 0.9 and t[0] == "u" and t[1] == 0:
        return U(t[2], rng.choice(PREFIXES)[0])
    if depth > 0:
        return decorate(rng, decorate(rng, t, depth - 1), depth - 1)
    return t


def with_prefix(rng, t):
    """put a random SI prefix on one bare unit leaf (changes the magnitude, not the dimension)"""
    if t[0] == "u":
        return U(t[2], rng.choice(PREFIXES)[0]) if t[1] == 0 and rng.random() < 0.5 else t
    if t[0] == "n":
        return t
    if t[0] in "*/":
        return (t[0], with_prefix(rng, t[1]), with_prefix(rng, t[2]))
    return (t[0], with_prefix(rng, t[1]), t[2])


# --------------------------------------------------------------------------------------
# case generation: a case is (block, year, astA, astB, strA, strB)

def gen_cases(ctx: Ctx):
    rng = ctx.rng
    years = (2014, 2018)
    # ---- P: every SI prefix on every table unit, every spelling (thorough) or one random spelling (quick)
    for b in BASES:
        for p, _, _ in PREFIXES:
            sps = spellings(p, b)
            if not ctx.thorough:
                sps = [rng.choice(sps)]
            for sp in sps:
                year = rng.choice(years)
                bare = rng.choice(spellings(0, b))
                if rng.random() < 0.5:
                    yield ("P", year, U(b, p), U(b), spelled(p, b, sp), spelled(0, b, bare))
                else:
                    yield ("P", year, U(b), U(b, p), spelled(0, b, bare), spelled(p, b, sp))
    # ---- S: all ordered pairs of the seed corpus per dimension class, decorated
    reps = ctx.scale(1, 6)
    for year in years:
        for cls, seeds in SEEDS.items():
            for a, b in itertools.product(seeds, repeat=2):
                for rep in range(reps):
                    ta, tb = a, b
                    if rep > 0 or rng.random() < 0.5:
                        ta = decorate(rng, with_prefix(rng, a))
                    if rep > 0 or rng.random() < 0.5:
                        tb = decorate(rng, with_prefix(rng, b))
                    yield ("S", year, ta, tb, render(ta, rng), render(tb, rng))
    # ---- B: every ordered pair across the six bridged dimensions
    for year in years:
        for (ka, la), (kb, lb) in itertools.permutations(BRIDGED.items(), 2):
            for a in la:
                for b in lb:
                    yield ("B", year, a, b, render(a, rng), render(b, rng))
    # bridged with decoration / prefactors
    for _ in range(ctx.scale(1500, 30000)):
        year = rng.choice(years)
        (ka, la), (kb, lb) = rng.sample(list(BRIDGED.items()), 2)
        a, b = rng.choice(la), rng.choice(lb)
        if rng.random() < 0.6:
            a = decorate(rng, a, 0)
        if rng.random() < 0.4:
            b = decorate(rng, b, 0)
        yield ("Bd", year, a, b, render(a, rng), render(b, rng))
    # every prefix on every bridged base as source / target
    bases_b = ["hartree", "joule", "eV", "calorie", "erg", "hertz", "wavenumber", "gram", "amu", "emass", "kelvin", "rankine"]
    for b in bases_b:
        node = NODE_OF_DIM[BASES[b][0]]
        for p, _, _ in PREFIXES:
            others = [k for k in BRIDGED if k != node]
            for tgt in (others if ctx.thorough else rng.sample(others, 2)):
                year = rng.choice(years)
                o = rng.choice(BRIDGED[tgt])
                yield ("Bp", year, U(b, p), o, render(U(b, p), rng), render(o, rng))
                yield ("Bp", year, o, U(b, p), render(o, rng), render(U(b, p), rng))
    # ---- Rl: every reachable published relationship of every set, anchored to the physics at the per-set tolerance
    for year in years:
        for x, y in REL_REACHABLE:
            blk = f"Rl{year}:{x}-{y}"
            targets = rel_targets(y)
            for ta, sa in rel_source_forms(rng, x):
                yield (blk, year, ta, REL_BARE_TARGET[y], sa, INVM_SPELLINGS[0] if y == "invm" else rng.choice(spellings(*REL_BARE_TARGET[y][1:])))
                for tb in (targets if ctx.thorough else rng.sample(targets, 5)):
                    if rng.random() < 0.25:
                        tb = MUL(N(rng.choice(DEC_NUMS)), tb)
                    yield (blk, year, ta, tb, sa, render(tb, rng))
    # ---- U: unrelated dimensions must raise
    classes = list(SEEDS)
    for _ in range(ctx.scale(600, 8000)):
        year = rng.choice(years)
        ca, cb = rng.sample(classes, 2)
        a, b = rng.choice(SEEDS[ca]), rng.choice(SEEDS[cb])
        if rng.random() < 0.3:
            a = decorate(rng, a, 0)
        yield ("U", year, a, b, render(a, rng), render(b, rng))


def gen_triples(ctx: Ctx):
    rng = ctx.rng
    for _ in range(ctx.scale(400, 8000)):
        year = rng.choice((2014, 2018))
        cls = rng.choice(list(SEEDS))
        ts = [decorate(rng, with_prefix(rng, rng.choice(SEEDS[cls])), 0) if rng.random() < 0.6 else rng.choice(SEEDS[cls]) for _ in range(3)]
        yield year, ts, [render(t, rng) for t in ts]


# --------------------------------------------------------------------------------------
# the oracle on one conversion

def model_agrees(res, model):
    """True/False: the Lean model of the code predicts this very outcome (1e-12); None: no model available"""
    if not model:
        return None
    mi = model["impl"]
    if res[0] == "ok":
        return mi[0] == "ok" and relerr(res[1], mi[1]) <= TIE_TOL
    return mi == ("err", ERRMAP.get(res[1], res[1]))


def classify_known(K, year, ta, tb, res, magree):
    """Return the known-defect kind this failing conversion belongs to, or None.  Narrow by construction:
    dimension classes, shape of the source, error class / exact prefix ratio, and the prediction of the Lean
    model of the code (`magree`, see model_agrees) all have to fit."""
    da, db = py_dim(ta), py_dim(tb)
    na, nb = NODE_OF_DIM.get(da), NODE_OF_DIM.get(db)
    if na is None or nb is None or na == nb:
        return None
    if magree is False:
        return None  # the model of the code does not predict this outcome
    if res[0] == "err":
        if res[1] not in ERRMAP:
            return None
        if na in NAME_NODES and nb in NAME_NODES:
            return "bridge_two_hop_error"
        lv = leaves(ta)
        if len(lv) >= 2 and (na in NAME_NODES or nb in NAME_NODES):
            for (_, p, b) in lv:
                named = b in NIST_BASE or (b == "gram" and p == 3)
                if named and NODE_OF_DIM.get(BASES[b][0]) != na:
                    return "bridge_compound_source"
                if b == "meter" and p == 0 and na != "W":
                    return "bridge_compound_source"  # a net meter**-1 factor is read as "inverse_meter" (second loop)
        return None
    # a number: off by exactly the prefix of a NIST-named factor of the source?
    expected = py_mag(K, ta) * equiv(K, na) / (py_mag(K, tb) * equiv(K, nb))
    for (_, p, b) in leaves(ta):
        if p != 0 and b in NIST_BASE and (na in NAME_NODES or nb in NAME_NODES):
            if relerr(res[1], expected * Fraction(10) ** p) <= br_tol(year, na, nb):
                # sharpen: rescale the implementation's own conversion of the source with that prefix removed
                # (tu) to the source's magnitude; the observed value is 10^p times that, to 1e-9
                tu = strip_prefix(ta, b, p)
                r0 = call_impl(year, render(tu), render(tb))
                if r0[0] == "ok" and r0[1] != 0:
                    right = Fraction(r0[1]) * py_mag(K, ta) / py_mag(K, tu)
                    if abs(Fraction(res[1]) / right / Fraction(10) ** p - 1) <= D6_TOL:
                        return "bridge_prefixed_source"
                if magree is True and len(leaves(ta)) >= 2:
                    # compound source: removing the prefix can make the factor cancel against another one
                    # (mE_h/.../hartree) or hand the selection to another prefixed factor (kK*mK/K), so the
                    # implementation cannot be asked; accept only with the model's exact (1e-12) prediction of this value
                    return "bridge_prefixed_source"
    return None


DROP_KIND = "implicit_mul_drops_factor"
_DROP_RE = None


def parse_enc(text: str):
    """inverse of enc(): prefix notation -> AST (numbers as exact fraction strings are kept as Fractions)"""
    toks = text.split(" ")

    def go(i):
        k = toks[i]
        if k == "n":
            return ("nq", Fraction(toks[i + 1])), i + 2
        if k == "u":
            return ("u", int(toks[i + 1]), toks[i + 2]), i + 3
        if k in "*/":
            a, j = go(i + 1)
            b, j = go(j)
            return (k, a, b), j
        if k == "^":
            a, j = go(i + 2)
            return ("^", a, int(toks[i + 1])), j
        raise ValueError(text)

    t, j = go(0)
    if j != len(toks):
        raise ValueError(text)
    return t


def mag_q(K, t) -> Fraction:
    """py_mag for trees read back from the model (numeric leaves are Fractions)"""
    k = t[0]
    if k == "nq":
        return t[1]
    if k == "u":
        return Fraction(10) ** t[1] * BASES[t[2]][1](K)
    if k == "*":
        return mag_q(K, t[1]) * mag_q(K, t[2])
    if k == "/":
        return mag_q(K, t[1]) / mag_q(K, t[2])
    return mag_q(K, t[1]) ** t[2]


def classify_drop(f: Finding) -> bool:
    """the dropped-factor class, narrowly: (1) one of the two texts has a number (or `)`) directly in front of `(`;
    (2) the Lean model of parse_expression predicts the returned value to 1e-12; (3) that value is the SI ratio of the
    expressions pint builds (model's `ia`/`ib`: the parenthesised quantity with its numeric factors removed), i.e. the only
    thing wrong is the dropped factor."""
    import re

    c = f.case
    try:
        if c.get("model_agrees") is not True or not c.get("ia") or not c.get("ib"):
            return False
        if not any(re.search(r"[0-9.)]\s*\(", str(c[k])) for k in ("sa", "sb")):
            return False
        if (c["ia"], c["ib"]) == (enc(_tup(c["a"])), enc(_tup(c["b"]))):
            return False
        obs = f.observed.split(" ", 1)
        if obs[0] != "ok":
            return False
        K = KK(c["year"])
        want = mag_q(K, parse_enc(c["ia"])) / mag_q(K, parse_enc(c["ib"]))
        return relerr(float(obs[1]), want) <= SI_TOL
    except Exception:
        return False


def strip_prefix(t, b, p):
    if t[0] == "u":
        return U(b, 0) if (t[1], t[2]) == (p, b) else t
    if t[0] == "n":
        return t
    if t[0] in "*/":
        return (t[0], strip_prefix(t[1], b, p), strip_prefix(t[2], b, p))
    return (t[0], strip_prefix(t[1], b, p), t[2])


def case_json(block, year, ta, tb, sa, sb):
    return {"block": block, "year": year, "a": ta, "b": tb, "sa": sa, "sb": sb}


def check_conversion(out: Outcome, block, year, ta, tb, sa, sb, model_line, res=None):
    """oracle + tie for one conversion; returns (res, clean) where clean = the oracle had no complaint"""
    K = KK(year)
    if res is None:
        res = call_impl(year, sa, sb)
    out.evaluations += 1
    out.count("block:" + block)
    case = case_json(block, year, ta, tb, sa, sb)
    model = None
    if model_line is not None:
        if model_line == "bad-op":
            out.mismatches.append(Finding("mismatch:driver-rejects", case, observed=canon(res), expected=model_line))
        else:
            model = parse_model(model_line)
            # the text, read by the Lean front end, is the expression the generator rendered (exactly, as a tree)
            if model.get("pa") != enc(ta) or model.get("pb") != enc(tb):
                out.mismatches.append(Finding("mismatch:parse", case, observed=f"{model.get('pa')} | {model.get('pb')}", expected=f"{enc(ta)} | {enc(tb)}",
                                              detail="Lean text front end (Model/UnitText.lean) vs the expression the generator wrote down"))
            out.count("text:parsed-by-model")
    da, db = py_dim(ta), py_dim(tb)
    na, nb = NODE_OF_DIM.get(da), NODE_OF_DIM.get(db)
    clean = True
    ma, mb = py_mag(K, ta), py_mag(K, tb)
    if not (in_float_range(ma) and in_float_range(mb) and in_float_range(ma / mb)) or budget(K, ta) + budget(K, tb) > 250:
        out.count("skipped:float-range")
        return res, False

    def viol(kind, expected, detail):
        nonlocal clean
        clean = False
        out.violations.append(Finding(kind, case, observed=canon(res), expected=expected, detail=detail))

    if da == db:
        out.count("class:same-dimension")
        exact = py_mag(K, ta) / py_mag(K, tb)
        if res[0] != "ok":
            viol("oracle:si_ratio", f"{float(exact)!r}", f"same dimension but raised {res[1]}")
        elif relerr(res[1], exact) > SI_TOL:
            magree = model_agrees(res, model)
            c2 = dict(case)
            c2["model_agrees"] = magree
            c2["ia"], c2["ib"] = (model or {}).get("ia"), (model or {}).get("ib")
            f = Finding(DROP_KIND, c2, observed=canon(res), expected=f"{float(exact)!r}",
                        detail="a number juxtaposed to a parenthesised quantity: the quantity's own numeric factor is dropped (not linear in the prefactor)")
            if classify_drop(f):
                out.count("known:" + DROP_KIND)
                clean = False
                out.violations.append(f)
            else:
                viol("oracle:si_ratio", f"{float(exact)!r}", "factor is not the ratio of the SI magnitudes (relative 1e-12)")
        spec = ("ok", exact)
    elif na is not None and nb is not None:
        out.count(f"class:bridge {na}->{nb}")
        exact = py_mag(K, ta) * equiv(K, na) / (py_mag(K, tb) * equiv(K, nb))
        spec = ("ok", exact)
        bad = None
        if res[0] != "ok":
            bad = ("oracle:bridge_error", f"bridged conversion raised {res[1]} instead of returning E=h nu=hc/lambda=mc^2=kT")
        elif relerr(res[1], exact) > br_tol(year, na, nb):
            dev = relerr(res[1], exact)
            if dev <= BR_TOL_LOOSE:
                out.count("bridge_physics:beyond-per-set-tolerance-only")
            bad = ("oracle:bridge_physics", f"bridged factor disagrees with E=h nu=hc/lambda=mc^2=kT (N_A) of CODATA{year} by {float(dev):.3e} relative "
                                             f"(tolerance {br_tol_text(year, na, nb)} for this set{' and temperature' if 'Th' in (na, nb) else ''})")
        else:
            key = (year, "Th" in (na, nb))
            _DEV[key] = max(_DEV.get(key, Fraction(0)), relerr(res[1], exact))
            # to or from hartree against the published relationship
            pub = None
            if enc(ta) == enc(U("hartree")) and enc(tb) in HARTREE_PUBLISHED:
                pub = K["rel"][("hartree", HARTREE_PUBLISHED[enc(tb)])]
            elif enc(tb) == enc(U("hartree")) and enc(ta) in HARTREE_PUBLISHED:
                pub = K["rel"][(HARTREE_PUBLISHED[enc(ta)], "hartree")]
            if pub is not None:
                out.count("hartree_published_checked")
                if relerr(res[1], pub) > PUB_TOL:
                    bad = ("oracle:hartree_published", f"does not reproduce the published relationship {float(pub)!r} (relative 1e-9)")
        if bad:
            magree = model_agrees(res, model)
            known = classify_known(K, year, ta, tb, res, magree)
            if known:
                out.count("known:" + known)
                clean = False
                c2 = dict(case)
                c2["oracle_kind"] = bad[0]
                c2["model_agrees"] = magree
                out.violations.append(Finding(known, c2, observed=canon(res), expected=f"{float(exact)!r}", detail=bad[1]))
            else:
                viol(bad[0], f"{float(exact)!r}", bad[1])
    else:
        out.count("class:unrelated")
        spec = ("err", "Dimensionality")
        if res[0] == "ok":
            viol("oracle:unrelated_no_error", "an exception", "physically unrelated dimensions returned a number")
    out.count("impl:" + (res[0] if res[0] == "ok" else res[1]))
    # ---- tie: the model of the code, and the two SI tables against each other
    if model is not None:
        mi = model["impl"]
        if res[0] == "ok":
            if mi[0] != "ok" or relerr(res[1], mi[1]) > TIE_TOL:
                out.mismatches.append(Finding("mismatch", case, observed=canon(res), expected=_show(mi), detail="implementation vs Lean code model (relative 1e-12)"))
        else:
            if mi != ("err", ERRMAP.get(res[1], res[1])):
                out.mismatches.append(Finding("mismatch", case, observed=canon(res), expected=_show(mi), detail="implementation vs Lean code model (error class)"))
        ms = model["phys"]
        if ms != spec:
            out.mismatches.append(Finding("mismatch:si_tables", case, observed=_show(spec), expected=_show(ms), detail="Python oracle table vs Lean SI model (exact)"))
    return res, clean


def _show(r):
    return f"ok {float(r[1])!r}" if r[0] == "ok" else f"err {r[1]}"


# --------------------------------------------------------------------------------------

# --------------------------------------------------------------------------------------
# block RT: the renderer of this file against its Lean port (Model/UnitRender.lean), and the hypotheses of Props/C03Parse.lean

def render_tie(ctx: Ctx, out: Outcome, pairs):
    """pairs: (AST, text).  For every text written through the renderer: (1) `RExpr.renderTop` of the decorated expression is this
    very text, byte for byte; (2) the decorated expression satisfies the hypotheses `WF` and `Listed` of `render_roundtrip` /
    `conv_text_render`; (3) `erase` and `denote` of it are the AST the generator wrote down.  With (1)-(3) the theorem says that the
    Lean front end reads the text that was sent as that AST — for every such text, not only the sampled ones."""
    seen, items = set(), []
    for t, s in pairs:
        dt = getattr(s, "dt", None)
        e = enc_d(dt) if dt is not None else None
        if e is None:
            out.count("render-tie:text written by hand, not through the renderer")
            continue
        line = f"rend|{s.pre}|{s.post}|{e}"
        if (line, enc(t)) in seen:
            continue
        seen.add((line, enc(t)))
        items.append((t, str(s), line))
    if not items or not ctx.model_available:
        return
    for (t, text, line), m in zip(items, ctx.run_model(DRIVER, [it[2] for it in items])):
        check_render(out, enc(t), text, line, m)


def check_render(out: Outcome, ast: str, text: str, line: str, m: str):
    out.evaluations += 1
    out.count("text:render-tie")
    case = {"block": "RT", "ast": ast, "text": text, "line": line}
    parts = m.split(";", 4)
    if len(parts) != 5 or not parts[4].startswith("txt "):
        out.mismatches.append(Finding("mismatch:render_driver", case, observed=m, expected="wf ..;listed ..;ast ..;den ..;txt .."))
        return
    wf, listed, ast_m, den, txt = parts[0], parts[1], parts[2][4:], parts[3][4:], parts[4][4:]
    if txt != text:
        out.mismatches.append(Finding("mismatch:render_text", case, observed=txt, expected=text,
                                      detail="Lean RExpr.renderTop vs the string this harness sends (byte for byte)"))
    if (wf, listed) != ("wf 1", "listed 1"):
        out.mismatches.append(Finding("mismatch:render_hypotheses", case, observed=f"{wf};{listed}", expected="wf 1;listed 1",
                                      detail="a generated text is outside the hypotheses of Props/C03Parse.lean (WF / Listed)"))
    if ast_m != ast or den != ast:
        out.mismatches.append(Finding("mismatch:render_ast", case, observed=f"{ast_m} | {den}", expected=ast,
                                      detail="erase / denote of the decorated expression vs the AST the generator wrote down"))


def conv_line(year, sa, sb):
    """the two TEXTS go to the Lean model (Model/UnitText.lean parses them); `|` and newlines are outside its alphabet"""
    assert "|" not in sa and "|" not in sb and "\n" not in sa + sb
    return f"convs|{year}|s:{sa}|s:{sb}"


def run(ctx: Ctx) -> Outcome:
    out = Outcome()
    rng = ctx.rng
    import sideeffects

    sideeffects.exercise(out)  # the constants' header writers / printers / comparison reports before any conversion is asked for
    _DEV.clear()
    cases = [(blk, y, ta, tb, decorate_top(sa, rng), decorate_top(sb, rng)) for (blk, y, ta, tb, sa, sb) in gen_cases(ctx)]
    cases += list(drop_cases(ctx))
    triples = list(gen_triples(ctx))
    lines = [conv_line(y, sa, sb) for (_, y, _, _, sa, sb) in cases]
    model = [None] * len(lines)
    if ctx.model_available:
        model = ctx.run_model(DRIVER, lines)
    results = {}
    for (block, year, ta, tb, sa, sb), ml in zip(cases, model):
        res, clean = check_conversion(out, block, year, ta, tb, sa, sb, ml)
        results[(year, sa, sb)] = (res, clean, ta, tb)
        if sa != sb:
            out.nontrivial((year, sa, sb))
        if len(out.samples) < 6 and rng.random() < 0.002:
            out.sample({"set": year, "source": sa, "target": sb, "impl": canon(res), "model": ml})
    render_tie(ctx, out, [(t, x) for (_, _, ta, tb, sa, sb) in cases for (t, x) in ((ta, sa), (tb, sb))]
               + [(t, x) for (_, ts, ss) in triples for (t, x) in zip(ts, ss)])
    relational(ctx, out, cases, results)
    triple_checks(ctx, out, triples)
    typed_routes(ctx, out)
    name_blocks(ctx, out)
    malformed_block(ctx, out)
    arg_block(ctx, out)
    out.exhaustive = False
    out.notes.append("blocks P, S(pairs of seeds), B are exhaustive over their stated corpus; decorations, spellings, Bd, U, T are sampled from VERIF_SEED")
    out.notes.append("tolerances: tie 1e-12, same-dimension oracle 1e-12, published hartree relationships 1e-9, relational products 1e-11; bridged physics per CODATA set: "
                     + ", ".join(f"CODATA{y}{' with temperature' if t else ''} {float(v):.0e}" for (y, t), v in sorted(BR_TOL.items()))
                     + " (measured consistency of the published tables: 2.95e-10, 1.08e-8, 4.81e-10, 3.50e-10); round trips (1+t)^2-1")
    out.notes.append("largest distance from E=h nu=hc/lambda=mc^2=kT among the bridged conversions accepted this run: "
                     + ", ".join(f"CODATA{y}{' with temperature' if t else ''} {float(v):.2e}" for (y, t), v in sorted(_DEV.items())))
    rl = {k[len("block:"):]: v for k, v in out.distribution.items() if k.startswith("block:Rl")}
    out.notes.append(f"block Rl: {len(rl)} of {2 * len(REL_REACHABLE)} (set, reachable published relationship) pairs exercised, "
                     f"between {min(rl.values()) if rl else 0} and {max(rl.values()) if rl else 0} conversions each")
    return out


def relational(ctx: Ctx, out: Outcome, cases, results):
    """diagonal, reciprocity, prefactor linearity — stated directly on the implementation"""
    rng = ctx.rng
    pool = [c for c in cases if c[0] in ("S", "B", "Bd", "P", "Bp") or c[0].startswith("Rl")]
    chosen = rng.sample(pool, min(len(pool), ctx.scale(2500, 40000)))
    # the reverse directions that were not generated get their model line in one batch
    need = [(y, tb, ta, sb, sa) for (_, y, ta, tb, sa, sb) in chosen
            if (y, sb, sa) not in results and results[(y, sa, sb)][0][0] == "ok" and results[(y, sa, sb)][1] and py_dim(ta) != py_dim(tb)]
    rev_model = {}
    if ctx.model_available and need:
        for (y, ta, tb, sa, sb), ml in zip(need, ctx.run_model(DRIVER, [conv_line(y, sa, sb) for (y, _, _, sa, sb) in need])):
            rev_model[(y, sa, sb)] = ml
    for (block, year, ta, tb, sa, sb) in chosen:
        res, clean, _, _ = results[(year, sa, sb)]
        if res[0] != "ok" or not clean:
            continue
        case = case_json(block, year, ta, tb, sa, sb)
        bridged = py_dim(ta) != py_dim(tb)
        tol = REL_TOL
        if bridged:
            # each direction is within t of the physics (checked on its own), so the round trip is within (1+t)^2 - 1 of 1
            t = br_tol(year, NODE_OF_DIM.get(py_dim(ta)), NODE_OF_DIM.get(py_dim(tb)))
            tol = (1 + t) ** 2 - 1
        # diagonal
        d = call_impl(year, sa, sa)
        out.evaluations += 1
        out.count("relational:diagonal")
        if d[0] != "ok" or relerr(d[1], Fraction(1)) > REL_TOL:
            out.violations.append(Finding("oracle:diagonal", case, observed=canon(d), expected="1.0", detail=f"conversion_factor({sa!r},{sa!r})"))
        # reciprocity
        back = results.get((year, sb, sa))
        if back is None:
            r2 = call_impl(year, sb, sa)
            out.evaluations += 1
            ok2 = True
            if bridged:
                # the reverse direction has its own verdict (it may be a known defect class): judge it on its own first
                o2 = Outcome()
                r2, ok2 = check_conversion(o2, block + "r", year, tb, ta, sb, sa, rev_model.get((year, sb, sa)), res=r2)
                out.violations.extend(o2.violations)
                out.mismatches.extend(o2.mismatches)
                for k, v in o2.distribution.items():
                    if k.startswith("known:"):
                        out.count(k, v)
            back = (r2, ok2, tb, ta)
        r2, ok2 = back[0], back[1]
        if ok2:
            out.count("relational:reciprocity")
            if r2[0] != "ok":
                if not bridged:
                    out.violations.append(Finding("oracle:reciprocity", case, observed=canon(r2), expected=repr(1 / res[1]), detail="reverse direction raises"))
            elif not math.isfinite(r2[1]) or abs(Fraction(res[1]) * Fraction(r2[1]) - 1) > tol:
                out.violations.append(Finding("oracle:reciprocity", case, observed=repr(res[1] * r2[1]), expected="1.0", detail="a->b times b->a is not 1"))
        # prefactor linearity
        p, q = rng.choice(DEC_NUMS), rng.choice(DEC_NUMS)
        spa = f"{p}*{sa}" if rng.random() < 0.5 else f"{p} * ({sa})"
        sqb = f"{q}*{sb}" if rng.random() < 0.5 else f"{q} * ({sb})"
        r3 = call_impl(year, spa, sqb)
        out.evaluations += 1
        out.count("relational:prefactor")
        want = Fraction(Decimal(p)) / Fraction(Decimal(q)) * Fraction(res[1])
        if r3[0] != "ok" or relerr(r3[1], want) > REL_TOL:
            c3 = dict(case)
            c3.update({"p": p, "q": q, "spa": spa, "sqb": sqb})
            out.violations.append(Finding("oracle:prefactor", c3, observed=canon(r3), expected=repr(float(want)), detail="not linear in the numeric prefactors"))


def triple_checks(ctx: Ctx, out: Outcome, triples):
    for year, ts, ss in triples:
        mags = [py_mag(KK(year), t) for t in ts]
        if sum(budget(KK(year), t) for t in ts) > 250 or not all(in_float_range(m) for m in mags) or not all(in_float_range(mags[i] / mags[j]) for i, j in ((0, 1), (1, 2), (0, 2))):
            out.count("skipped:float-range")
            continue
        rs = [call_impl(year, ss[i], ss[j]) for i, j in ((0, 1), (1, 2), (0, 2))]
        out.evaluations += 1
        out.count("relational:chain")
        case = {"block": "T", "year": year, "ts": ts, "ss": ss}
        if any(r[0] != "ok" or not math.isfinite(r[1]) or r[1] == 0 for r in rs):
            out.violations.append(Finding("oracle:chain", case, observed=[canon(r) for r in rs], detail="same-dimension triple raised"))
            continue
        if abs(Fraction(rs[0][1]) * Fraction(rs[1][1]) / Fraction(rs[2][1]) - 1) > REL_TOL:
            out.violations.append(Finding("oracle:chain", case, observed=repr(rs[0][1] * rs[1][1]), expected=repr(rs[2][1]), detail="a->b times b->c is not a->c"))
        out.nontrivial((year,) + tuple(ss))


def typed_routes(ctx: Ctx, out: Outcome):
    """Quantity-typed arguments (context.py:316-328), Datum.to_units, covalentradii.get(units=), fresh context (lru_cache)"""
    import qcelemental as qcel

    rng = ctx.rng
    K_ = None
    for _ in range(ctx.scale(300, 2500)):
        year = rng.choice((2014, 2018))
        K_ = KK(year)
        cls = rng.choice(list(SEEDS))
        ta, tb = rng.choice(SEEDS[cls]), rng.choice(SEEDS[cls])
        p, q = rng.choice(DEC_NUMS), rng.choice(DEC_NUMS)
        sa, sb = render(ta, rng), render(tb, rng)
        c = impl_ctx(year)
        exact = Fraction(Decimal(p)) * py_mag(K_, ta) / (Fraction(Decimal(q)) * py_mag(K_, tb))
        case = {"block": "Q", "year": year, "a": ta, "b": tb, "sa": sa, "sb": sb, "p": p, "q": q}
        route = rng.choice(["QQ", "Qs", "sQ", "Fs", "Fs"])
        try:
            with warnings.catch_warnings():
                warnings.simplefilter("ignore")
                if route[0] == "F":
                    # the quantity was made by ANOTHER context (the default singleton or the other CODATA set): the factor asked of
                    # context c is c's factor all the same — the conversion belongs to the context it is asked of
                    other = rng.choice([qcel.constants, impl_ctx(2014 if year == 2018 else 2018)])
                    qa = float(p) * other.ureg.parse_expression(sa)
                else:
                    qa = float(p) * c.ureg.parse_expression(sa) if route[0] == "Q" else f"{p}*({sa})"
                qb = float(q) * c.Quantity(sb) if route[1] == "Q" else f"{q}*({sb})"
                r = ("ok", float(c.conversion_factor(qa, qb)))
        except Exception as e:  # noqa
            r = ("err", type(e).__name__)
        out.evaluations += 1
        out.count("route:quantity-" + route)
        if r[0] != "ok" or relerr(r[1], exact) > SI_TOL * 10:
            out.violations.append(Finding("oracle:quantity_args", case, observed=canon(r), expected=repr(float(exact)), detail=f"Quantity-typed arguments ({route})"))
    # Datum.to_units goes through the default context
    from qcelemental.datum import Datum

    dyear = int(qcel.constants.name[-4:])
    Kd = KK(dyear)
    for _ in range(ctx.scale(100, 600)):
        cls = rng.choice(list(SEEDS))
        ta, tb = rng.choice(SEEDS[cls]), rng.choice(SEEDS[cls])
        sa, sb = render(ta, rng), render(tb, rng)
        val = rng.choice(["2", "0.5", "3.25", "1"])
        exact = Fraction(Decimal(val)) * py_mag(Kd, ta) / py_mag(Kd, tb)
        try:
            with warnings.catch_warnings():
                warnings.simplefilter("ignore")
                r = ("ok", float(Datum("x", sa, Decimal(val)).to_units(sb)))
        except Exception as e:  # noqa
            r = ("err", type(e).__name__)
        out.evaluations += 1
        out.count("route:Datum.to_units")
        if r[0] != "ok" or relerr(r[1], exact) > SI_TOL * 10:
            out.violations.append(Finding("oracle:datum_to_units", {"block": "D", "year": dyear, "a": ta, "b": tb, "sa": sa, "sb": sb, "val": val},
                                          observed=canon(r), expected=repr(float(exact)), detail="Datum.to_units"))
    for sym in ["H", "C", "Fe"]:
        base = float(qcel.covalentradii.get(sym, units="angstrom"))
        for b, p in [("bohr", 0), ("meter", -12), ("meter", -9), ("inch", 0)]:
            sp = render(U(b, p), rng)
            try:
                with warnings.catch_warnings():
                    warnings.simplefilter("ignore")
                    r = ("ok", float(qcel.covalentradii.get(sym, units=sp)))
            except Exception as e:  # noqa
                r = ("err", type(e).__name__)
            exact = Fraction(base) * py_mag(Kd, U("angstrom")) / py_mag(Kd, U(b, p))
            out.evaluations += 1
            out.count("route:covalentradii.get")
            if r[0] != "ok" or relerr(r[1], exact) > SI_TOL * 100:
                out.violations.append(Finding("oracle:covalentradii_units", {"block": "R", "sym": sym, "units": sp}, observed=canon(r), expected=repr(float(exact))))
    # a fresh context must answer like the long-lived (cached) one
    if ctx.thorough:
        for year in (2014, 2018):
            fresh = impl_ctx(year, fresh=True)
            for cls, seeds in SEEDS.items():
                a, b = rng.choice(seeds), rng.choice(seeds)
                sa, sb = render(a), render(b)
                try:
                    with warnings.catch_warnings():
                        warnings.simplefilter("ignore")
                        r1 = ("ok", float(fresh.conversion_factor(sa, sb)))
                except Exception as e:  # noqa
                    r1 = ("err", type(e).__name__)
                r2 = call_impl(year, sa, sb)
                out.evaluations += 1
                out.count("route:fresh-context")
                # pint caches root-unit factors, so the order of float operations (last digit) may differ
                same = r1 == r2 or (r1[0] == r2[0] == "ok" and math.isfinite(r1[1]) and math.isfinite(r2[1]) and r2[1] != 0
                                    and abs(Fraction(r1[1]) / Fraction(r2[1]) - 1) <= Fraction(1, 10**13))
                r1, r2 = canon(r1), canon(r2)
                if not same:
                    out.violations.append(Finding("oracle:cache", {"block": "F", "year": year, "sa": sa, "sb": sb}, observed=r1, expected=r2, detail="fresh context differs from cached one"))


# --------------------------------------------------------------------------------------
# text-level blocks (Model/UnitText.lean): names, collisions, malformed texts, the dropped factor, argument types

def impl_get_name(year, name):
    try:
        return ("key", impl_ctx(year).ureg.get_name(name))
    except Exception as e:  # noqa
        return ("err", TEXT_ERRMAP.get(type(e).__name__, type(e).__name__))


def name_blocks(ctx: Ctx, out: Outcome):
    """SP: the spelling table of the Lean model is the one this file generates from; N: every listed spelling (sampled in the
    quick tier) resolves, on the implementation, to the registry key the Lean resolver computes, and converts to the bare unit
    by the SI ratio; NC: the eight collisions are resolved by the implementation the way the Lean rule says"""
    rng = ctx.rng
    ps = [0] + [p for p, _, _ in PREFIXES]
    if ctx.model_available:
        keys = [(p, b) for b in BASES for p in ps]
        got = ctx.run_model(DRIVER, [f"spell|{p}|{b}" for p, b in keys])
        for (p, b), g in zip(keys, got):
            out.evaluations += 1
            out.count("text:spelling-table-row")
            if g != ",".join(all_forms(p, b)):
                out.mismatches.append(Finding("mismatch:spelling_tables", {"block": "SP", "p": p, "base": b}, observed=g, expected=",".join(all_forms(p, b)),
                                              detail="Lean Units.Text.spellingsOf vs harness all_forms"))
    forms = [(p, b, n) for b in BASES for p in ps for n in all_forms(p, b)]
    good = [f for f in forms if f[2] not in COLLISIONS]
    if not ctx.thorough:
        good = rng.sample(good, 1500)
    year = 2014
    lines = [f"res|{n}" for _, _, n in good] + [f"res|{n}" for n in COLLISIONS]
    ml = ctx.run_model(DRIVER, lines) if ctx.model_available else [None] * len(lines)
    for (p, b, n), m in zip(good, ml[:len(good)]):
        out.evaluations += 1
        out.count("text:name-resolution")
        out.nontrivial(("name", n))
        g = impl_get_name(year, n)
        case = {"block": "N", "year": year, "p": p, "base": b, "name": n}
        if m is not None:
            want = f"key {g[1]}" if g[0] == "key" else f"err {g[1]}"
            if m.split(";")[0] != want or m.split(";")[1] != f"unit {p} {b}":
                out.mismatches.append(Finding("mismatch:name_resolution", case, observed=want, expected=m, detail="ureg.get_name vs Lean resolveKey / resolveUnit"))
        # the spelled name denotes 10^p * b
        bare = spellings(0, b)[0]
        r = call_impl(year, n, bare)
        if r[0] != "ok" or relerr(r[1], Fraction(10) ** p) > SI_TOL:
            out.violations.append(Finding("oracle:spelling", case, observed=canon(r), expected=repr(float(Fraction(10) ** p)),
                                          detail=f"conversion_factor({n!r}, {bare!r}) is not the SI prefix"))
    for (n, (p, b, key)), m in zip(COLLISIONS.items(), ml[len(good):]):
        out.evaluations += 1
        out.count("text:collision-exercised")
        g = impl_get_name(year, n)
        case = {"block": "NC", "year": year, "p": p, "base": b, "name": n}
        if m is not None and (m != f"key {key};none" or g != ("key", key)):
            out.mismatches.append(Finding("mismatch:collision", case, observed=repr(g), expected=m, detail=f"collision table says the rule picks {key}"))
        r = call_impl(year, n, key)
        if r[0] != "ok" or relerr(r[1], Fraction(1)) > SI_TOL:
            out.violations.append(Finding("oracle:collision_denotes_registry_unit", case, observed=canon(r), expected="1.0",
                                          detail=f"{n!r} should denote the registry unit {key!r} (exact name before prefix+name)"))
    out.notes.append("collisions (a listed spelling that pint's rule resolves to another registry unit; modelling matter, the text denotes what the "
                     "registry says): " + ", ".join(f"{n} -> {k}" for n, (_, _, k) in COLLISIONS.items()))


UNKNOWN_NAMES = ["foo", "quux", "meterz", "xJoule", "kcalz", "Hzz", "bohrr", "_m", "m_2", "electronvolt_", "kkm", "angstrm"]
DANGLING = [("{}*", None), ("{} *", None), ("{}/", None), ("{} **", None), ("{}^", None), ("*{}", None), ("/ {}", None), ("**{}", None),
            ("{} * / second", None), ("{}**", None), ("({}", None), ("{})", None), ("(({})", None), ("({}))", None), ("{} ()", None), ("()", None),
            ("({}*)", None), ("(*{})", None), ("{}**()", None), ("{}**(-)", None), ("{}) (", None), ("-", None), ("  ", None), ("{} * * 2", None)]


def malformed_cases(ctx: Ctx):
    """texts the front end must refuse: unknown names inside otherwise valid expressions, dangling / doubled operators, unbalanced
    and empty parentheses — on the source side, the target side or both (the source is read first)"""
    rng = ctx.rng
    seeds = [t for v in SEEDS.values() for t in v]
    for _ in range(ctx.scale(700, 6000)):
        year = rng.choice((2014, 2018))
        t = rng.choice(seeds)
        good = render(t, rng)
        other = render(rng.choice(seeds), rng)
        r = rng.random()
        if r < 0.45:
            # an unknown name in place of one unit, or multiplied in
            bad = rng.choice(UNKNOWN_NAMES)
            lv = leaves(t)
            if lv and rng.random() < 0.6:
                victim = rng.choice(lv)
                vs = spellings(victim[1], victim[2])[0]
                g0 = render(t)
                badtext = g0.replace(vs, bad, 1) if vs in g0 else bad + "*" + g0
            else:
                badtext = rng.choice([f"{good}*{bad}", f"{bad} {good}", f"{good}/{bad}", bad, f"2 {bad}", f"{bad}**2"])
        else:
            badtext = rng.choice(DANGLING)[0].format(good)
        side = rng.random()
        if side < 0.45:
            yield year, badtext, other
        elif side < 0.9:
            yield year, other, badtext
        else:
            yield year, badtext, rng.choice(DANGLING)[0].format(other)


def malformed_block(ctx: Ctx, out: Outcome, cases=None):
    cases = list(malformed_cases(ctx)) if cases is None else cases
    cases = [c for c in cases if "|" not in c[1] + c[2]]
    ml = ctx.run_model(DRIVER, [conv_line(y, a, b) for y, a, b in cases]) if ctx.model_available else [None] * len(cases)
    for (year, sa, sb), m in zip(cases, ml):
        res = call_impl(year, sa, sb)
        out.evaluations += 1
        out.count("block:X")
        out.nontrivial((year, sa, sb))
        case = {"block": "X", "year": year, "sa": sa, "sb": sb}
        cls = TEXT_ERRMAP.get(res[1], res[1]) if res[0] == "err" else None
        out.count("malformed:impl " + (cls or "ok"))
        if m is None:
            continue
        mi = parse_model(m)["impl"]
        if mi[0] == "err" and mi[1] == "Unsupported":
            out.count("malformed:outside-model")     # not a claim of the model (never happens with the shapes above)
            out.mismatches.append(Finding("mismatch:malformed_outside_model", case, observed=canon(res), expected=m))
            continue
        if res[0] == "ok":
            if mi[0] != "ok" or relerr(res[1], mi[1]) > TIE_TOL:
                out.mismatches.append(Finding("mismatch:malformed", case, observed=canon(res), expected=_show(mi), detail="implementation accepts a text the model refuses"))
        elif mi != ("err", cls):
            out.mismatches.append(Finding("mismatch:malformed", case, observed=canon(res), expected=_show(mi), detail="error class: implementation vs Lean text front end"))


def drop_cases(ctx: Ctx):
    """block J: `<number> (<expression with its own numeric factor>)` and relatives"""
    rng = ctx.rng
    for _ in range(ctx.scale(150, 1500)):
        year = rng.choice((2014, 2018))
        cls = rng.choice(list(SEEDS))
        ta0, tb = rng.choice(SEEDS[cls]), rng.choice(SEEDS[cls])
        p, q = rng.choice(DEC_NUMS), rng.choice([d for d in DEC_NUMS if d != "1"])
        inner_s = render(ta0, rng)
        form = rng.randrange(5)
        if form == 0:
            ta, sa = MUL(N(p), MUL(N(q), ta0)), f"{p} ({q}*({inner_s}))"
        elif form == 1:
            ta, sa = MUL(N(p), MUL(N(q), ta0)), f"{p}({q} * ({inner_s}))"
        elif form == 2:
            ta, sa = MUL(N(p), DIV(ta0, N(q))), f"{p} (({inner_s})/{q})"
        elif form == 3:
            ta, sa = MUL(MUL(N(p), MUL(N(q), ta0)), U("second")), f"{p} ({q}*({inner_s})) s"
            tb = MUL(tb, U("second"))
        else:
            ta, sa = MUL(N(p), MUL(N(q), ta0)), f"{p} * ({q}*({inner_s}))"      # explicit `*`: correct
        yield ("J", year, ta, tb, sa, render(tb, rng))


def arg_cases(ctx: Ctx):
    """block A: conversion_factor on the argument types it is given: str, Quantity (int / float magnitude), Quantity with a
    Decimal magnitude, Unit, and objects that are none of these"""
    rng = ctx.rng
    kinds = ["s", "q", "q", "qi", "u", "d", "o"]
    for _ in range(ctx.scale(500, 5000)):
        year = rng.choice((2014, 2018))
        cls = rng.choice(list(SEEDS))
        ta, tb = rng.choice(SEEDS[cls]), rng.choice(SEEDS[cls])
        if rng.random() < 0.3:
            ta = MUL(N(rng.choice(DEC_NUMS)), ta)
        if rng.random() < 0.2:
            tb = MUL(N(rng.choice(DEC_NUMS)), tb)
        yield (year, rng.choice(kinds), rng.choice(DEC_NUMS), ta, render(ta, rng), rng.choice(kinds), rng.choice(DEC_NUMS), tb, render(tb, rng))


OTHER_OBJECTS = [Decimal("2"), 7, None, ("meter",), b"meter"]


def _mk_arg(c, kind, p, s, rng):
    """(python object handed to conversion_factor, model encoding, AST the argument stands for or None)"""
    if kind == "s":
        return s, f"s:{s}"
    if kind == "q":
        return float(p) * c.ureg.parse_expression(s), f"q:{Fraction(Decimal(p))}:{s}"
    if kind == "qi":
        n = rng.choice([2, 3, 10])
        return n * c.ureg.parse_expression(s), f"q:{n}:{s}"
    if kind == "u":
        return c.ureg.parse_expression(s).units, f"u:{s}"
    if kind == "d":
        return c.ureg.Quantity(Decimal(p), c.ureg.parse_expression(s).units), f"d:{s}"
    return rng.choice(OTHER_OBJECTS), "o"


def arg_block(ctx: Ctx, out: Outcome, cases=None):
    rng = ctx.rng
    cases = list(arg_cases(ctx)) if cases is None else cases
    objs, lines, kept = [], [], []
    for cs in cases:
        (year, ka, p, ta, sa, kb, q, tb, sb) = cs
        c = impl_ctx(year)
        try:
            with warnings.catch_warnings():
                warnings.simplefilter("ignore")
                oa, ea = _mk_arg(c, ka, p, sa, rng)
                ob, eb = _mk_arg(c, kb, q, sb, rng)
        except Exception as e:  # noqa — the texts are valid expressions of the corpus: the registry must read them
            out.evaluations += 1
            out.violations.append(Finding("oracle:argument_types", {"block": "A", "year": year, "ka": ka, "p": p, "a": ta, "sa": sa, "kb": kb, "q": q, "b": tb, "sb": sb},
                                          observed=f"err {type(e).__name__}", expected="a Quantity", detail="ureg.parse_expression refused a text of the corpus"))
            continue
        kept.append(cs)
        objs.append((oa, ob, ea, eb))
        lines.append(f"convs|{year}|{ea}|{eb}")
    cases = kept
    render_tie(ctx, out, [(t, x) for cs in cases for (t, x) in ((cs[3], cs[4]), (cs[7], cs[8]))])
    ml = ctx.run_model(DRIVER, lines) if ctx.model_available else [None] * len(lines)
    for (year, ka, p, ta, sa, kb, q, tb, sb), (oa, ob, ea, eb), m in zip(cases, objs, ml):
        res = call_impl(year, oa, ob)
        out.evaluations += 1
        out.count(f"route:args {ka}/{kb}")
        out.nontrivial((year, ea, eb))
        case = {"block": "A", "year": year, "ka": ka, "p": p, "a": ta, "sa": sa, "kb": kb, "q": q, "b": tb, "sb": sb, "ea": ea, "eb": eb}
        # oracle (the property's clauses on unit-like arguments): the factor is the SI ratio, linear in the Quantity magnitudes
        if ka in ("s", "q", "qi", "u") and kb in ("s", "q", "qi", "u"):
            K = KK(year)

            def mag_of(kind, enc_, t):
                if kind == "s":
                    return py_mag(K, t)
                if kind in ("q", "qi"):
                    return Fraction(enc_.split(":")[1]) * py_mag(K, t)
                return py_mag(K, strip_nums(t))
            exact = mag_of(ka, ea, ta) / mag_of(kb, eb, tb)
            if res[0] != "ok" or relerr(res[1], exact) > SI_TOL * 10:
                out.violations.append(Finding("oracle:argument_types", case, observed=canon(res), expected=repr(float(exact)),
                                              detail=f"argument kinds {ka}/{kb}: not the SI ratio times the Quantity magnitudes"))
        if m is None:
            continue
        mi = parse_model(m)["impl"]
        if res[0] == "ok":
            if mi[0] != "ok" or relerr(res[1], mi[1]) > TIE_TOL:
                out.mismatches.append(Finding("mismatch:argument_types", case, observed=canon(res), expected=_show(mi), detail="conversion_factor vs Lean convArgs"))
        elif mi != ("err", TEXT_ERRMAP.get(res[1], res[1])):
            out.mismatches.append(Finding("mismatch:argument_types", case, observed=canon(res), expected=_show(mi), detail="error class: conversion_factor vs Lean convArgs"))


def strip_nums(t):
    if t[0] == "n":
        return N("1")
    if t[0] == "u":
        return t
    if t[0] in "*/":
        return (t[0], strip_nums(t[1]), strip_nums(t[2]))
    return (t[0], strip_nums(t[1]), t[2])


# --------------------------------------------------------------------------------------

def _tup(x):
    return tuple(_tup(y) for y in x) if isinstance(x, list) else x


def replay(ctx: Ctx, case) -> Outcome:
    out = Outcome()
    block = case.get("block", "?")
    if block == "T":
        triple_checks(ctx, out, [(case["year"], [_tup(t) for t in case["ts"]], case["ss"])])
        return out
    if block == "RT":
        if ctx.model_available:
            check_render(out, case["ast"], case["text"], case["line"], ctx.run_model(DRIVER, [case["line"]])[0])
        return out
    if block in ("Q", "D", "R", "F"):
        typed_routes(ctx, out)
        return out
    if block in ("N", "NC", "SP"):
        name_blocks(ctx, out)
        return out
    if block == "X":
        malformed_block(ctx, out, [(case["year"], case["sa"], case["sb"])])
        return out
    if block == "A":
        arg_block(ctx, out, [(case["year"], case["ka"], case["p"], _tup(case["a"]), case["sa"], case["kb"], case["q"], _tup(case["b"]), case["sb"])])
        return out
    year, ta, tb, sa, sb = case["year"], _tup(case["a"]), _tup(case["b"]), case["sa"], case["sb"]
    ml = ctx.run_model(DRIVER, [conv_line(year, sa, sb)])[0] if ctx.model_available else None
    res, clean = check_conversion(out, block, year, ta, tb, sa, sb, ml)
    cases = [(block, year, ta, tb, sa, sb)]
    if clean and res[0] == "ok":
        relational(ctx, out, cases, {(year, sa, sb): (res, clean, ta, tb)})
        if "spa" in case:
            r3 = call_impl(year, case["spa"], case["sqb"])
            want = Fraction(Decimal(case["p"])) / Fraction(Decimal(case["q"])) * Fraction(res[1])
            if r3[0] != "ok" or relerr(r3[1], want) > REL_TOL:
                out.violations.append(Finding("oracle:prefactor", case, observed=canon(r3), expected=repr(float(want)), detail="not linear in the numeric prefactors"))
    return out


def known_predicate(finding: Finding, entry) -> bool:
    """A finding carries a known kind only if classify_known put it there; re-derive it from the recorded case."""
    c = finding.case
    if finding.kind == DROP_KIND or entry.get("kind") == DROP_KIND:
        return finding.kind == entry.get("kind") == DROP_KIND and classify_drop(finding)
    try:
        year, ta, tb = c["year"], _tup(c["a"]), _tup(c["b"])
        obs = finding.observed.split(" ", 1)
        res = ("ok", float(obs[1])) if obs[0] == "ok" else ("err", obs[1])
        return classify_known(KK(year), year, ta, tb, res, c.get("model_agrees")) == entry.get("kind") == finding.kind
    except Exception:
        return False
