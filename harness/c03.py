"""C03 — unit conversion factors: translator (CODATA -> Lean), correspondence with the Lean models
(SI specification `conv`/`convPhys`, code model `convImpl`) and an independent Python oracle."""
from __future__ import annotations

import ast as pyast
import itertools
import math
import warnings
from decimal import Decimal
from fractions import Fraction

import common
from common import Ctx, Finding, Outcome

PROPERTY = "C03"
LEAN_TARGETS = ["QcelVerif.Props.C03", "QcelVerif.Driver.C03"]
DRIVER = "QcelVerif/Driver/C03.lean"
THEOREMS = [
    ("QcelVerif.Units.mag_ne_zero", "positive CODATA constants and non-zero numeric prefactors give a non-zero SI magnitude for every expression (discharges the hypotheses below)"),
    ("QcelVerif.Units.conv_self", "conv a a = 1 for every expression"),
    ("QcelVerif.Units.conv_swap", "same dimension: conv a b * conv b a = 1"),
    ("QcelVerif.Units.conv_chain", "same dimension: conv a b * conv b c = conv a c"),
    ("QcelVerif.Units.conv_prefactor", "conv (p*a) (q*b) = (p/q) * conv a b for all numeric prefactors p, q != 0"),
    ("QcelVerif.Units.conv_dim_mismatch", "different dimensions: the SI model refuses (error, never a number)"),
    ("QcelVerif.Units.parse_sound", "pint's insertion-ordered container arithmetic is sound: magnitude * product of key magnitudes = mag, container dimension = dim, for every expression"),
    ("QcelVerif.Units.convImpl_same_dim", "code model = SI model whenever the two expressions have the same dimension (so the four group laws hold for the code model)"),
    ("QcelVerif.Units.convImpl_unrelated", "code model: dimensions that differ and are not both among the six bridged ones give DimensionalityError"),
    ("QcelVerif.Units.hartree_bridges_published", "code model, any CODATA set: hartree -> Hz, 1/m, kg, K and back return exactly the published '<a>-<b> relationship' value"),
    ("QcelVerif.Units.bridge_fallback_physics", "code model: an energy source none of whose factors carries a NIST name converts to frequency as E/h exactly (fallback branch), for every such expression"),
    ("QcelVerif.Units.nist_relationships_consistent", "both generated CODATA sets: all 56 published X-Y relationships agree with E=h nu=hc/lambda=mc^2=kT from h,c,k,e,m_u,E_h of the same set, and R(a,b)*R(b,a)=1, to a tolerance per set: 1e-9 relative for CODATA2018 and for CODATA2014 pairs without the kelvin, 2e-8 for CODATA2014 pairs with the kelvin (kernel-evaluated on the regenerated data; a literal carried over from the other set breaks it)"),
    ("QcelVerif.Units.bridge_prefixed_source_counterexample", "KNOWN DEFECT, code model: for every prefix p and CODATA set, (10^p Hz -> hartree) = 10^(2p) * published; MHz->hartree * hartree->MHz = 10^6 * R*R'"),
    ("QcelVerif.Units.codata2014_pos", "the regenerated 2014 table is positive, so every theorem with hypothesis cd.Pos applies to it"),
    ("QcelVerif.Units.codata2018_pos", "the regenerated 2018 table is positive"),
    ("QcelVerif.Units.bridge_prefixed_source_2014", "KNOWN DEFECT on the regenerated 2014 data: (MHz->hartree)*(hartree->MHz) is within 3e-8 of 10^6, not of 1"),
    ("QcelVerif.Units.bridge_two_hop_counterexample", "KNOWN DEFECT, code model: Hz -> kg raises DimensionalityError and wavenumber -> Hz raises UndefinedUnitError although the SI/physics model returns a number"),
    ("QcelVerif.Units.bridge_compound_source_counterexample", "KNOWN DEFECT, code model: kg*m^2/s^2 -> Hz raises DimensionalityError although it is an energy"),
]
TRUSTED_BASE = [
    "Lean 4.33 kernel; axioms per theorem audited on every run (subset of propext, Classical.choice, Quot.sound)",
    "translator gen_units_codata in harness/c03.py (ast.literal_eval of qcelemental/data/nist_201{4,8}_codata.py -> exact rationals in lean/QcelVerif/Gen/UnitsCodata.lean)",
    "hand-written SI unit table (Model/Units.lean baseMag/baseDim) — also written independently in Python (harness/c03.py) and the two are compared exactly on every case",
    "hand-written model convImpl of context.py:278-331 + ureg.py:131-193 + pint's UnitsContainer/context path, tied by differential correspondence at relative 1e-12",
    "pint's expression parser, identifier/prefix resolution, registry and float evaluation (third party; inside the differential check, not modelled as strings)",
    "harness/c03.py generators and the Python oracle",
]
ASSUMPTIONS = [
    "unit names are those of the table in harness/c03.py (BASES) with the 24 SI prefixes; offset units (degC, degF), non-integer or zero powers and non-ASCII spellings are outside the model and not generated",
    "the name test of _find_nist_unit is modelled structurally (base is one of NIST's eight units, or kilo+gram); exercised for every prefix on every table unit",
    "lru_cache is treated as transparent (every call is also compared on a fresh PhysicalConstantsContext in the thorough tier)",
]
RULE = (
    "a case = (CODATA set, source AST, target AST), ASTs over {numeric prefactor, prefixed table unit, product, quotient, integer power}, "
    "rendered to a string for conversion_factor (random alias/prefix spelling, minimal parentheses) and sent as an AST to the Lean driver. "
    "Blocks: P every SI prefix on every table unit (both directions against the bare unit); S all ordered pairs of the per-dimension seed corpus "
    "(24 dimension classes incl. the 19 au_* units) with randomly decorated compounds; B every ordered pair of the bridged seed corpus across the six "
    "bridged dimensions (plus every prefix on every bridged base as source in the thorough tier); Rl for each CODATA set each of the 17 published "
    "'<X>-<Y> relationship' literals a working conversion can go through (eV, hartree, J -> Hz, 1/m, kg, K; Hz, 1/m, kg, u, K -> hartree): the bare "
    "NIST-named source in every spelling, with numeric prefactors ('2*eV', '2 eV', '2 * (eV)') and per mole, against the bare target and against every "
    "SI prefix on every target unit of that dimension (5 sampled per source form in the quick tier, all in the thorough tier), each judged against the "
    "physics at the tolerance of its set; U unrelated dimensions; T sampled triples; "
    "Q Quantity-typed arguments, Datum.to_units, covalentradii.get(units=). A case is distinct by (set, rendered source, rendered target) and counted "
    "non-trivial unless source and target render to the same string."
)
LEVEL_TEXT = (
    "proof, partial: the group laws, the soundness of the container arithmetic, 'code model = SI model on equal dimensions', the published-hartree "
    "bridges and the NIST consistency of the regenerated CODATA tables (to a tolerance per set: 1e-9, and 2e-8 for CODATA2014 kelvin pairs) are Lean "
    "theorems; that pint + ureg.py implement the code model is differential (relative 1e-12); that every bridged factor the implementation returns "
    "agrees with the physics of its own CODATA set is checked by the oracle at the same per-set tolerances. Three bridge defect classes are proved as "
    "counter-examples and reported as known findings."
)
TECHNIQUE = "Lean 4 proof over an independent SI model and a hand-written model of the code + translator-regenerated CODATA tables + behavioural correspondence + Python oracle"

# --------------------------------------------------------------------------------------
# translator: CODATA values -> lean/QcelVerif/Gen/UnitsCodata.lean

NIST_NAMES = {
    "invm": "inverse meter", "amu": "atomic mass unit", "ev": "electron volt", "hartree": "hartree",
    "hertz": "hertz", "joule": "joule", "kelvin": "kelvin", "kg": "kilogram",
}
NIST_ORDER = ["invm", "amu", "ev", "hartree", "hertz", "joule", "kelvin", "kg"]
AU_KEYS = {
    "hyper1": "atomic unit of 1st hyperpolarizability", "hyper2": "atomic unit of 2nd hyperpolarizability",
    "action": "atomic unit of action", "chargeDensity": "atomic unit of charge density",
    "current": "atomic unit of current", "dipole": "atomic unit of electric dipole mom.",
    "efield": "atomic unit of electric field", "efg": "atomic unit of electric field gradient",
    "polarizability": "atomic unit of electric polarizability", "potential": "atomic unit of electric potential",
    "quadrupole": "atomic unit of electric quadrupole mom.", "force": "atomic unit of force",
    "magDipole": "atomic unit of mag. dipole mom.", "magFlux": "atomic unit of mag. flux density",
    "magnetizability": "atomic unit of magnetizability", "momentum": "atomic unit of mom.um",
    "permittivity": "atomic unit of permittivity", "time": "atomic unit of time", "velocity": "atomic unit of velocity",
}
CONST_KEYS = {
    "NA": "avogadro constant", "kB": "boltzmann constant", "c": "speed of light in vacuum", "h": "planck constant",
    "Eh": "hartree energy", "eV": "electron volt-joule relationship", "me": "electron mass", "mu": "atomic mass constant",
    "e": "elementary charge", "a0": "bohr radius",
}


def _load_codata_file(year: int) -> dict:
    path = common.REPO / "qcelemental" / "data" / f"nist_{year}_codata.py"
    tree = pyast.parse(path.read_text())
    for node in tree.body:
        if isinstance(node, pyast.Assign) and any(getattr(t, "id", "") == f"nist_{year}_codata" for t in node.targets):
            return pyast.literal_eval(node.value)["constants"]
    raise ValueError(f"nist_{year}_codata not found in {path}")


def _au_key(year: int, u: str) -> str:
    if year == 2018 and u == "momentum":  # ureg.py:81-82
        return "atomic unit of momentum"
    return AU_KEYS[u]


def _lean_rat(s: str) -> str:
    d = Decimal(s)
    sign, digits, exp = d.as_tuple()
    n = int("".join(map(str, digits))) * (-1 if sign else 1)
    if exp >= 0:
        return f"({n * 10 ** exp} : Rat)"
    return f"(({n} : Rat) / ({10 ** (-exp)} : Rat))"


def _extract(year: int) -> dict:
    """values (decimal strings) the unit model needs from one data file"""
    raw = _load_codata_file(year)
    out = {"const": {k: raw[v]["value"] for k, v in CONST_KEYS.items()}}
    out["au"] = {u: raw[_au_key(year, u)]["value"] for u in AU_KEYS}
    rel = {}
    for a in NIST_ORDER:
        for b in NIST_ORDER:
            if a != b:
                rel[(a, b)] = raw[f"{NIST_NAMES[a]}-{NIST_NAMES[b]} relationship"]["value"]
    out["rel"] = rel
    return out


def gen_units_codata(ctx) -> None:
    lines = [
        "import QcelVerif.Model.Units",
        "/-! GENERATED by harness/c03.py:gen_units_codata from qcelemental/data/nist_201{4,8}_codata.py — do not edit -/",
        "namespace QcelVerif.Units.Gen",
        "open QcelVerif.Units",
        "",
    ]
    for year in (2014, 2018):
        ex = _extract(year)
        lines.append(f"def au{year} : AuU → Rat")
        for u in AU_KEYS:
            lines.append(f"  | .{u} => {_lean_rat(ex['au'][u])}")
        lines.append("")
        lines.append(f"def rel{year} : NistU → NistU → Rat")
        for a in NIST_ORDER:
            for b in NIST_ORDER:
                if a != b:
                    lines.append(f"  | .{a}, .{b} => {_lean_rat(ex['rel'][(a, b)])}")
        lines.append("  | _, _ => 1")
        lines.append("")
        lines.append(f"def codata{year} : Codata where")
        for k in CONST_KEYS:
            lines.append(f"  {k} := {_lean_rat(ex['const'][k])}")
        lines.append(f"  au := au{year}")
        lines.append(f"  rel := rel{year}")
        lines.append("")
    lines.append("end QcelVerif.Units.Gen")
    body = "\n".join(lines) + "\n"
    gen = common.LEAN / "QcelVerif" / "Gen"
    gen.mkdir(exist_ok=True)
    f = gen / "UnitsCodata.lean"
    if not f.exists() or f.read_text() != body:
        f.write_text(body)


TRANSLATORS = [gen_units_codata]

# --------------------------------------------------------------------------------------
# the unit table, written a second time (independently of Lean) for rendering and for the oracle

# dimension vectors (L, M, T, I, Th, N, J)
def _v(L=0, M=0, T=0, I=0, Th=0, N=0, J=0):
    return (L, M, T, I, Th, N, J)


def _add(a, b):
    return tuple(x + y for x, y in zip(a, b))


def _sub(a, b):
    return tuple(x - y for x, y in zip(a, b))


def _sm(n, a):
    return tuple(n * x for x in a)


D_LEN, D_MASS, D_TIME, D_CUR, D_TEMP, D_SUB = _v(L=1), _v(M=1), _v(T=1), _v(I=1), _v(Th=1), _v(N=1)
D_ZERO = _v()
D_FREQ, D_INVL = _v(T=-1), _v(L=-1)
D_FORCE = _v(L=1, M=1, T=-2)
D_EN = _v(L=2, M=1, T=-2)
D_ENMOL = _v(L=2, M=1, T=-2, N=-1)
D_PRES = _v(L=-1, M=1, T=-2)
D_CHG = _v(T=1, I=1)
D_VOLT = _v(L=2, M=1, T=-3, I=-1)
D_TESLA = _v(M=1, T=-2, I=-1)
D_FARAD = _v(L=-2, M=-1, T=4, I=2)
D_POWER = _v(L=2, M=1, T=-3)

AU_DIM = {
    "hyper1": _v(L=-1, M=-2, T=7, I=3), "hyper2": _v(L=-2, M=-3, T=10, I=4), "action": _v(L=2, M=1, T=-1),
    "chargeDensity": _v(L=-3, T=1, I=1), "current": D_CUR, "dipole": _v(L=1, T=1, I=1), "efield": _v(L=1, M=1, T=-3, I=-1),
    "efg": _v(M=1, T=-3, I=-1), "polarizability": _v(M=-1, T=4, I=2), "potential": D_VOLT, "quadrupole": _v(L=2, T=1, I=1),
    "force": D_FORCE, "magDipole": _v(L=2, I=1), "magFlux": D_TESLA, "magnetizability": _v(L=2, M=-1, T=2, I=2),
    "momentum": _v(L=1, M=1, T=-1), "permittivity": _v(L=-3, M=-1, T=4, I=2), "time": D_TIME, "velocity": _v(L=1, T=-1),
}
AU_PINT = {
    "hyper1": "au_1st_hyperpolarizability", "hyper2": "au_2nd_hyperpolarizability", "action": "au_action",
    "chargeDensity": "au_charge_density", "current": "au_current", "dipole": "au_electric_dipole_moment",
    "efield": "au_electric_field", "efg": "au_electric_field_gradient", "polarizability": "au_electric_polarizability",
    "potential": "au_electric_potential", "quadrupole": "au_electric_quadrupole_moment", "force": "au_force",
    "magDipole": "au_magnetic_dipole_moment", "magFlux": "au_magnetic_flux_density", "magnetizability": "au_magnetizability",
    "momentum": "au_momentum", "permittivity": "au_permittivity", "time": "au_time", "velocity": "au_velocity",
}
F = Fraction
STATC = F(1, 2997924580)
# base id -> (dimension, magnitude as function of the constants dict, spellings [long names], [symbols], nist tag)
BASES = {
    "meter": (D_LEN, lambda k: F(1), ["meter", "metre"], ["m"]),
    "angstrom": (D_LEN, lambda k: F(1, 10**10), ["angstrom"], []),
    "angstromCap": (D_LEN, lambda k: F(1, 10**10), ["Angstrom"], []),
    "bohr": (D_LEN, lambda k: k["a0"], ["bohr", "Bohr", "bohr_radius", "au_length"], []),
    "inch": (D_LEN, lambda k: F(9144, 10000) / 36, ["inch"], []),
    "foot": (D_LEN, lambda k: F(9144, 10000) / 3, ["foot", "feet"], ["ft"]),
    "yard": (D_LEN, lambda k: F(9144, 10000), ["yard"], ["yd"]),
    "mile": (D_LEN, lambda k: 1760 * F(9144, 10000), ["mile"], ["mi"]),
    "gram": (D_MASS, lambda k: F(1, 1000), ["gram"], ["g"]),
    "amu": (D_MASS, lambda k: k["mu"], ["atomic_mass_unit", "amu", "dalton"], ["u", "Da"]),
    "emass": (D_MASS, lambda k: k["me"], ["electron_mass", "au_mass"], []),
    "second": (D_TIME, lambda k: F(1), ["second", "sec"], ["s"]),
    "minute": (D_TIME, lambda k: F(60), ["minute"], ["min"]),
    "hour": (D_TIME, lambda k: F(3600), ["hour"], ["hr"]),
    "ampere": (D_CUR, lambda k: F(1), ["ampere", "amp"], ["A"]),
    "kelvin": (D_TEMP, lambda k: F(1), ["kelvin"], ["K"]),
    "rankine": (D_TEMP, lambda k: F(5, 9), ["degree_Rankine", "rankine", "degR"], []),
    "mole": (D_SUB, lambda k: F(1), ["mole"], ["mol"]),
    "coulomb": (D_CHG, lambda k: F(1), ["coulomb"], ["C"]),
    "echarge": (D_CHG, lambda k: k["e"], ["elementary_charge", "au_charge"], ["e"]),
    "statC": (D_CHG, lambda k: STATC, ["statcoulomb"], ["statC"]),
    "joule": (D_EN, lambda k: F(1), ["joule"], ["J"]),
    "calorie": (D_EN, lambda k: F(4184, 1000), ["calorie"], ["cal"]),
    "eV": (D_EN, lambda k: k["eV"], ["electron_volt"], ["eV"]),
    "hartree": (D_EN, lambda k: k["Eh"], ["hartree", "hartree_energy", "au_energy"], ["E_h"]),
    "erg": (D_EN, lambda k: F(1, 10**7), ["erg"], []),
    "hertz": (D_FREQ, lambda k: F(1), ["hertz"], ["Hz"]),
    "wavenumber": (D_INVL, lambda k: F(100), ["wavenumber"], []),
    "debye": (_v(L=1, T=1, I=1), lambda k: F(1, 10**18) * STATC * F(1, 100), ["debye"], ["D"]),
    "newton": (D_FORCE, lambda k: F(1), ["newton"], ["N"]),
    "dyne": (D_FORCE, lambda k: F(1, 10**5), ["dyne"], ["dyn"]),
    "pascal": (D_PRES, lambda k: F(1), ["pascal"], ["Pa"]),
    "bar": (D_PRES, lambda k: F(10**5), ["bar"], []),
    "atm": (D_PRES, lambda k: F(101325), ["standard_atmosphere", "atmosphere", "atm"], []),
    "torr": (D_PRES, lambda k: F(101325, 760), ["torr"], []),
    "volt": (D_VOLT, lambda k: F(1), ["volt"], ["V"]),
    "tesla": (D_TESLA, lambda k: F(1), ["tesla"], ["T"]),
    "farad": (D_FARAD, lambda k: F(1), ["farad"], ["F"]),
    "watt": (D_POWER, lambda k: F(1), ["watt"], ["W"]),
    "auPressure": (D_PRES, lambda k: k["Eh"] / k["a0"] ** 3, ["au_pressure"], []),
}
for _u, _d in AU_DIM.items():
    BASES["au:" + _u] = (_d, (lambda u: (lambda k: k["au"][u]))(_u), [AU_PINT[_u]], [])

PREFIXES = [
    (-30, "quecto", "q"), (-27, "ronto", "r"), (-24, "yocto", "y"), (-21, "zepto", "z"), (-18, "atto", "a"),
    (-15, "femto", "f"), (-12, "pico", "p"), (-9, "nano", "n"), (-6, "micro", "u"), (-3, "milli", "m"),
    (-2, "centi", "c"), (-1, "deci", "d"), (1, "deca", "da"), (2, "hecto", "h"), (3, "kilo", "k"),
    (6, "mega", "M"), (9, "giga", "G"), (12, "tera", "T"), (15, "peta", "P"), (18, "exa", "E"),
    (21, "zetta", "Z"), (24, "yotta", "Y"), (27, "ronna", "R"), (30, "quetta", "Q"),
]
PREFIX_BY_EXP = {e: (l, s) for e, l, s in PREFIXES}
# NIST-named bases (the canonical pint name is one of `_nist_units`): hertz joule kelvin hartree electron_volt atomic_mass_unit
NIST_BASE = {"hertz", "joule", "kelvin", "hartree", "eV", "amu"}
# spellings pint reads as something else than <prefix><unit> (an exact unit name wins, or Python keywords): not generated
BAD_SPELLINGS: set = {"nmi", "au", "dau", "hbar", "fm"}  # nautical_mile, astronomical_unit, deci-au, dirac_constant, fermi


def spellings(p: int, b: str):
    """all spellings of prefix 10^p on base b that are generated"""
    _, _, longs, syms = BASES[b]
    if p == 0:
        return [s for s in longs + syms if s not in BAD_SPELLINGS]
    pl, ps = PREFIX_BY_EXP[p]
    out = [pl + s for s in longs + syms] + [ps + s for s in syms] + [ps + longs[0]]
    return [s for s in out if s not in BAD_SPELLINGS]


# --------------------------------------------------------------------------------------
# ASTs:  ("n", "2.5") | ("u", pexp, base) | ("*", a, b) | ("/", a, b) | ("^", a, n)

def U(b, p=0):
    return ("u", p, b)


def N(s):
    return ("n", str(s))


def MUL(a, b):
    return ("*", a, b)


def DIV(a, b):
    return ("/", a, b)


def POW(a, n):
    return ("^", a, n)


def INV(a):
    return DIV(N(1), a)


def enc(t) -> str:
    k = t[0]
    if k == "n":
        fr = Fraction(Decimal(t[1]))
        return f"n {fr.numerator}/{fr.denominator}" if fr.denominator != 1 else f"n {fr.numerator}"
    if k == "u":
        return f"u {t[1]} {t[2]}"
    if k in "*/":
        return f"{k} {enc(t[1])} {enc(t[2])}"
    return f"^ {t[2]} {enc(t[1])}"


def render(t, rng=None) -> str:
    """string for pint: left-associative * and /, parentheses only where the AST needs them"""
    k = t[0]
    if k == "n":
        return t[1]
    if k == "u":
        sp = spellings(t[1], t[2])
        return sp[0] if rng is None else rng.choice(sp)
    if k in "*/":
        a, b = render(t[1], rng), render(t[2], rng)
        if t[2][0] in "*/":
            b = "(" + b + ")"
        if t[1][0] == "n" and t[1][1].startswith("-"):
            a = "(" + a + ")"
        op = k if rng is None else rng.choice([k, f" {k} "])
        return a + op + b
    a = render(t[1], rng)
    if t[1][0] != "u":
        a = "(" + a + ")"
    op = "**" if rng is None else rng.choice(["**", "^"])
    n = str(t[2]) if t[2] >= 0 else (f"({t[2]})" if rng is not None and rng.random() < 0.5 else str(t[2]))
    return a + op + n


def py_dim(t):
    k = t[0]
    if k == "n":
        return D_ZERO
    if k == "u":
        return BASES[t[2]][0]
    if k == "*":
        return _add(py_dim(t[1]), py_dim(t[2]))
    if k == "/":
        return _sub(py_dim(t[1]), py_dim(t[2]))
    return _sm(t[2], py_dim(t[1]))


def py_mag(K, t) -> Fraction:
    k = t[0]
    if k == "n":
        return Fraction(Decimal(t[1]))
    if k == "u":
        return Fraction(10) ** t[1] * BASES[t[2]][1](K)
    if k == "*":
        return py_mag(K, t[1]) * py_mag(K, t[2])
    if k == "/":
        return py_mag(K, t[1]) / py_mag(K, t[2])
    return py_mag(K, t[1]) ** t[2]


def leaves(t):
    if t[0] == "u":
        return [t]
    if t[0] == "n":
        return []
    if t[0] in "*/":
        return leaves(t[1]) + leaves(t[2])
    return leaves(t[1])


NODE_OF_DIM = {D_EN: "E", D_FREQ: "F", D_INVL: "W", D_MASS: "M", D_TEMP: "Th", D_ENMOL: "EM"}
NAME_NODES = {"F", "W", "M", "Th"}  # reached through a name-selecting transformer


def equiv(K, node) -> Fraction:
    return {"E": F(1), "F": K["h"], "W": K["h"] * K["c"], "M": K["c"] ** 2, "Th": K["kB"], "EM": 1 / K["NA"]}[node]


# --------------------------------------------------------------------------------------
# implementation access

_CTX = {}


def impl_ctx(year: int, fresh=False):
    import qcelemental as qcel

    if fresh:
        return qcel.PhysicalConstantsContext(f"CODATA{year}")
    if year not in _CTX:
        _CTX[year] = qcel.PhysicalConstantsContext(f"CODATA{year}")
    return _CTX[year]


def consts(year: int) -> dict:
    """the constants of the *running* implementation's context, as exact rationals (for the oracle)"""
    raw = impl_ctx(year).raw_codata
    K = {k: Fraction(Decimal(raw[v]["value"])) for k, v in CONST_KEYS.items()}
    K["au"] = {u: Fraction(Decimal(raw[_au_key(year, u)]["value"])) for u in AU_KEYS}
    K["rel"] = {}
    for a in NIST_ORDER:
        for b in NIST_ORDER:
            if a != b:
                K["rel"][(a, b)] = Fraction(Decimal(raw[f"{NIST_NAMES[a]}-{NIST_NAMES[b]} relationship"]["value"]))
    return K


_K = {}


def KK(year):
    if year not in _K:
        _K[year] = consts(year)
    return _K[year]


def call_impl(year: int, sa, sb, fresh=False):
    """('ok', float) | ('err', class name)"""
    c = impl_ctx(year, fresh)
    try:
        with warnings.catch_warnings():
            warnings.simplefilter("ignore")
            r = c.conversion_factor(sa, sb)
        return ("ok", float(r))
    except Exception as e:  # noqa
        return ("err", type(e).__name__)


def canon(res) -> str:
    return f"ok {res[1]!r}" if res[0] == "ok" else f"err {res[1]}"


# --------------------------------------------------------------------------------------
# comparison helpers

TIE_TOL = Fraction(1, 10**12)      # implementation float vs the code model's exact rational
SI_TOL = Fraction(1, 10**12)       # same dimension: implementation vs ratio of SI magnitudes
REL_TOL = Fraction(1, 10**11)      # reciprocity / chain / prefactor products of implementation floats
# bridged: agreement with E = h nu = hc/lambda = mc^2 = kT (N_A) "to CODATA precision" — per CODATA set, and per
# whether temperature is one of the two dimensions.  Every working bridged conversion goes through exactly one
# published '<a>-<b> relationship' literal (ureg.py:131-193) or through h itself, so its distance from the physics
# computed with h, c, k, e, m_u, E_h of the same set is the distance of that literal.  Measured on the published
# (unchanged) tables, all 56 ordered pairs of each set (tools: the same computation as Lean's relConsistent):
#   CODATA2014, no kelvin : worst 2.95e-10 (hertz -> 1/m)      -> tolerance 1e-9
#   CODATA2014, kelvin    : worst 1.08e-8  (kelvin -> hertz; k_B has 9 digits, u_r 5.7e-7) -> tolerance 2e-8
#   CODATA2018, no kelvin : worst 4.81e-10 (kg -> hertz)       -> tolerance 1e-9
#   CODATA2018, kelvin    : worst 3.50e-10 (1/m -> kelvin)     -> tolerance 1e-9
# (2018: h, c, e, k, N_A are exact and NIST prints the exact quotients truncated to 10 significant digits, so < 1e-9
# holds by construction.)  Between the two sets the 14 kelvin literals differ by >= 3.3e-7 and 28 of the 42 others by
# 1e-9 .. 2e-8 (eV -> 1/m: 8.4e-9), so a value carried over from the other set is outside the tolerance of its class —
# which is why the kelvin pairs of CODATA2014 get their own, wider, tolerance instead of widening the whole set; the
# remaining 14 literals (hartree <-> Hz, 1/m ...; the c-only pairs) agree between the sets to < 1e-9, i.e. to CODATA precision.
BR_TOL = {
    (2014, False): Fraction(1, 10**9), (2014, True): Fraction(2, 10**8),
    (2018, False): Fraction(1, 10**9), (2018, True): Fraction(1, 10**9),
}
BR_TOL_LOOSE = Fraction(1, 10**7)  # the former set-independent tolerance; only counted (distribution key), never decides


def br_tol(year, na, nb) -> Fraction:
    return BR_TOL[(year, "Th" in (na, nb))]


def br_tol_text(year, na, nb) -> str:
    return f"{float(br_tol(year, na, nb)):.0e}"


# largest distance from the physics seen on conversions the oracle accepted, per tolerance class (evidence note)
_DEV: dict = {}
PUB_TOL = Fraction(1, 10**9)       # hartree <-> NIST unit reproduces the published relationship
D6_TOL = Fraction(1, 10**9)


FLOAT_LO, FLOAT_HI = Fraction(1, 10**250), Fraction(10**250)


def in_float_range(x: Fraction) -> bool:
    """well inside the normal double range (pint multiplies a few factors; products of SI prefixes to high powers can leave it)"""
    return x != 0 and FLOAT_LO < abs(x) < FLOAT_HI


def budget(K, t, mult=1) -> float:
    """sum over factors of |exponent| * |log10 magnitude|: bounds every intermediate product pint can form"""
    k = t[0]
    if k == "n":
        v = abs(Fraction(Decimal(t[1])))
        return abs(mult) * abs(math.log10(v)) if v else 0.0
    if k == "u":
        return abs(mult) * abs(math.log10(Fraction(10) ** t[1] * BASES[t[2]][1](K)))
    if k in "*/":
        return budget(K, t[1], mult) + budget(K, t[2], mult)
    return budget(K, t[1], mult * t[2])


def relerr(x: float, exact: Fraction) -> Fraction:
    if not math.isfinite(x):
        return Fraction(1)
    if exact == 0:
        return Fraction(0) if x == 0 else Fraction(1)
    return abs(Fraction(x) / exact - 1)


def parse_model(line: str):
    """'impl ok 1/3;si err Dimensionality;phys ok 2' -> dict name -> ('ok', Fraction) | ('err', cls)"""
    out = {}
    for part in line.split(";"):
        name, kind, val = part.split(" ", 2)
        out[name] = ("ok", Fraction(val)) if kind == "ok" else ("err", val)
    return out


ERRMAP = {"DimensionalityError": "Dimensionality", "UndefinedUnitError": "UndefinedUnit"}

# --------------------------------------------------------------------------------------
# the corpus

SEEDS = {
    "length": [U("meter"), U("angstrom"), U("angstromCap"), U("bohr"), U("inch"), U("foot"), U("yard"), U("mile"), U("meter", -9)],
    "mass": [U("gram"), U("gram", 3), U("amu"), U("emass"), U("gram", -3)],
    "time": [U("second"), U("minute"), U("hour"), U("au:time"), U("second", -15)],
    "charge": [U("coulomb"), U("echarge"), U("statC"), MUL(U("ampere"), U("second")), MUL(U("ampere", -3), U("hour"))],
    "energy": [U("joule"), U("calorie"), U("calorie", 3), U("eV"), U("hartree"), U("erg"), MUL(U("newton"), U("meter")),
               DIV(MUL(U("gram", 3), POW(U("meter"), 2)), POW(U("second"), 2)), MUL(U("watt"), U("second")), MUL(U("volt"), U("coulomb")),
               MUL(U("pascal"), POW(U("meter"), 3)), MUL(U("watt", 3), U("hour")), U("joule", 3), U("hartree", -3)],
    "energy/mol": [DIV(U("joule"), U("mole")), DIV(U("joule", 3), U("mole")), DIV(U("calorie", 3), U("mole")), DIV(U("hartree"), U("mole")),
                   DIV(U("eV"), U("mole")), DIV(U("calorie"), U("mole", -3))],
    "dipole": [U("debye"), MUL(U("echarge"), U("bohr")), MUL(U("coulomb"), U("meter")), U("au:dipole"), MUL(U("echarge"), U("angstrom"))],
    "force": [U("newton"), U("dyne"), DIV(U("hartree"), U("bohr")), U("au:force"), DIV(U("joule"), U("meter")), DIV(U("eV"), U("angstrom"))],
    "pressure": [U("pascal"), U("bar"), U("atm"), U("torr"), U("auPressure"), DIV(U("newton"), POW(U("meter"), 2)),
                 DIV(U("hartree"), POW(U("bohr"), 3)), U("pascal", 9), MUL(U("joule"), POW(U("meter"), -3))],
    "frequency": [U("hertz"), INV(U("second")), U("hertz", 6), INV(U("minute")), POW(U("second", -9), -1)],
    "wavenumber": [U("wavenumber"), INV(U("meter")), INV(U("meter", -2)), INV(U("angstrom")), POW(U("bohr"), -1)],
    "temperature": [U("kelvin"), U("rankine"), U("kelvin", -3)],
    "au:hyper1": [U("au:hyper1"), DIV(MUL(POW(U("coulomb"), 3), POW(U("meter"), 3)), POW(U("joule"), 2)),
                  DIV(MUL(POW(U("echarge"), 3), POW(U("bohr"), 3)), POW(U("hartree"), 2))],
    "au:hyper2": [U("au:hyper2"), DIV(MUL(POW(U("coulomb"), 4), POW(U("meter"), 4)), POW(U("joule"), 3)),
                  DIV(MUL(POW(U("echarge"), 4), POW(U("bohr"), 4)), POW(U("hartree"), 3))],
    "au:action": [U("au:action"), MUL(U("joule"), U("second")), MUL(U("hartree"), U("au:time")), MUL(U("eV"), U("second", -15))],
    "au:chargeDensity": [U("au:chargeDensity"), DIV(U("coulomb"), POW(U("meter"), 3)), DIV(U("echarge"), POW(U("bohr"), 3))],
    "au:current": [U("au:current"), U("ampere"), DIV(U("echarge"), U("au:time")), DIV(U("coulomb"), U("second")), U("ampere", -3)],
    "au:efield": [U("au:efield"), DIV(U("volt"), U("meter")), DIV(U("hartree"), MUL(U("echarge"), U("bohr"))), DIV(U("newton"), U("coulomb"))],
    "au:efg": [U("au:efg"), DIV(U("volt"), POW(U("meter"), 2)), DIV(U("hartree"), MUL(U("echarge"), POW(U("bohr"), 2)))],
    "au:polarizability": [U("au:polarizability"), DIV(MUL(POW(U("coulomb"), 2), POW(U("meter"), 2)), U("joule")),
                          DIV(MUL(POW(U("echarge"), 2), POW(U("bohr"), 2)), U("hartree"))],
    "au:potential": [U("au:potential"), U("volt"), DIV(U("hartree"), U("echarge")), DIV(U("joule"), U("coulomb")), U("volt", -3)],
    "au:quadrupole": [U("au:quadrupole"), MUL(U("coulomb"), POW(U("meter"), 2)), MUL(U("echarge"), POW(U("bohr"), 2)), MUL(U("debye"), U("angstrom"))],
    "au:magDipole": [U("au:magDipole"), DIV(U("joule"), U("tesla")), MUL(U("ampere"), POW(U("meter"), 2))],
    "au:magFlux": [U("au:magFlux"), U("tesla"), DIV(MUL(U("volt"), U("second")), POW(U("meter"), 2)), U("tesla", -3)],
    "au:magnetizability": [U("au:magnetizability"), DIV(U("joule"), POW(U("tesla"), 2))],
    "au:momentum": [U("au:momentum"), DIV(MUL(U("gram", 3), U("meter")), U("second")), MUL(U("newton"), U("second")),
                    DIV(MUL(U("emass"), U("bohr")), U("au:time"))],
    "au:permittivity": [U("au:permittivity"), DIV(U("farad"), U("meter")), DIV(U("coulomb"), MUL(U("volt"), U("meter"))),
                        DIV(POW(U("echarge"), 2), MUL(U("hartree"), U("bohr")))],
    "au:velocity": [U("au:velocity"), DIV(U("meter"), U("second")), DIV(U("bohr"), U("au:time")), DIV(U("mile"), U("hour"))],
}

BRIDGED = {
    "E": [U("hartree"), U("hartree", -3), U("hartree", -6), U("joule"), U("joule", 3), U("eV"), U("eV", 3), U("eV", -3), U("calorie"), U("calorie", 3),
          U("erg"), MUL(U("newton"), U("meter")), DIV(MUL(U("gram", 3), POW(U("meter"), 2)), POW(U("second"), 2)), MUL(U("watt"), U("second"))],
    "F": [U("hertz"), U("hertz", 3), U("hertz", 6), U("hertz", 9), INV(U("second")), INV(U("second", -9))],
    "W": [INV(U("meter")), INV(U("meter", -2)), U("wavenumber"), U("wavenumber", 3), INV(U("angstrom")), INV(U("meter", -9))],
    "M": [U("gram", 3), U("gram"), U("gram", -3), U("amu"), U("amu", 3), U("emass")],
    "Th": [U("kelvin"), U("kelvin", -3), U("kelvin", 3), U("rankine")],
    "EM": [DIV(U("joule"), U("mole")), DIV(U("joule", 3), U("mole")), DIV(U("calorie", 3), U("mole")), DIV(U("hartree"), U("mole")),
           DIV(U("eV"), U("mole")), DIV(U("hartree", -3), U("mole")),
           DIV(DIV(MUL(U("gram", 3), POW(U("meter"), 2)), POW(U("second"), 2)), U("mole"))],
}
# single NIST units by which "conversions to or from hartree reproduce the published relationship" is checked
HARTREE_PUBLISHED = {
    enc(U("hertz")): "hertz", enc(INV(U("meter"))): "invm", enc(U("gram", 3)): "kg", enc(U("kelvin")): "kelvin", enc(U("amu")): "amu",
}
CLASS_DIM = {k: py_dim(v[0]) for k, v in SEEDS.items()}

# ---- block Rl: the published relationships a working conversion can go through (ureg.py:131-193).  A source whose
# selected factor carries the NIST name X, converted to the dimension whose NIST unit is Y, is multiplied by the literal
# '<X>-<Y> relationship'; the reverse directions all go to hartree.  17 of the 56 literals of a set are reachable.
REL_SOURCE = {
    "ev": U("eV"), "hartree": U("hartree"), "joule": U("joule"),
    "hertz": U("hertz"), "invm": INV(U("meter")), "kg": U("gram", 3), "amu": U("amu"), "kelvin": U("kelvin"),
}
REL_REACHABLE = [(x, y) for x in ("ev", "hartree", "joule") for y in ("hertz", "invm", "kg", "kelvin")] \
    + [(x, "hartree") for x in ("hertz", "invm", "kg", "amu", "kelvin")]
REL_BARE_TARGET = {"hertz": U("hertz"), "invm": INV(U("meter")), "kg": U("gram", 3), "kelvin": U("kelvin"), "hartree": U("hartree")}
INVM_SPELLINGS = ["1/m", "1/meter", "1 / metre", "m**-1", "meter^-1", "m**(-1)", "1/(m)"]


def rel_targets(y):
    """every expression the target side of relationship ...-y is exercised with (prefixes on the target are not a defect class)"""
    ps = [0] + [p for p, _, _ in PREFIXES]
    if y == "hertz":
        return [U("hertz", p) for p in ps] + [INV(U("second", p)) for p in ps] + [INV(U("minute")), POW(U("second"), -1)]
    if y == "invm":
        return [INV(U("meter", p)) for p in ps] + [U("wavenumber", p) for p in ps] + [INV(U("angstrom")), INV(U("bohr")), POW(U("bohr"), -1),
                                                                                       POW(U("meter", -2), -1), INV(U("inch"))]
    if y == "kg":
        return [U("gram", p) for p in ps] + [U("amu", p) for p in ps] + [U("emass")]
    if y == "kelvin":
        return [U("kelvin", p) for p in ps] + [U("rankine", p) for p in ps]
    return [U(b, p) for b in ("hartree", "joule", "eV", "calorie", "erg") for p in ps] + [
        MUL(U("newton"), U("meter")), MUL(U("watt"), U("second")), MUL(U("volt"), U("coulomb")), MUL(U("watt", 3), U("hour")),
        MUL(U("pascal"), POW(U("meter"), 3)), DIV(U("joule"), U("mole")), DIV(U("calorie", 3), U("mole")), DIV(U("hartree"), U("mole")),
        DIV(U("eV"), U("mole"))]


def rel_source_forms(rng, x):
    """(AST, string) forms of the source that keep the relationship of X selected: every spelling of the bare unit, numeric
    prefactors in the three ways context.py:278-331 accepts them, and (energies) the per-mole form that reaches the same literal"""
    t = REL_SOURCE[x]
    sps = INVM_SPELLINGS if x == "invm" else spellings(t[1], t[2])
    forms = [(t, sp) for sp in sps]
    for n in rng.sample(DEC_NUMS, 2):
        sp = rng.choice(sps)
        tn = MUL(N(n), t)
        forms += [(tn, f"{n}*{sp}" if x != "invm" else f"{n}*({sp})"), (tn, f"{n} * ({sp})")]
        if x != "invm":
            forms.append((tn, f"{n} {sp}"))
    if x in ("ev", "hartree", "joule"):
        forms += [(DIV(t, U("mole")), rng.choice(sps) + rng.choice(["/mol", " / mole", "/mole"]))]
    return forms
DEC_NUMS = ["2", "3", "0.5", "2.5", "10", "1e-3", "1.25e2", "7", "0.125", "4.184", "1000", "1e6"]


def decorate(rng, t, depth=1):
    """an expression of the same dimension as t (random compound / prefix / prefactor decoration)"""
    r = rng.random()
    if r < 0.25:
        return MUL(N(rng.choice(DEC_NUMS)), t) if rng.random() < 0.7 else MUL(t, N(rng.choice(DEC_NUMS)))
    if r < 0.55:
        # multiply by a dimensionless ratio of two different expressions of one class
        cls = rng.choice(list(SEEDS))
        x, y = rng.choice(SEEDS[cls]), rng.choice(SEEDS[cls])
        if rng.random() < 0.5:
            return DIV(MUL(t, x), y)
        return MUL(DIV(x, y), t) if rng.random() < 0.5 else MUL(t, DIV(x, y))
    if r < 0.7:
        n = rng.choice([2, 3, -2, -3])
        # (t^n)^(1/n) is not available with integer powers: use t^(n+1) / t^n
        return DIV(POW(t, n + 1), POW(t, n))
    if r < 0.8:
        return INV(INV(t))
    if r < 0.9 and t[0] == "u" and t[1] == 0:
        return U(t[2], rng.choice(PREFIXES)[0])
    if depth > 0:
        return decorate(rng, decorate(rng, t, depth - 1), depth - 1)
    return t


def with_prefix(rng, t):
    """put a random SI prefix on one bare unit leaf (changes the magnitude, not the dimension)"""
    if t[0] == "u":
        return U(t[2], rng.choice(PREFIXES)[0]) if t[1] == 0 and rng.random() < 0.5 else t
    if t[0] == "n":
        return t
    if t[0] in "*/":
        return (t[0], with_prefix(rng, t[1]), with_prefix(rng, t[2]))
    return (t[0], with_prefix(rng, t[1]), t[2])


# --------------------------------------------------------------------------------------
# case generation: a case is (block, year, astA, astB, strA, strB)

def gen_cases(ctx: Ctx):
    rng = ctx.rng
    years = (2014, 2018)
    # ---- P: every SI prefix on every table unit, every spelling (thorough) or one random spelling (quick)
    for b in BASES:
        for p, _, _ in PREFIXES:
            sps = spellings(p, b)
            if not ctx.thorough:
                sps = [rng.choice(sps)]
            for sp in sps:
                year = rng.choice(years)
                bare = rng.choice(spellings(0, b))
                if rng.random() < 0.5:
                    yield ("P", year, U(b, p), U(b), sp, bare)
                else:
                    yield ("P", year, U(b), U(b, p), bare, sp)
    # ---- S: all ordered pairs of the seed corpus per dimension class, decorated
    reps = ctx.scale(1, 6)
    for year in years:
        for cls, seeds in SEEDS.items():
            for a, b in itertools.product(seeds, repeat=2):
                for rep in range(reps):
                    ta, tb = a, b
                    if rep > 0 or rng.random() < 0.5:
                        ta = decorate(rng, with_prefix(rng, a))
                    if rep > 0 or rng.random() < 0.5:
                        tb = decorate(rng, with_prefix(rng, b))
                    yield ("S", year, ta, tb, render(ta, rng), render(tb, rng))
    # ---- B: every ordered pair across the six bridged dimensions
    for year in years:
        for (ka, la), (kb, lb) in itertools.permutations(BRIDGED.items(), 2):
            for a in la:
                for b in lb:
                    yield ("B", year, a, b, render(a, rng), render(b, rng))
    # bridged with decoration / prefactors
    for _ in range(ctx.scale(1500, 30000)):
        year = rng.choice(years)
        (ka, la), (kb, lb) = rng.sample(list(BRIDGED.items()), 2)
        a, b = rng.choice(la), rng.choice(lb)
        if rng.random() < 0.6:
            a = decorate(rng, a, 0)
        if rng.random() < 0.4:
            b = decorate(rng, b, 0)
        yield ("Bd", year, a, b, render(a, rng), render(b, rng))
    # every prefix on every bridged base as source / target
    bases_b = ["hartree", "joule", "eV", "calorie", "erg", "hertz", "wavenumber", "gram", "amu", "emass", "kelvin", "rankine"]
    for b in bases_b:
        node = NODE_OF_DIM[BASES[b][0]]
        for p, _, _ in PREFIXES:
            others = [k for k in BRIDGED if k != node]
            for tgt in (others if ctx.thorough else rng.sample(others, 2)):
                year = rng.choice(years)
                o = rng.choice(BRIDGED[tgt])
                yield ("Bp", year, U(b, p), o, render(U(b, p), rng), render(o, rng))
                yield ("Bp", year, o, U(b, p), render(o, rng), render(U(b, p), rng))
    # ---- Rl: every reachable published relationship of every set, anchored to the physics at the per-set tolerance
    for year in years:
        for x, y in REL_REACHABLE:
            blk = f"Rl{year}:{x}-{y}"
            targets = rel_targets(y)
            for ta, sa in rel_source_forms(rng, x):
                yield (blk, year, ta, REL_BARE_TARGET[y], sa, INVM_SPELLINGS[0] if y == "invm" else rng.choice(spellings(*REL_BARE_TARGET[y][1:])))
                for tb in (targets if ctx.thorough else rng.sample(targets, 5)):
                    if rng.random() < 0.25:
                        tb = MUL(N(rng.choice(DEC_NUMS)), tb)
                    yield (blk, year, ta, tb, sa, render(tb, rng))
    # ---- U: unrelated dimensions must raise
    classes = list(SEEDS)
    for _ in range(ctx.scale(600, 8000)):
        year = rng.choice(years)
        ca, cb = rng.sample(classes, 2)
        a, b = rng.choice(SEEDS[ca]), rng.choice(SEEDS[cb])
        if rng.random() < 0.3:
            a = decorate(rng, a, 0)
        yield ("U", year, a, b, render(a, rng), render(b, rng))


def gen_triples(ctx: Ctx):
    rng = ctx.rng
    for _ in range(ctx.scale(400, 8000)):
        year = rng.choice((2014, 2018))
        cls = rng.choice(list(SEEDS))
        ts = [decorate(rng, with_prefix(rng, rng.choice(SEEDS[cls])), 0) if rng.random() < 0.6 else rng.choice(SEEDS[cls]) for _ in range(3)]
        yield year, ts, [render(t, rng) for t in ts]


# --------------------------------------------------------------------------------------
# the oracle on one conversion

def model_agrees(res, model):
    """True/False: the Lean model of the code predicts this very outcome (1e-12); None: no model available"""
    if not model:
        return None
    mi = model["impl"]
    if res[0] == "ok":
        return mi[0] == "ok" and relerr(res[1], mi[1]) <= TIE_TOL
    return mi == ("err", ERRMAP.get(res[1], res[1]))


def classify_known(K, year, ta, tb, res, magree):
    """Return the known-defect kind this failing conversion belongs to, or None.  Narrow by construction:
    dimension classes, shape of the source, error class / exact prefix ratio, and the prediction of the Lean
    model of the code (`magree`, see model_agrees) all have to fit."""
    da, db = py_dim(ta), py_dim(tb)
    na, nb = NODE_OF_DIM.get(da), NODE_OF_DIM.get(db)
    if na is None or nb is None or na == nb:
        return None
    if magree is False:
        return None  # the model of the code does not predict this outcome
    if res[0] == "err":
        if res[1] not in ERRMAP:
            return None
        if na in NAME_NODES and nb in NAME_NODES:
            return "bridge_two_hop_error"
        lv = leaves(ta)
        if len(lv) >= 2 and (na in NAME_NODES or nb in NAME_NODES):
            for (_, p, b) in lv:
                named = b in NIST_BASE or (b == "gram" and p == 3)
                if named and NODE_OF_DIM.get(BASES[b][0]) != na:
                    return "bridge_compound_source"
                if b == "meter" and p == 0 and na != "W":
                    return "bridge_compound_source"  # a net meter**-1 factor is read as "inverse_meter" (second loop)
        return None
    # a number: off by exactly the prefix of a NIST-named factor of the source?
    expected = py_mag(K, ta) * equiv(K, na) / (py_mag(K, tb) * equiv(K, nb))
    for (_, p, b) in leaves(ta):
        if p != 0 and b in NIST_BASE and (na in NAME_NODES or nb in NAME_NODES):
            if relerr(res[1], expected * Fraction(10) ** p) <= br_tol(year, na, nb):
                # sharpen: rescale the implementation's own conversion of the source with that prefix removed
                # (tu) to the source's magnitude; the observed value is 10^p times that, to 1e-9
                tu = strip_prefix(ta, b, p)
                r0 = call_impl(year, render(tu), render(tb))
                if r0[0] == "ok" and r0[1] != 0:
                    right = Fraction(r0[1]) * py_mag(K, ta) / py_mag(K, tu)
                    if abs(Fraction(res[1]) / right / Fraction(10) ** p - 1) <= D6_TOL:
                        return "bridge_prefixed_source"
                if magree is True and len(leaves(ta)) >= 2:
                    # compound source: removing the prefix can make the factor cancel against another one
                    # (mE_h/.../hartree) or hand the selection to another prefixed factor (kK*mK/K), so the
                    # implementation cannot be asked; accept only with the model's exact (1e-12) prediction of this value
                    return "bridge_prefixed_source"
    return None


def strip_prefix(t, b, p):
    if t[0] == "u":
        return U(b, 0) if (t[1], t[2]) == (p, b) else t
    if t[0] == "n":
        return t
    if t[0] in "*/":
        return (t[0], strip_prefix(t[1], b, p), strip_prefix(t[2], b, p))
    return (t[0], strip_prefix(t[1], b, p), t[2])


def case_json(block, year, ta, tb, sa, sb):
    return {"block": block, "year": year, "a": ta, "b": tb, "sa": sa, "sb": sb}


def check_conversion(out: Outcome, block, year, ta, tb, sa, sb, model_line, res=None):
    """oracle + tie for one conversion; returns (res, clean) where clean = the oracle had no complaint"""
    K = KK(year)
    if res is None:
        res = call_impl(year, sa, sb)
    out.evaluations += 1
    out.count("block:" + block)
    case = case_json(block, year, ta, tb, sa, sb)
    model = None
    if model_line is not None:
        if model_line == "bad-op":
            out.mismatches.append(Finding("mismatch:driver-rejects", case, observed=canon(res), expected=model_line))
        else:
            model = parse_model(model_line)
    da, db = py_dim(ta), py_dim(tb)
    na, nb = NODE_OF_DIM.get(da), NODE_OF_DIM.get(db)
    clean = True
    ma, mb = py_mag(K, ta), py_mag(K, tb)
    if not (in_float_range(ma) and in_float_range(mb) and in_float_range(ma / mb)) or budget(K, ta) + budget(K, tb) > 250:
        out.count("skipped:float-range")
        return res, False

    def viol(kind, expected, detail):
        nonlocal clean
        clean = False
        out.violations.append(Finding(kind, case, observed=canon(res), expected=expected, detail=detail))

    if da == db:
        out.count("class:same-dimension")
        exact = py_mag(K, ta) / py_mag(K, tb)
        if res[0] != "ok":
            viol("oracle:si_ratio", f"{float(exact)!r}", f"same dimension but raised {res[1]}")
        elif relerr(res[1], exact) > SI_TOL:
            viol("oracle:si_ratio", f"{float(exact)!r}", "factor is not the ratio of the SI magnitudes (relative 1e-12)")
        spec = ("ok", exact)
    elif na is not None and nb is not None:
        out.count(f"class:bridge {na}->{nb}")
        exact = py_mag(K, ta) * equiv(K, na) / (py_mag(K, tb) * equiv(K, nb))
        spec = ("ok", exact)
        bad = None
        if res[0] != "ok":
            bad = ("oracle:bridge_error", f"bridged conversion raised {res[1]} instead of returning E=h nu=hc/lambda=mc^2=kT")
        elif relerr(res[1], exact) > br_tol(year, na, nb):
            dev = relerr(res[1], exact)
            if dev <= BR_TOL_LOOSE:
                out.count("bridge_physics:beyond-per-set-tolerance-only")
            bad = ("oracle:bridge_physics", f"bridged factor disagrees with E=h nu=hc/lambda=mc^2=kT (N_A) of CODATA{year} by {float(dev):.3e} relative "
                                             f"(tolerance {br_tol_text(year, na, nb)} for this set{' and temperature' if 'Th' in (na, nb) else ''})")
        else:
            key = (year, "Th" in (na, nb))
            _DEV[key] = max(_DEV.get(key, Fraction(0)), relerr(res[1], exact))
            # to or from hartree against the published relationship
            pub = None
            if enc(ta) == enc(U("hartree")) and enc(tb) in HARTREE_PUBLISHED:
                pub = K["rel"][("hartree", HARTREE_PUBLISHED[enc(tb)])]
            elif enc(tb) == enc(U("hartree")) and enc(ta) in HARTREE_PUBLISHED:
                pub = K["rel"][(HARTREE_PUBLISHED[enc(ta)], "hartree")]
            if pub is not None:
                out.count("hartree_published_checked")
                if relerr(res[1], pub) > PUB_TOL:
                    bad = ("oracle:hartree_published", f"does not reproduce the published relationship {float(pub)!r} (relative 1e-9)")
        if bad:
            magree = model_agrees(res, model)
            known = classify_known(K, year, ta, tb, res, magree)
            if known:
                out.count("known:" + known)
                clean = False
                c2 = dict(case)
                c2["oracle_kind"] = bad[0]
                c2["model_agrees"] = magree
                out.violations.append(Finding(known, c2, observed=canon(res), expected=f"{float(exact)!r}", detail=bad[1]))
            else:
                viol(bad[0], f"{float(exact)!r}", bad[1])
    else:
        out.count("class:unrelated")
        spec = ("err", "Dimensionality")
        if res[0] == "ok":
            viol("oracle:unrelated_no_error", "an exception", "physically unrelated dimensions returned a number")
    out.count("impl:" + (res[0] if res[0] == "ok" else res[1]))
    # ---- tie: the model of the code, and the two SI tables against each other
    if model is not None:
        mi = model["impl"]
        if res[0] == "ok":
            if mi[0] != "ok" or relerr(res[1], mi[1]) > TIE_TOL:
                out.mismatches.append(Finding("mismatch", case, observed=canon(res), expected=_show(mi), detail="implementation vs Lean code model (relative 1e-12)"))
        else:
            if mi != ("err", ERRMAP.get(res[1], res[1])):
                out.mismatches.append(Finding("mismatch", case, observed=canon(res), expected=_show(mi), detail="implementation vs Lean code model (error class)"))
        ms = model["phys"]
        if ms != spec:
            out.mismatches.append(Finding("mismatch:si_tables", case, observed=_show(spec), expected=_show(ms), detail="Python oracle table vs Lean SI model (exact)"))
    return res, clean


def _show(r):
    return f"ok {float(r[1])!r}" if r[0] == "ok" else f"err {r[1]}"


# --------------------------------------------------------------------------------------

def conv_line(year, ta, tb):
    return f"conv|{year}|{enc(ta)}|{enc(tb)}"


def run(ctx: Ctx) -> Outcome:
    out = Outcome()
    rng = ctx.rng
    _DEV.clear()
    cases = list(gen_cases(ctx))
    triples = list(gen_triples(ctx))
    lines = [conv_line(y, a, b) for (_, y, a, b, _, _) in cases]
    model = [None] * len(lines)
    if ctx.model_available:
        model = ctx.run_model(DRIVER, lines)
    results = {}
    for (block, year, ta, tb, sa, sb), ml in zip(cases, model):
        res, clean = check_conversion(out, block, year, ta, tb, sa, sb, ml)
        results[(year, sa, sb)] = (res, clean, ta, tb)
        if sa != sb:
            out.nontrivial((year, sa, sb))
        if len(out.samples) < 6 and rng.random() < 0.002:
            out.sample({"set": year, "source": sa, "target": sb, "impl": canon(res), "model": ml})
    relational(ctx, out, cases, results)
    triple_checks(ctx, out, triples)
    typed_routes(ctx, out)
    out.exhaustive = False
    out.notes.append("blocks P, S(pairs of seeds), B are exhaustive over their stated corpus; decorations, spellings, Bd, U, T are sampled from VERIF_SEED")
    out.notes.append("tolerances: tie 1e-12, same-dimension oracle 1e-12, published hartree relationships 1e-9, relational products 1e-11; bridged physics per CODATA set: "
                     + ", ".join(f"CODATA{y}{' with temperature' if t else ''} {float(v):.0e}" for (y, t), v in sorted(BR_TOL.items()))
                     + " (measured consistency of the published tables: 2.95e-10, 1.08e-8, 4.81e-10, 3.50e-10); round trips (1+t)^2-1")
    out.notes.append("largest distance from E=h nu=hc/lambda=mc^2=kT among the bridged conversions accepted this run: "
                     + ", ".join(f"CODATA{y}{' with temperature' if t else ''} {float(v):.2e}" for (y, t), v in sorted(_DEV.items())))
    rl = {k[len("block:"):]: v for k, v in out.distribution.items() if k.startswith("block:Rl")}
    out.notes.append(f"block Rl: {len(rl)} of {2 * len(REL_REACHABLE)} (set, reachable published relationship) pairs exercised, "
                     f"between {min(rl.values()) if rl else 0} and {max(rl.values()) if rl else 0} conversions each")
    return out


def relational(ctx: Ctx, out: Outcome, cases, results):
    """diagonal, reciprocity, prefactor linearity — stated directly on the implementation"""
    rng = ctx.rng
    pool = [c for c in cases if c[0] in ("S", "B", "Bd", "P", "Bp") or c[0].startswith("Rl")]
    chosen = rng.sample(pool, min(len(pool), ctx.scale(2500, 40000)))
    # the reverse directions that were not generated get their model line in one batch
    need = [(y, tb, ta, sb, sa) for (_, y, ta, tb, sa, sb) in chosen
            if (y, sb, sa) not in results and results[(y, sa, sb)][0][0] == "ok" and results[(y, sa, sb)][1] and py_dim(ta) != py_dim(tb)]
    rev_model = {}
    if ctx.model_available and need:
        for (y, ta, tb, sa, sb), ml in zip(need, ctx.run_model(DRIVER, [conv_line(y, ta, tb) for (y, ta, tb, _, _) in need])):
            rev_model[(y, sa, sb)] = ml
    for (block, year, ta, tb, sa, sb) in chosen:
        res, clean, _, _ = results[(year, sa, sb)]
        if res[0] != "ok" or not clean:
            continue
        case = case_json(block, year, ta, tb, sa, sb)
        bridged = py_dim(ta) != py_dim(tb)
        tol = REL_TOL
        if bridged:
            # each direction is within t of the physics (checked on its own), so the round trip is within (1+t)^2 - 1 of 1
            t = br_tol(year, NODE_OF_DIM.get(py_dim(ta)), NODE_OF_DIM.get(py_dim(tb)))
            tol = (1 + t) ** 2 - 1
        # diagonal
        d = call_impl(year, sa, sa)
        out.evaluations += 1
        out.count("relational:diagonal")
        if d[0] != "ok" or relerr(d[1], Fraction(1)) > REL_TOL:
            out.violations.append(Finding("oracle:diagonal", case, observed=canon(d), expected="1.0", detail=f"conversion_factor({sa!r},{sa!r})"))
        # reciprocity
        back = results.get((year, sb, sa))
        if back is None:
            r2 = call_impl(year, sb, sa)
            out.evaluations += 1
            ok2 = True
            if bridged:
                # the reverse direction has its own verdict (it may be a known defect class): judge it on its own first
                o2 = Outcome()
                r2, ok2 = check_conversion(o2, block + "r", year, tb, ta, sb, sa, rev_model.get((year, sb, sa)), res=r2)
                out.violations.extend(o2.violations)
                out.mismatches.extend(o2.mismatches)
                for k, v in o2.distribution.items():
                    if k.startswith("known:"):
                        out.count(k, v)
            back = (r2, ok2, tb, ta)
        r2, ok2 = back[0], back[1]
        if ok2:
            out.count("relational:reciprocity")
            if r2[0] != "ok":
                if not bridged:
                    out.violations.append(Finding("oracle:reciprocity", case, observed=canon(r2), expected=repr(1 / res[1]), detail="reverse direction raises"))
            elif not math.isfinite(r2[1]) or abs(Fraction(res[1]) * Fraction(r2[1]) - 1) > tol:
                out.violations.append(Finding("oracle:reciprocity", case, observed=repr(res[1] * r2[1]), expected="1.0", detail="a->b times b->a is not 1"))
        # prefactor linearity
        p, q = rng.choice(DEC_NUMS), rng.choice(DEC_NUMS)
        spa = f"{p}*{sa}" if rng.random() < 0.5 else f"{p} * ({sa})"
        sqb = f"{q}*{sb}" if rng.random() < 0.5 else f"{q} * ({sb})"
        r3 = call_impl(year, spa, sqb)
        out.evaluations += 1
        out.count("relational:prefactor")
        want = Fraction(Decimal(p)) / Fraction(Decimal(q)) * Fraction(res[1])
        if r3[0] != "ok" or relerr(r3[1], want) > REL_TOL:
            c3 = dict(case)
            c3.update({"p": p, "q": q, "spa": spa, "sqb": sqb})
            out.violations.append(Finding("oracle:prefactor", c3, observed=canon(r3), expected=repr(float(want)), detail="not linear in the numeric prefactors"))


def triple_checks(ctx: Ctx, out: Outcome, triples):
    for year, ts, ss in triples:
        mags = [py_mag(KK(year), t) for t in ts]
        if sum(budget(KK(year), t) for t in ts) > 250 or not all(in_float_range(m) for m in mags) or not all(in_float_range(mags[i] / mags[j]) for i, j in ((0, 1), (1, 2), (0, 2))):
            out.count("skipped:float-range")
            continue
        rs = [call_impl(year, ss[i], ss[j]) for i, j in ((0, 1), (1, 2), (0, 2))]
        out.evaluations += 1
        out.count("relational:chain")
        case = {"block": "T", "year": year, "ts": ts, "ss": ss}
        if any(r[0] != "ok" or not math.isfinite(r[1]) or r[1] == 0 for r in rs):
            out.violations.append(Finding("oracle:chain", case, observed=[canon(r) for r in rs], detail="same-dimension triple raised"))
            continue
        if abs(Fraction(rs[0][1]) * Fraction(rs[1][1]) / Fraction(rs[2][1]) - 1) > REL_TOL:
            out.violations.append(Finding("oracle:chain", case, observed=repr(rs[0][1] * rs[1][1]), expected=repr(rs[2][1]), detail="a->b times b->c is not a->c"))
        out.nontrivial((year,) + tuple(ss))


def typed_routes(ctx: Ctx, out: Outcome):
    """Quantity-typed arguments (context.py:316-328), Datum.to_units, covalentradii.get(units=), fresh context (lru_cache)"""
    import qcelemental as qcel

    rng = ctx.rng
    K_ = None
    for _ in range(ctx.scale(300, 2500)):
        year = rng.choice((2014, 2018))
        K_ = KK(year)
        cls = rng.choice(list(SEEDS))
        ta, tb = rng.choice(SEEDS[cls]), rng.choice(SEEDS[cls])
        p, q = rng.choice(DEC_NUMS), rng.choice(DEC_NUMS)
        sa, sb = render(ta, rng), render(tb, rng)
        c = impl_ctx(year)
        exact = Fraction(Decimal(p)) * py_mag(K_, ta) / (Fraction(Decimal(q)) * py_mag(K_, tb))
        case = {"block": "Q", "year": year, "a": ta, "b": tb, "sa": sa, "sb": sb, "p": p, "q": q}
        route = rng.choice(["QQ", "Qs", "sQ"])
        try:
            with warnings.catch_warnings():
                warnings.simplefilter("ignore")
                qa = float(p) * c.ureg.parse_expression(sa) if route[0] == "Q" else f"{p}*({sa})"
                qb = float(q) * c.Quantity(sb) if route[1] == "Q" else f"{q}*({sb})"
                r = ("ok", float(c.conversion_factor(qa, qb)))
        except Exception as e:  # noqa
            r = ("err", type(e).__name__)
        out.evaluations += 1
        out.count("route:quantity-" + route)
        if r[0] != "ok" or relerr(r[1], exact) > SI_TOL * 10:
            out.violations.append(Finding("oracle:quantity_args", case, observed=canon(r), expected=repr(float(exact)), detail=f"Quantity-typed arguments ({route})"))
    # Datum.to_units goes through the default context
    from qcelemental.datum import Datum

    dyear = int(qcel.constants.name[-4:])
    Kd = KK(dyear)
    for _ in range(ctx.scale(100, 600)):
        cls = rng.choice(list(SEEDS))
        ta, tb = rng.choice(SEEDS[cls]), rng.choice(SEEDS[cls])
        sa, sb = render(ta, rng), render(tb, rng)
        val = rng.choice(["2", "0.5", "3.25", "1"])
        exact = Fraction(Decimal(val)) * py_mag(Kd, ta) / py_mag(Kd, tb)
        try:
            with warnings.catch_warnings():
                warnings.simplefilter("ignore")
                r = ("ok", float(Datum("x", sa, Decimal(val)).to_units(sb)))
        except Exception as e:  # noqa
            r = ("err", type(e).__name__)
        out.evaluations += 1
        out.count("route:Datum.to_units")
        if r[0] != "ok" or relerr(r[1], exact) > SI_TOL * 10:
            out.violations.append(Finding("oracle:datum_to_units", {"block": "D", "year": dyear, "a": ta, "b": tb, "sa": sa, "sb": sb, "val": val},
                                          observed=canon(r), expected=repr(float(exact)), detail="Datum.to_units"))
    for sym in ["H", "C", "Fe"]:
        base = float(qcel.covalentradii.get(sym, units="angstrom"))
        for b, p in [("bohr", 0), ("meter", -12), ("meter", -9), ("inch", 0)]:
            sp = render(U(b, p), rng)
            try:
                with warnings.catch_warnings():
                    warnings.simplefilter("ignore")
                    r = ("ok", float(qcel.covalentradii.get(sym, units=sp)))
            except Exception as e:  # noqa
                r = ("err", type(e).__name__)
            exact = Fraction(base) * py_mag(Kd, U("angstrom")) / py_mag(Kd, U(b, p))
            out.evaluations += 1
            out.count("route:covalentradii.get")
            if r[0] != "ok" or relerr(r[1], exact) > SI_TOL * 100:
                out.violations.append(Finding("oracle:covalentradii_units", {"block": "R", "sym": sym, "units": sp}, observed=canon(r), expected=repr(float(exact))))
    # a fresh context must answer like the long-lived (cached) one
    if ctx.thorough:
        for year in (2014, 2018):
            fresh = impl_ctx(year, fresh=True)
            for cls, seeds in SEEDS.items():
                a, b = rng.choice(seeds), rng.choice(seeds)
                sa, sb = render(a), render(b)
                try:
                    with warnings.catch_warnings():
                        warnings.simplefilter("ignore")
                        r1 = ("ok", float(fresh.conversion_factor(sa, sb)))
                except Exception as e:  # noqa
                    r1 = ("err", type(e).__name__)
                r2 = call_impl(year, sa, sb)
                out.evaluations += 1
                out.count("route:fresh-context")
                # pint caches root-unit factors, so the order of float operations (last digit) may differ
                same = r1 == r2 or (r1[0] == r2[0] == "ok" and math.isfinite(r1[1]) and math.isfinite(r2[1]) and r2[1] != 0
                                    and abs(Fraction(r1[1]) / Fraction(r2[1]) - 1) <= Fraction(1, 10**13))
                r1, r2 = canon(r1), canon(r2)
                if not same:
                    out.violations.append(Finding("oracle:cache", {"block": "F", "year": year, "sa": sa, "sb": sb}, observed=r1, expected=r2, detail="fresh context differs from cached one"))


# --------------------------------------------------------------------------------------

def _tup(x):
    return tuple(_tup(y) for y in x) if isinstance(x, list) else x


def replay(ctx: Ctx, case) -> Outcome:
    out = Outcome()
    block = case.get("block", "?")
    if block == "T":
        triple_checks(ctx, out, [(case["year"], [_tup(t) for t in case["ts"]], case["ss"])])
        return out
    if block in ("Q", "D", "R", "F"):
        typed_routes(ctx, out)
        return out
    year, ta, tb, sa, sb = case["year"], _tup(case["a"]), _tup(case["b"]), case["sa"], case["sb"]
    ml = ctx.run_model(DRIVER, [conv_line(year, ta, tb)])[0] if ctx.model_available else None
    res, clean = check_conversion(out, block, year, ta, tb, sa, sb, ml)
    cases = [(block, year, ta, tb, sa, sb)]
    if clean and res[0] == "ok":
        relational(ctx, out, cases, {(year, sa, sb): (res, clean, ta, tb)})
        if "spa" in case:
            r3 = call_impl(year, case["spa"], case["sqb"])
            want = Fraction(Decimal(case["p"])) / Fraction(Decimal(case["q"])) * Fraction(res[1])
            if r3[0] != "ok" or relerr(r3[1], want) > REL_TOL:
                out.violations.append(Finding("oracle:prefactor", case, observed=canon(r3), expected=repr(float(want)), detail="not linear in the numeric prefactors"))
    return out


def known_predicate(finding: Finding, entry) -> bool:
    """A finding carries a known kind only if classify_known put it there; re-derive it from the recorded case."""
    c = finding.case
    try:
        year, ta, tb = c["year"], _tup(c["a"]), _tup(c["b"])
        obs = finding.observed.split(" ", 1)
        res = ("ok", float(obs[1])) if obs[0] == "ok" else ("err", obs[1])
        return classify_known(KK(year), year, ta, tb, res, c.get("model_agrees")) == entry.get("kind") == finding.kind
    except Exception:
        return False
