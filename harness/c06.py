"""C06 — nucleus reconciliation: correspondence (Lean model vs implementation) + independent property oracle.

Streams sent to the Lean driver (Driver/C06.lean) and to the real `qcelemental`:
  D  float(text)                      — every tabulated mass string and random decimals (ties `rd64`)
  G  _el2a2mass[sym] min/max          — every element (ties the translator's nuclide list + `elRange`)
  P  parse_nucleus_label(label)       — grammar-derived labels, near-misses, random strings; the driver answers twice (hand recogniser,
                                        generic regex engine on the AST regenerated from regex.py) and both must equal CPython: three-way
  X  re.match/fullmatch/search        — the generic engine on the regenerated NUCLEUS / NUMBER / CHGMULT ASTs vs CPython's re (span + all groups)
  R  reconcile_nucleus(**clues)       — elements/nuclides x clue subsets x perturbations x spellings x settings; the driver answers twice
                                        (`<hand model> # <evaluator on the statements regenerated from nucleus.py>`): three-way with the implementation
  F  parse_nucleus_label(label)       — the same labels as P through the source-derived field extraction (Gen/NucleusSrc.lean)
  H/C the same calls through the LRU memo model vs the real lru_cache (exact `real` type, eviction)
  R lines are also issued (a) at the edges of every setting: mtol in {0, 0.0, False, 1e-12 .. 2, True} with mass offsets on a
  log scale / in ulps / in multiples of mtol, falsy clue values (A=0, Z=0, E='', mass=0, label=''), (b) in other call shapes
  (options left out where the documented default is meant, leading positional arguments, verbose 0/1/2/left out) and
  (c) atom-wise through the array entry points validate_and_fill_nuclei / from_arrays (settings forwarded by the caller).
The oracle never consults the model: it reads the data file itself and states the property's clauses on the
implementation's answers (soundness, default, documented error class, feedback, history independence).
"""
from __future__ import annotations

import contextlib
import io
import json
import math
from decimal import Decimal
from fractions import Fraction

import common
from common import Ctx, Finding, Outcome

import sys

sys.path.insert(0, str(common.VERIF / "tools"))
import gen_periodic  # noqa: E402
import c06_src  # noqa: E402

PROPERTY = "C06"
LEAN_TARGETS = ["QcelVerif.Props.C06", "QcelVerif.Driver.C06", "QcelVerif.Model.RegexEngine", "QcelVerif.Gen.NucleusRegex", "QcelVerif.Model.NucleusRe",
                "QcelVerif.Lemmas.RegexEngine", "QcelVerif.Lemmas.NucleusRegex", "QcelVerif.Props.C06Regex",
                "QcelVerif.Model.NucleusAst", "QcelVerif.Gen.NucleusSrc", "QcelVerif.Lemmas.NucleusSrc", "QcelVerif.Props.C06Src",
                "QcelVerif.Props.C06SrcGroups", "QcelVerif.Props.C06SrcShipped", "QcelVerif.Props.C06SrcHead"]
DRIVER = "QcelVerif/Driver/C06.lean"
THEOREMS = [
    ("QcelVerif.Nucleus.reconcile_sound", "ANY table (coherent at its default isotopes), ANY rounding function, ANY range table, ANY input: a successful reconciliation returns a table row (Z,E); every supplied Z / E / label-Z / label-E names Z; A equals every supplied A (argument, label); mass equals float() of every supplied mass (argument, label); A = -1 or E+str(A) is a tabulated nuclide whose mass equals the returned mass or is float-evaluated within mtol of it; unless nonphysical: A = -1 or inside the element's A range and fl(mmin-0.5) <= mass <= fl(mmax+0.5) (nonphysical: A = -1 or >= 1, mass > 0.5); real/ghost equals every real clue by value (argument, label marker), True if there is none; the user tag is the lower-cased label tag ('' if none)"),
    ("QcelVerif.Nucleus.reconcile_default", "no A / mass clue (argument or label) and success -> (A, mass) = (to_A(Z), float(to_mass(Z))): the table's default (most abundant / longest lived) isotope"),
    ("QcelVerif.Nucleus.supplied_A_window", "a supplied A (argument or label) is returned, E+str(A) is tabulated and the returned mass is float-evaluated inside its mtol window (<= mtol)"),
    ("QcelVerif.Nucleus.conflict_element", "two element clues (any of Z, E, label-Z, label-E) naming different atomic numbers -> error, never a result"),
    ("QcelVerif.Nucleus.conflict_element_validation", "sharper: if each element clue individually names an element but two differ, the error is exactly ValidationError('atomic number')"),
    ("QcelVerif.Nucleus.conflict_mass_number", "two mass-number clues (argument, label) with different values -> error"),
    ("QcelVerif.Nucleus.conflict_mass", "two mass clues (argument, label) with different float values -> error"),
    ("QcelVerif.Nucleus.conflict_mass_number_vs_mass", "a mass-number clue a and a mass clue m for element z: unless E+str(a) is tabulated and |fl(m - mass(E,a))| <= mtol -> error"),
    ("QcelVerif.Nucleus.conflict_real", "real/ghost clues (argument, label marker) with different values -> error"),
    ("QcelVerif.Nucleus.unparseable_label", "a label offered as nucleus specification that NUCLEUS does not match -> error"),
    ("QcelVerif.Nucleus.reconcile_idem_partial", "PARTIAL: success o whose element round-trips in the table, whose mass is a double and whose mass re-derives its own A (rounded mass names E+str(A) within mtol, or nothing when A = -1), any odd rounding function -> reconcile(feedback o) succeeds with a result == o. FULL needs the re-derivation hypothesis removed: proved when a mass clue was supplied (next theorem); without one it needs mtol <= 1/4 + table nearness + monotone rounding (not formalised); false for wide windows"),
    ("QcelVerif.Nucleus.reconcile_idem_mass_clue", "if a mass was supplied (argument or label): for any idempotent odd rounding function and a table whose element round-trips, the output fed back is reproduced (==) — no further hypothesis"),
    ("QcelVerif.Nucleus.feedback_edge_reproduced", "test [decide +kernel, toy table]: mass exactly mtol = 1/4 above mass(H2) reconciles to A = 2 and the output fed back is reproduced (counter-example before /repo repair c8bc76e)"),
    ("QcelVerif.Nucleus.feedback_wide_window_counterexample", "why the re-derivation hypothesis cannot be dropped [decide +kernel, toy table]: A=2, Z=1, mtol=2 returns A=2 with the mass of H1 and the fed-back call is ValidationError('mass number')"),
    ("QcelVerif.Nucleus.reconcile_respects_pyEq", "inputs equal under Python == (1 == 1.0 == True on A, Z, mass, real, mtol) give results equal under Python == (same error, or tuples equal with real compared by value)"),
    ("QcelVerif.Nucleus.lru_transparent", "ANY function respecting the key equivalence up to a reflexive-transitive result relation, ANY capacity, ANY starting table satisfying the invariant, ANY history of call/clear operations: every returned result is related to calling the function directly (induction over the history; hits, refresh, misses, eviction, exceptions)"),
    ("QcelVerif.Nucleus.Lru.call_size", "a call never makes the memo table larger than its capacity"),
    ("QcelVerif.Nucleus.history_independent", "reconcile_nucleus behind the 512-entry memo table: whatever was called or cleared before, each call returns a result == the direct call"),
    ("QcelVerif.Nucleus.lookupRange_memo", "the driver's memoised per-element range table equals elRange"),
    ("QcelVerif.Nucleus.shipped_elements_default", "table-wide instances [decide +kernel, whole model under rd64 on the generated table]: every element row reconciles from Z alone, from its symbol alone and from its lower-cased symbol as label to (to_A(Z), Z, E, float(to_mass(Z)), True, '')"),
    ("QcelVerif.Nucleus.zero_tolerance_exact", "mtol <= 0 (0, 0.0, False are honoured as given, never replaced by a default), any rounding function that maps no non-zero number to 0: success -> A = -1 or E+str(A) is tabulated with exactly the returned mass"),
    ("QcelVerif.Nucleus.zero_tolerance_conflict", "mtol <= 0: a mass-number clue a and a mass clue m for element z -> error unless E+str(a) is tabulated with exactly the float m (exact-mass matching is not widened)"),
    ("QcelVerif.Regex.bt_eq_findSome", "generic regex engine, ANY AST / continuation / state: the continuation-passing backtracking matcher returns exactly the first success, in exploration order, of the list-of-successes semantics ms (ordered alternation, greedy/lazy repetition, groups, conditionals, anchors)"),
    ("QcelVerif.Regex.matchPrefix_eq_head", "re.match of the engine = the first element of ms from the start of the string (any AST, any string)"),
    ("QcelVerif.Regex.fullMatch_eq_find", "re.fullmatch of the engine = the first element of ms that ends at the end of the string (any AST, any string)"),
    ("QcelVerif.Regex.ms_le", "ANY AST, state: no way to match moves the cursor backwards"),
    ("QcelVerif.Regex.ms_lt", "ANY AST that is not (syntactically) nullable: every way to match consumes at least one character"),
    ("QcelVerif.Regex.rep_fuel_irrelevant", "ANY repetition r{lo,hi} (greedy or lazy) of a non-nullable body, ANY state: the matches computed on the engine's budget (remaining length + 1) equal those on every larger budget — the fuel that makes the engine total never truncates a repetition"),
    ("QcelVerif.Nucleus.bind_rep1", "greedy [class]+ / [class]{1,n} of the engine followed by any continuation explores exactly the hand recogniser's `runs` (every admissible run length, longest first), for any class, state and string length"),
    ("QcelVerif.Nucleus.nucleus_shape", "the AST regenerated from regex.py + nucleus.py's compile site is, constructor for constructor, \\A ghost? (label1 | label2) mass? (?(gh2)\\)) \\Z as the hand recogniser's stages spell it (rfl on the generated term: any edit of NUCLEUS or of the flags that changes CPython's parse tree breaks it)"),
    ("QcelVerif.Nucleus.allMatches_eq_regex", "EVERY byte string: the list of matches the hand recogniser explores (allMatches, with the eight named groups gh1 gh2 A E user1 Z user2 mass) equals, element by element and in order, the list-of-successes semantics of the generated NUCLEUS AST"),
    ("QcelVerif.Nucleus.matchNucleus_eq_regex", "EVERY byte string: _nucleus.match computed by the generic engine on the generated AST = the hand-written recogniser matchNucleus (same acceptance, same eight groups)"),
    ("QcelVerif.Nucleus.parseLabel_eq_regex", "EVERY byte string: parse_nucleus_label through the generated regex = the hand model's parseLabel (the function every other C06 theorem is about)"),
    ("QcelVerif.Nucleus.unparseable_iff_regex", "a label is rejected by the model ('not parseable') iff the generated regex has no way to match it"),
    ("QcelVerif.Nucleus.generated_wf", "the generated NUCLEUS, NUMBER and CHGMULT ASTs repeat no body that can match the empty string [decide] (the one situation in which the engine's fuel / CPython's empty-iteration rule would matter)"),
    ("QcelVerif.Nucleus.shipped_coherent", "shipped table [decide +kernel over the generated table]: E+str(to_A(Z)) is tabulated with the mass string of Z itself for every element (DefaultCoherent); Z -> symbol -> Z round-trips in strict mode; every nuclide mass string parses and lies within 1/4 u of its mass number"),
    # ---- source-derived procedure (Model/NucleusAst.lean evaluated on Gen/NucleusSrc.lean, regenerated from nucleus.py on every run)
    ("QcelVerif.Nucleus.Ast.reconcileSrc_eq_model", "ANY table whose to_mass fails only with NotAnElementError, ANY idempotent rounding function, ANY range table, EVERY clue tuple (A, Z, E, mass, real, label, speclabel, nonphysical, mtol) whose label captures are well-formed: the evaluator run on the statements regenerated from reconcile_nucleus (nested closures, order of the offers, every appended candidate and test lambda, the try/except, the nested reconcile, the returned tuple) = the hand model reconcileWith — same tuple or same error class AND feature"),
    ("QcelVerif.Nucleus.Ast.matchNucleus_groupsOk", "EVERY byte string: every match of the NUCLEUS recogniser has well-formed captures — a participating group (A, Z, user1, user2, mass) is non-empty (so Python's truthiness test of a group is the participation test) and the mass group is digits.digits (float() of it cannot raise); discharges the capture hypothesis of reconcileSrc_eq_model"),
    ("QcelVerif.Nucleus.Ast.shipped_mass_strings_parse", "shipped table [decide +kernel over the generated nuclide tree]: every mass string parses as digits[.digits]"),
    ("QcelVerif.Nucleus.Ast.shipped_tableMass_ok", "shipped table, any rounding function, any key: to_mass answers or raises NotAnElementError, nothing else (discharges the table hypothesis of reconcileSrc_eq_model)"),
    ("QcelVerif.Nucleus.Ast.reconcileSrc_eq", "under SrcOk (rounding idempotent, mass strings parse): source-derived reconcile_nucleus = model for ALL inputs and any range table — capture hypothesis discharged"),
    ("QcelVerif.Nucleus.Ast.srcOk_shipped", "SrcOk holds for the shipped table under rd64 (rd64_idem + shipped_tableMass_ok): the hypotheses are satisfiable by what the driver runs"),
    ("QcelVerif.Nucleus.Ast.reconcileSrc_shipped_eq", "shipped table, binary64 rounding, any range table, EVERY clue tuple: source-derived reconcile_nucleus = model — no hypothesis left"),
    ("QcelVerif.Nucleus.Ast.driver_src_eq", "what Driver/C06.lean prints after '#' on an R line (source-derived procedure over the memoised range table) = reconcile shippedN rd64, for every input"),
    ("QcelVerif.Nucleus.Ast.parseSrc_eq_model", "EVERY byte string, any table/rounding: the source-derived parse_nucleus_label (matchNucleus + the regenerated group-reading statements: truthiness tests, int(), float(), not(gh1 or gh2), user1/user2 precedence, returned tuple order, raised class) = the model's parseLabel (refusal iff no match; the six fields, mass through float)"),
    ("QcelVerif.Nucleus.Ast.parseFields_eq", "any match object with well-formed captures: the regenerated field-extraction statements return exactly (A, Z, E, mass, real, user) of the model's Label"),
    ("QcelVerif.Nucleus.Ast.fn1_exec", "offer_atomic_number as regenerated (int(z), to_E/to_mass/to_A of z, _el2a2mass min/max, the three candidates, the nonphysical branches and their lambdas) executed symbolically = srcOfferZ; any state, any argument"),
    ("QcelVerif.Nucleus.Ast.fn0_exec", "offer_element_symbol as regenerated = to_Z(e, strict=True) then offer_atomic_number"),
    ("QcelVerif.Nucleus.Ast.fn2_exec", "offer_mass_number as regenerated = candidate a / test x == a, candidate to_mass(E+str(a)) / test abs(x - a_mass) <= mtol"),
    ("QcelVerif.Nucleus.Ast.fn3_exec", "offer_mass_value as regenerated = the model's massToA (round-half-even, > mtol strict, except NotAnElementError only) and the exact-mass candidate/test"),
    ("QcelVerif.Nucleus.Ast.fn4_exec", "offer_reality as regenerated = candidate rgh / test x == rgh"),
    ("QcelVerif.Nucleus.Ast.fn5_exec", "offer_user_label as regenerated = candidate str(lbl).lower() / test x == lbl"),
    ("QcelVerif.Nucleus.Ast.reconcileSrc_sound", "soundness clause (statement of reconcile_sound) over the source-derived procedure: table row, every clue honoured, nuclide within mtol or -1, physical range unless nonphysical, real/ghost by value (True by default), user tag = lower-cased label tag"),
    ("QcelVerif.Nucleus.Ast.reconcileSrc_default", "source-derived procedure: no A / mass clue and success -> the table's default isotope and its mass"),
    ("QcelVerif.Nucleus.Ast.reconcileSrc_supplied_A_window", "source-derived procedure: a supplied mass number is returned, is tabulated, and the returned mass lies in its closed mtol window"),
    ("QcelVerif.Nucleus.Ast.reconcileSrc_conflict_element", "source-derived procedure: two element clues naming different atomic numbers -> error"),
    ("QcelVerif.Nucleus.Ast.reconcileSrc_conflict_element_validation", "source-derived procedure: element clues each naming an element but disagreeing -> exactly ValidationError('atomic number')"),
    ("QcelVerif.Nucleus.Ast.reconcileSrc_conflict_mass_number", "source-derived procedure: two different mass-number clues -> error"),
    ("QcelVerif.Nucleus.Ast.reconcileSrc_conflict_mass", "source-derived procedure: two different mass clues -> error"),
    ("QcelVerif.Nucleus.Ast.reconcileSrc_conflict_mass_number_vs_mass", "source-derived procedure: mass-number clue vs a mass outside its mtol window -> error"),
    ("QcelVerif.Nucleus.Ast.reconcileSrc_conflict_real", "source-derived procedure: real/ghost clues with different values -> error"),
    ("QcelVerif.Nucleus.Ast.reconcileSrc_unparseable_label", "source-derived procedure: a label offered as nucleus specification that NUCLEUS does not match -> error"),
]
TRANSLATORS = [gen_periodic.main]  # + gen_nucleus_regex (defined and appended below)
TRUSTED_BASE = [
    "Lean 4.33 kernel; axioms per theorem audited on every run (subset of propext, Classical.choice, Quot.sound)",
    "hand-written model Model/Nucleus.lean of nucleus.py:13-437: no longer trusted by transcription. Its NUCLEUS recogniser is PROVED equal, on every byte string, to the generic engine run on the AST regenerated from regex.py (matchNucleus_eq_regex); its reconciliation logic (reconcileWith) and its field extraction (parseLabel) are PROVED equal, for every clue tuple / every byte string, to the evaluator of Model/NucleusAst.lean run on the statements regenerated from nucleus.py (reconcileSrc_eq_model, parseSrc_eq_model; unconditional for the shipped table under rd64: reconcileSrc_shipped_eq, driver_src_eq). What stays differential (R, P, F, D, G, H lines, now three-way on every R line and on every label): that the evaluator's reading of each Python construct is CPython's",
    "harness/c06_src.py (translator, Python ast -> Lean term, on every run): one Stmt per source statement of reconcile_nucleus and of parse_nucleus_label's matched branch, nested closures included; lambdas become closures (default-bound parameters captured at append time, free variables mtol/mmtol read when the test runs); refuses (`Unsupported: nucleus.py:<line>`) any construct outside its subset. Recognised as a whole, shape-checked, not translated statement by statement: logging (log_text, text.append(str.format), print — dropped; their arguments may only call format/join/all) and the nested reconcile(exact, tests, feature) (-> RecDef: all/any, raised class, message prefix). Variable numbering and the parameter order (A..verbose = 0..9) are the translator's",
    "Model/NucleusAst.lean (evaluator, hand-written, ~45 constructors): Python semantics of the modelled subset — is None / is not None / is True, truthiness, lazy and/or, == and ordering on numbers by value and ==/!= on strings, int()/float()/str()/round(x,0)/abs(), str + str, one IEEE operation per float +/- (parameter rd), list append, lambda default capture vs late-bound free variables, every test of a candidate evaluated before all(...), try/except NotAnElementError with no effect before the raise, tuple unpacking; periodic-table accessors are primitives evaluated on the model's table structure (to_Z/to_E with strict, to_A, to_mass, _el2a2mass[..] through its min/max). A type error / unbound name / KeyError is Err.other, never defaulted. Checked against CPython only differentially (the R/F three-way)",
    "harness/c06.py:gen_nucleus_regex + harness/regex_gen.py (translator): reads regex.py (executed from the working tree) and nucleus.py's re.compile call / entry point / groups read (syntax tree), parses the assembled pattern with CPython's re._parser and re-encodes the parse tree constructor by constructor; folds IGNORECASE into ASCII classes (each emitted class cross-checked on all 128 ASCII characters against CPython compiling that node); refuses any construct the engine lacks",
    "Model/RegexEngine.lean (generic backtracking engine: ordered alternation, greedy/lazy {m,n}, capture = last completed iteration, (?(g)..), anchors) is taken to have CPython `re` semantics on the generated ASTs: checked differentially — P lines three-way (CPython / hand recogniser / engine), X lines re.match / re.fullmatch / re.search with spans and every group on NUCLEUS, NUMBER and CHGMULT — not proved (there is no formal semantics of sre to prove it against); what IS proved: the engine equals its list-of-successes semantics and, for NUCLEUS, the hand recogniser",
    "tools/gen_periodic.py (C01's translator) for the nuclide table; cross-checked by the G lines against periodictable._el2a2mass",
    "CPython float(str), float(int), one IEEE subtraction/addition are taken as correctly rounded (parameter `rd`; the driver's rd64 is checked against float() on every tabulated mass and on random decimals); round(x, 0) as round-half-even",
    "functools.lru_cache semantics (hit returns stored object and refreshes, exceptions not stored, LRU eviction at maxsize) modelled by Lru and checked on H lines including eviction",
    "harness/c06.py generators and the Python oracle (reads data/nist_2011_atomic_weights.py itself)",
    "documented defaults of reconcile_nucleus (clues None, speclabel=True, nonphysical=False, mtol=1.0e-3: signature + docstring) are what an omitted option means; numpy's list -> ndarray conversion in validate_and_fill_nuclei keeps every clue equal by value (==)",
]
ASSUMPTIONS = [
    "source-derived procedure: `verbose` only feeds logging (any other use evaluates to Err.other and breaks reconcileSrc_eq_model); int(matchobj.group(..)) is applied to a \\d+ capture (the evaluator reads the digits; a non-digit string is outside the subset); the gh1/gh2 groups are only tested for truth; rounding function idempotent (float(x) of a float is x — proved for rd64) and tabulated mass strings parse (proved for the shipped table by kernel evaluation) — for other tables these two are hypotheses (SrcOk)",
    "ASCII labels and symbols only (CPython's \\w, \\d, [A-Z] with IGNORECASE are Unicode-aware; the translator restricts classes to ASCII and refuses non-ASCII literals)",
    "the eight groups parse_nucleus_label reads: the hand model's parseLabel takes them as 'participated / did not' while Python tests their truthiness — now PROVED to be the same thing for the hand recogniser (matchNucleus_groupsOk: every participating group of every match is non-empty, the mass group is digits.digits) and the source-derived field extraction uses real truthiness (parseSrc_eq_model); for the generic engine on the regenerated AST this rests on matchNucleus_eq_regex",
    "regex engine: patterns whose repetitions have non-nullable bodies (generated_wf; the translator refuses others, CPython's empty-iteration rule is not modelled); back-references, look-around, atomic/possessive constructs and scoped inline flags are refused by the translator (broken tie), not modelled",
    "A, Z, mass, real, mtol are int | float | bool with integral Z and A (int(1.5) == 1 would 'match' a clue it does not equal); speclabel and nonphysical are real bools (`speclabel is True` makes speclabel=1 behave differently from True although both share a cache key)",
    "mtol >= 0 (with a negative tolerance not even the default isotope is 'within the tolerance'); 0 <= mtol <= 0.25 u in the oracle's feedback clause (mtol = 0 / 0.0 / False included: exact-mass matching): a window wide enough to reach a neighbouring nuclide (e.g. A=2, Z=1, mtol=2 returns A=2 with the mass of H1) is outside the physical meaning of mtol; finite masses",
    "'contradictory clues raise a validation error' is read as: a documented qcelemental error — ValidationError, or NotAnElementError when a clue names no element/nuclide (test_reconcile_nucleus_notanelementerror pins A=80,Z=27 to NotAnElementError)",
    "feeding back maps A = -1 to None as from_arrays does ('-1 equivalent to None'), label = user tag with speclabel=False",
    "array entry points: atoms spaced 2 bohr apart, domain='qm', no fragment/charge input, A clue never -1 ('-1 equivalent to None' there); only the six nucleus fields of the returned record are looked at",
    "verbose in {-1, 0, 1, 2, left out} with stdout captured; the printed text is not examined",
    "physical-range clause checked in exact rationals with a 1e-9 u exclusion band at the two edges (fl(mmax+0.5) may round); the Lean model evaluates the edges bit-exactly",
]
RULE = (
    "EVERY R line (all streams below, replays and array batches included) is answered by the driver twice — hand model and the evaluator on the statements regenerated from nucleus.py — and compared three ways with the implementation; every P label additionally goes through the source-derived field extraction (F line). "
    "R cases = (target nuclide or element) x subset of the 6 clue kinds {A,Z,E,mass,real,label} x variant {consistent | other element in "
    "one element clue | non-existent A | second A | mass off by 1e-4, mtol-/+ulp, mtol, 0.4, 0.6, 2 u | element-range edge -/+ ulp | real vs ghost flipped | "
    "non-symbol E (nuclide label, name, digits) | unparseable label} x label spelling (case, @/Gh(/gh(, leading A, _tag/digit tag, @mass) x "
    "speclabel x nonphysical x mtol in {1e-3,1e-4,1e-2,1e-6,0.1,0.125,0.25} x number typing (int/float/bool). quick: every element x 64 subsets + every "
    "nuclide x 3 sampled subsets/variants + sampled conflicts; thorough: every nuclide x 64 subsets + 10x samples. Distinct = encoded input line; "
    "non-trivial = at least two clue kinds present, or a perturbed clue, or an error outcome. P: grammar-derived labels, single-edit near-misses, random strings — each judged three ways "
    "(CPython, hand recogniser, generic engine on the regenerated AST). X: the generic engine vs CPython's re on the regenerated NUMBER and CHGMULT patterns (match / fullmatch / search, span + every group) on "
    "number-like and 'charge multiplicity'-like strings and near-misses (signs, doubled signs, leading/trailing/doubled dots, exponents with d/D/e/E and bad letters, embedded blanks, tabs, commas, other separators, one-character edits) "
    "and on a sample of the labels through the raw NUCLEUS pattern (all 14 groups). "
    "Setting edges: nuclide x clue subset containing a mass and/or A clue x mtol in {0, 0.0, False, 1e-12, 1e-9, 1e-6, 1e-5, 1e-4, 1e-3, 1e-2, 0.1, 0.25, 0.3, 0.5, 1, 1.0, True, 2.0} x "
    "mass offset {10^U(-13,0.5) | 1..10 ulp | mtol x {0.5, 0.999, 1, 1.001, 2, 10, 100} | 0} in either direction; falsy clues: one present clue replaced by "
    "0 / 0.0 / False / '' (A, Z, E, mass, label). Call shapes: sampled cases re-issued with options left out where the documented default is meant, 0..9 leading "
    "positional arguments, verbose in {-1,0,1,2,left out}; plus cases at mtol=1e-3/speclabel/physical with all three settings left out and offsets around 1e-3 / range edges. Array entry: batches of 1..6 atoms sharing speclabel/nonphysical/mtol through validate_and_fill_nuclei and "
    "from_arrays (keyword settings given or left out at their defaults), each atom judged by the same oracle. History: the above mixed into the shuffled orders + "
    "siblings that differ only in one setting (mtol / nonphysical / speclabel / verbose / call shape) issued back to back."
)
LEVEL_TEXT = (
    "the DECISION CODE of nucleus.py (reconcile_nucleus with its nested closures, parse_nucleus_label's field extraction) is regenerated from the source on every run as a statement/expression term and PROVED equal to the hand model for every clue tuple and every label "
    "(any table with parsing mass strings, any idempotent rounding; no hypothesis for the shipped table under rd64), so every C06 theorem now speaks about a function derived from the source text and an edit of the logic "
    "(comparison operator, order of offers, argument of an accessor, inverted flag, dropped .lower()) breaks a proof obligation; each R line and each label is answered three ways (implementation / hand model / source-derived); "
    "what remains trusted there is the translator and the evaluator's reading of each Python construct (differential only); "
    "the label grammar is regenerated from the source on every run (CPython's parse tree of NUCLEUS as compiled in nucleus.py) and the model's recogniser is proved equal to the generic regex engine on that AST for every byte string "
    "(so an edit of the pattern breaks a proof obligation instead of going unnoticed); that the engine itself behaves like CPython's re is differential only (three-way P lines, X lines on NUMBER/CHGMULT), ASCII only; "
    "proof of soundness/default/conflict/history clauses for the model over any table and any rounding function; feedback (idempotence) proved in full "
    "when a mass clue was supplied and otherwise only *partially* (self-consistency hypothesis; a kernel-checked counter-example shows it fails for wide windows); model tied to the code by "
    "sampled + per-table-exhaustive differential correspondence, so the tie is evidence, not proof; settings are explored at their edges (mtol = 0 proved exact "
    "for the model and sampled on the code), omitted options are tied to the documented defaults and the array entry points to the scalar one by sampling only"
)
TECHNIQUE = "Lean 4 proof (source-to-Lean translator for the decision code + evaluator + symbolic execution of the generated statements against a representation invariant; structural: first-passing-candidate inversion, LRU invariant by induction over histories, regex engine = list semantics = hand recogniser by stage-wise symbolic evaluation of the generated AST) + translator from CPython's regex parse tree + differential correspondence + Python oracle"

MTOLS = [1.0e-3, 1.0e-3, 1.0e-3, 1.0e-4, 1.0e-2, 1.0e-6, 0.1, 0.125, 0.25]
BAND = Fraction(1, 10**9)
# the whole admissible range of the tolerance setting, falsy spellings of zero first (0 == 0.0 == False share a cache key)
MTOLS_EDGE = [0, 0.0, False, 0, 0.0, 1.0e-12, 1.0e-9, 1.0e-6, 1.0e-5, 1.0e-4, 1.0e-3, 1.0e-2, 0.1, 0.25, 0.3, 0.5, 1, 1.0, True, 2.0]
OFF_KINDS = ["logu", "logu", "logu", "ulp", "kmtol", "kmtol", "1e-4", "mtol", "mtol-ulp", "mtol+ulp", "exact"]
DOC_DEFAULTS = {"A": None, "Z": None, "E": None, "mass": None, "real": None, "label": None, "speclabel": True, "nonphysical": False, "mtol": 1.0e-3}

# ----------------------------------------------------------------------------------------
# translator: the NUCLEUS grammar (and NUMBER / CHGMULT) from /repo's regex.py + nucleus.py -> Gen/NucleusRegex.lean

NUCLEUS_GROUPS_MODELLED = ["gh1", "gh2", "A", "E", "user1", "Z", "user2", "mass"]  # the fields of Lean's `Nucleus.Groups`


class TieBroken(Exception):
    pass


def regex_namespace():
    """the names regex.py defines (it imports nothing), executed from common.REPO's working tree, never cached"""
    import runpy

    return runpy.run_path(str(common.REPO / "qcelemental/molparse/regex.py"))


def _eval_str(node, names):
    """string expression made of literals, regex.py names and `+` (what re.compile is given in nucleus.py)"""
    import ast

    if isinstance(node, ast.Constant) and isinstance(node.value, str):
        return node.value
    if isinstance(node, ast.Name) and isinstance(names.get(node.id), str):
        return names[node.id]
    if isinstance(node, ast.BinOp) and isinstance(node.op, ast.Add):
        return _eval_str(node.left, names) + _eval_str(node.right, names)
    raise TieBroken(f"nucleus.py builds the pattern from an expression the translator does not evaluate: {ast.dump(node)[:120]}")


def _eval_flags(node):
    import ast
    import re

    if isinstance(node, ast.Attribute) and isinstance(node.value, ast.Name) and node.value.id == "re" and isinstance(getattr(re, node.attr, None), re.RegexFlag):
        return int(getattr(re, node.attr))
    if isinstance(node, ast.BinOp) and isinstance(node.op, ast.BitOr):
        return _eval_flags(node.left) | _eval_flags(node.right)
    raise TieBroken(f"nucleus.py passes flags the translator does not evaluate: {ast.dump(node)[:120]}")


def nucleus_compile_site():
    """How nucleus.py compiles and uses NUCLEUS, read from its syntax tree:
    -> (pattern string, flags, line number, variable, entry point called on it, group names read from the match)"""
    import ast

    src = (common.REPO / "qcelemental/molparse/nucleus.py").read_text()
    tree = ast.parse(src)
    names = regex_namespace()
    imported = set()
    for n in ast.walk(tree):
        if isinstance(n, ast.ImportFrom) and n.module == "regex" and n.level == 1:
            imported |= {a.name for a in n.names if a.asname is None}
    sites = []
    for n in tree.body:
        if (isinstance(n, ast.Assign) and len(n.targets) == 1 and isinstance(n.targets[0], ast.Name) and isinstance(n.value, ast.Call)
                and isinstance(n.value.func, ast.Attribute) and n.value.func.attr == "compile"
                and isinstance(n.value.func.value, ast.Name) and n.value.func.value.id == "re"):
            sites.append(n)
    if len(sites) != 1:
        raise TieBroken(f"expected exactly one module-level re.compile in nucleus.py, found {len(sites)}")
    call = sites[0].value
    if call.keywords or not (1 <= len(call.args) <= 2):
        raise TieBroken("re.compile call shape in nucleus.py changed")
    pattern = _eval_str(call.args[0], {k: v for k, v in names.items() if k in imported})
    flags = _eval_flags(call.args[1]) if len(call.args) == 2 else 0
    var = sites[0].targets[0].id
    fn = next((f for f in tree.body if isinstance(f, ast.FunctionDef) and f.name == "parse_nucleus_label"), None)
    if fn is None:
        raise TieBroken("parse_nucleus_label not found in nucleus.py")
    entry, mvars = set(), set()
    for n in ast.walk(tree):
        if isinstance(n, ast.Attribute) and isinstance(n.value, ast.Name) and n.value.id == var:
            entry.add(n.attr)
    for n in ast.walk(fn):
        if (isinstance(n, ast.Assign) and isinstance(n.value, ast.Call) and isinstance(n.value.func, ast.Attribute)
                and isinstance(n.value.func.value, ast.Name) and n.value.func.value.id == var and len(n.targets) == 1 and isinstance(n.targets[0], ast.Name)):
            mvars.add(n.targets[0].id)
    if entry != {"match"}:
        raise TieBroken(f"{var} is used through {sorted(entry)}, the model covers exactly {var}.match(label)")
    read = []
    for n in ast.walk(fn):
        if isinstance(n, ast.Attribute) and isinstance(n.value, ast.Name) and n.value.id in mvars and n.attr != "group":
            raise TieBroken(f"parse_nucleus_label reads the match through .{n.attr}, only .group(name) is modelled")
        if (isinstance(n, ast.Call) and isinstance(n.func, ast.Attribute) and n.func.attr == "group" and isinstance(n.func.value, ast.Name) and n.func.value.id in mvars):
            if len(n.args) != 1 or not isinstance(n.args[0], ast.Constant) or not isinstance(n.args[0].value, str):
                raise TieBroken("parse_nucleus_label reads a group by something other than one literal name")
            if n.args[0].value not in read:
                read.append(n.args[0].value)
    return pattern, flags, sites[0].lineno, var, "match", read


def regex_sources():
    """-> {'nucleus': (pattern, flags), 'number': …, 'chgmult': …} as the library compiles them"""
    import re

    ns = regex_namespace()
    pattern, flags, _, _, _, _ = nucleus_compile_site()
    for k in ("NUMBER", "CHGMULT"):
        if not isinstance(ns.get(k), str):
            raise TieBroken(f"regex.py no longer defines the string {k}")
    return {"nucleus": (pattern, flags), "number": (ns["NUMBER"], int(re.VERBOSE)), "chgmult": (ns["CHGMULT"], int(re.VERBOSE))}


def gen_nucleus_regex(ctx=None) -> None:
    """lean/QcelVerif/Gen/NucleusRegex.lean <- qcelemental/molparse/regex.py (NUCLEUS, NUMBER, CHGMULT) as compiled in
    nucleus.py (`re.compile(r"\\A" + NUCLEUS + r"\\Z", re.IGNORECASE | re.VERBOSE)`, `.match`, groups read by name)."""
    import re

    import regex_gen

    pattern, flags, lineno, var, entry, read = nucleus_compile_site()
    ns = regex_namespace()
    tr = regex_gen.translate(pattern, flags)
    missing = [g for g in read if g not in tr.groupdict]
    if missing:
        raise TieBroken(f"parse_nucleus_label reads group(s) {missing} that the pattern does not define")
    if sorted(read) != sorted(NUCLEUS_GROUPS_MODELLED):
        raise TieBroken(f"parse_nucleus_label reads groups {read}; the Lean model's Groups structure covers {NUCLEUS_GROUPS_MODELLED}")
    trn = regex_gen.translate(ns["NUMBER"], re.VERBOSE)
    trc = regex_gen.translate(ns["CHGMULT"], re.VERBOSE)
    lines = [
        "import QcelVerif.Model.RegexEngine",
        "/-! GENERATED by harness/c06.py:gen_nucleus_regex from qcelemental/molparse/regex.py and the compile site in",
        f"qcelemental/molparse/nucleus.py (line {lineno}: `{var} = re.compile(…, {re.RegexFlag(flags)!s})`, used through `{var}.{entry}`;",
        f"groups read by parse_nucleus_label: {', '.join(read)}) — do not edit.",
        "Each term is CPython's own parse tree (`re._parser.parse`) of the pattern, re-encoded constructor by constructor;",
        "IGNORECASE is folded into the classes (ASCII), `\\d \\w \\s` are the ASCII parts of the categories. -/",
        "namespace QcelVerif.Gen.NucleusRegex",
        "open QcelVerif.Regex",
        "",
    ]
    lines += regex_gen.lean_defs("nucleus", tr, f"`\\A` NUCLEUS `\\Z` under {re.RegexFlag(flags)!s} (nucleus.py:{lineno})")
    lines += regex_gen.lean_defs("number", trn, "NUMBER under re.VERBOSE (regex.py; used inside from_string.py's line patterns)")
    lines += regex_gen.lean_defs("chgmult", trc, "CHGMULT = (?P<chg>NUMBER) SEP (?P<mult>\\d+) under re.VERBOSE")
    lines.append("end QcelVerif.Gen.NucleusRegex")
    body = "\n".join(lines) + "\n"
    f = common.LEAN / "QcelVerif" / "Gen" / "NucleusRegex.lean"
    f.parent.mkdir(exist_ok=True)
    if not f.exists() or f.read_text() != body:
        f.write_text(body)


TRANSLATORS.append(gen_nucleus_regex)
TRANSLATORS.append(c06_src.gen_nucleus_src)  # Gen/NucleusSrc.lean <- nucleus.py's decision code, statement by statement


# ----------------------------------------------------------------------------------------
# independent view of the table (read from the data file, not through periodic_table.py)


class Tab:
    def __init__(self):
        d = gen_periodic.literal_assign(common.REPO / "qcelemental/data/nist_2011_atomic_weights.py", "nist_2011_atomic_weights")
        self.Z, self.E, self.name = list(d["Z"]), list(d["E"]), list(d["name"])
        self.sym2z = dict(zip(self.E, self.Z))
        self.z2sym = dict(zip(self.Z, self.E))
        self.name2sym = dict(zip(self.name, self.E))
        self.rows = list(zip(d["EA"], d["_EE"], d["A"], [str(m) for m in d["mass"]]))
        self.nuc = {}  # (sym, A) -> mass text
        self.default = {}  # sym -> (A, mass text)
        self.isos = {}  # sym -> sorted A list
        self.keys = set(d["EA"])
        for ea, ee, a, m in self.rows:
            if ea == ee:
                self.default[ee] = (a, m)
            elif ea == ee + str(a):
                self.nuc[(ee, a)] = m
        for (s, a) in self.nuc:
            self.isos.setdefault(s, []).append(a)
        for s in self.isos:
            self.isos[s].sort()
        self.range = {}
        for ea, ee, a, m in self.rows:
            f = Fraction(float(m))
            lo, hi = self.range.get(ee, (f, f))
            self.range[ee] = (min(lo, f), max(hi, f))
        self.nuclides = [(ee, self.sym2z[ee], a, m) for (ee, a), m in self.nuc.items()]


_TAB = None


def tab() -> Tab:
    global _TAB
    if _TAB is None:
        _TAB = Tab()
    return _TAB


# ----------------------------------------------------------------------------------------
# encoding


def hexs(s: str) -> str:
    return s.encode("ascii").hex()


def enc_num(x) -> str:
    if x is None:
        return "N"
    if isinstance(x, bool):
        return "b1" if x else "b0"
    if isinstance(x, int):
        return f"i{x}"
    fr = Fraction(x)
    return f"f{fr.numerator}" if fr.denominator == 1 else f"f{fr.numerator}/{fr.denominator}"


def enc_str(s) -> str:
    return "N" if s is None else "s" + hexs(s)


FIELDS = ["A", "Z", "E", "mass", "real", "label", "speclabel", "nonphysical", "mtol"]


def enc_case(c) -> str:
    return "|".join(
        [enc_num(c["A"]), enc_num(c["Z"]), enc_str(c["E"]), enc_num(c["mass"]), enc_num(c["real"]), enc_str(c["label"]),
         "1" if c["speclabel"] else "0", "1" if c["nonphysical"] else "0", enc_num(c["mtol"])]
    )


def num_json(x):
    if x is None:
        return None
    if isinstance(x, bool):
        return ["b", x]
    if isinstance(x, int):
        return ["i", x]
    return ["f", float(x).hex()]


def num_unjson(j):
    if j is None:
        return None
    k, v = j
    return bool(v) if k == "b" else int(v) if k == "i" else float.fromhex(v)


def case_json(c):
    j = {k: (num_json(c[k]) if k in ("A", "Z", "mass", "real", "mtol") else c[k]) for k in FIELDS} | {"spec": spec_json(c.get("spec"))}
    if c.get("call"):
        j["call"] = c["call"]
    return j


def case_unjson(j):
    c = {k: (num_unjson(j[k]) if k in ("A", "Z", "mass", "real", "mtol") else j[k]) for k in FIELDS}
    c["spec"] = spec_unjson(j.get("spec"))
    if j.get("call"):
        c["call"] = j["call"]
    return c


def spec_json(s):
    if s is None:
        return None
    return {"z": s["z"], "a": s["a"], "m": [float(x).hex() for x in s["m"]], "r": s["r"], "user": s["user"], "bad": s["bad"]}


def spec_unjson(s):
    if s is None:
        return None
    return {"z": s["z"], "a": s["a"], "m": [float.fromhex(x) for x in s["m"]], "r": s["r"], "user": s["user"], "bad": s["bad"]}


# ----------------------------------------------------------------------------------------
# implementation


def _rn():
    from qcelemental.molparse.nucleus import reconcile_nucleus

    return reconcile_nucleus


def classify_exc(e) -> str:
    import qcelemental as qcel

    if isinstance(e, qcel.exceptions.NotAnElementError):
        return "err NotAnElement"
    if isinstance(e, qcel.exceptions.ValidationError):
        msg = getattr(e, "message", str(e))
        if "not parseable" in msg:
            return "err Validation:unparseable"
        k = msg.find("Inconsistent or unspecified ")
        if k >= 0:
            rest = msg[k + len("Inconsistent or unspecified "):]
            return "err Validation:" + rest.split(":")[0]
        return "err Validation:?"
    return "err other:" + type(e).__name__


def omittable(c, k) -> bool:
    """the option may be left out of the call: its value IS the documented default (same type, not merely ==)"""
    v, d = c[k], DOC_DEFAULTS[k]
    if d is None or isinstance(d, bool):
        return v is d
    return isinstance(v, float) and v == d


def strip_call(c):
    return {k: v for k, v in c.items() if k != "call"}


def call_impl(c):
    """-> ("ok", tuple) | ("err", text).  c['call'] (optional) = {'omit': [option names left out], 'npos': number of
    leading positional arguments, 'verbose': int | None (left out)}; without it: all nine options by keyword, verbose=-1."""
    call = c.get("call")
    try:
        if not call:
            r = _rn()(A=c["A"], Z=c["Z"], E=c["E"], mass=c["mass"], real=c["real"], label=c["label"],
                      speclabel=c["speclabel"], nonphysical=c["nonphysical"], mtol=c["mtol"], verbose=-1)
        else:
            npos = call.get("npos", 0)
            omit = [k for k in call.get("omit", []) if k in FIELDS[npos:] and omittable(c, k)]
            args = [c[k] for k in FIELDS[:npos]]
            kwargs = {k: c[k] for k in FIELDS[npos:] if k not in omit}
            if call.get("verbose") is not None:
                kwargs["verbose"] = call["verbose"]
            with contextlib.redirect_stdout(io.StringIO()):
                r = _rn()(*args, **kwargs)
    except Exception as e:  # noqa
        return ("err", classify_exc(e))
    return ("ok", r)


def real_tok(x, by_value) -> str:
    if by_value:
        try:
            fr = Fraction(x)
        except Exception:  # noqa
            return "?" + repr(x)
        return str(fr)
    return enc_num(x) if isinstance(x, (bool, int, float)) else "?" + repr(x)


def canon_impl(res, by_value=True) -> str:
    if res[0] == "err":
        return res[1]
    r = res[1]
    try:
        A, Z, E, mass, real, user = r
        if not (isinstance(A, int) and isinstance(Z, int) and isinstance(E, str) and isinstance(mass, float) and isinstance(user, str)):
            return "ok BAD-TYPES " + repr(r)
        fr = Fraction(mass)
        ms = str(fr.numerator) if fr.denominator == 1 else f"{fr.numerator}/{fr.denominator}"
        return f"ok {int(A)} {int(Z)} {hexs(E)} {ms} {real_tok(real, by_value)} s{hexs(user)}"
    except Exception as e:  # noqa
        return "ok BAD-SHAPE " + repr(r) + " " + type(e).__name__


def canon_model(line: str, by_value=True) -> str:
    if not by_value or not line.startswith("ok "):
        return line
    p = line.split(" ")
    if len(p) != 7:
        return line
    t = p[5]
    v = {"b0": "0", "b1": "1"}.get(t)
    if v is None and t[:1] in "if":
        v = str(Fraction(t[1:]))
    p[5] = v if v is not None else t
    return " ".join(p)


# ----------------------------------------------------------------------------------------
# oracle

DOCUMENTED = ("err NotAnElement", "err Validation")


def oracle(c, res):
    """Property clauses on the implementation's answer. `c['spec']` = what the generator put into the clues:
    z: element claims (atomic numbers, None = names nothing), a: mass-number claims, m: mass claims (floats),
    r: real claims, user: expected tag, bad: label unparseable.  Returns [(clause, message)]."""
    T = tab()
    s = c["spec"]
    bad = []
    if res[0] == "err":
        if not res[1].startswith(DOCUMENTED):
            bad.append(("error_class", f"raised {res[1]} — neither ValidationError nor NotAnElementError"))
            return bad
        # default clause: nothing but a consistent element, no isotope clue -> the default isotope must come back
        zs = set(s["z"])
        if (not s["bad"] and len(zs) == 1 and None not in zs and not s["a"] and not s["m"] and len(set(map(bool, s["r"]))) <= 1):
            sym = T.z2sym[next(iter(zs))]
            da, dm = T.default[sym]
            if not c["nonphysical"] or (float(dm) > 0.5 and da >= 1):
                bad.append(("default", f"element {sym} with no isotope clue was rejected ({res[1]}) instead of using its default isotope"))
        return bad
    A, Z, E, mass, real, user = res[1]
    if not (isinstance(A, int) and isinstance(Z, int) and isinstance(E, str) and isinstance(mass, float) and isinstance(user, str)):
        return [("types", f"result has unexpected types: {res[1]!r}")]
    if s["bad"]:
        bad.append(("label", "an unparseable label was accepted"))
    if T.z2sym.get(Z) != E:
        bad.append(("table_row", f"({Z}, {E}) is not a row of the periodic table"))
        return bad
    for z in s["z"]:
        if z != Z:
            bad.append(("element_clue", f"an element clue names Z={z} but Z={Z} was returned"))
    if not s["z"]:
        bad.append(("element_clue", "no element clue at all, yet an element was returned"))
    for a in s["a"]:
        if a != A:
            bad.append(("A_clue", f"mass number clue {a} but A={A} returned"))
    for m in s["m"]:
        if m != mass:
            bad.append(("mass_clue", f"mass clue {m!r} but mass={mass!r} returned"))
    mt = Fraction(c["mtol"])
    if A != -1:
        tm = T.nuc.get((E, A))
        if tm is None:
            bad.append(("nuclide", f"A={A} is not a tabulated nuclide of {E}"))
        else:
            diff = abs(Fraction(float(tm)) - Fraction(mass))
            if diff > mt * (1 + Fraction(1, 10**12)):
                bad.append(("nuclide_tolerance", f"A={A}: tabulated mass {tm} is {float(diff)} from returned mass {mass!r}, mtol={c['mtol']}"))
    if not c["nonphysical"]:
        lo, hi = T.range[E]
        fm = Fraction(mass)
        if fm < lo - Fraction(1, 2) - BAND or fm > hi + Fraction(1, 2) + BAND:
            bad.append(("physical_range", f"mass {mass!r} outside [{float(lo)}-0.5, {float(hi)}+0.5] of {E}"))
    for r in s["r"]:
        if not (real == r):
            bad.append(("real", f"real/ghost clue {r!r} but {real!r} returned"))
    if not s["r"] and not (real == True):  # noqa: E712
        bad.append(("real", f"no real/ghost clue but {real!r} returned"))
    if user != s["user"]:
        bad.append(("user", f"user tag {user!r}, expected {s['user']!r}"))
    if not s["a"] and not s["m"]:
        da, dm = T.default[E]
        if (A, mass) != (da, float(dm)):
            bad.append(("default", f"no isotope clue: expected default isotope ({da}, {dm}) of {E}, got ({A}, {mass!r})"))
    return bad


def feedback_case(c, r):
    A, Z, E, mass, real, user = r
    return {"A": None if A == -1 else A, "Z": Z, "E": E, "mass": mass, "real": real, "label": user, "speclabel": False,
            "nonphysical": c["nonphysical"], "mtol": c["mtol"], "spec": None}


def tuples_equal(a, b) -> bool:
    try:
        return bool(a == b) and len(a) == len(b)
    except Exception:  # noqa
        return False


def check_feedback(c, res, out: Outcome, jcase):
    """'is reproduced when the output is fed back' — only stated for 0 <= mtol <= 0.25 (ASSUMPTIONS)."""
    if res[0] != "ok":
        return
    if not (0 <= c["mtol"] <= 0.25):
        return
    T = tab()
    fb = feedback_case(c, res[1])
    r2 = call_impl(fb)
    out.count("feedback")
    A, Z, E, mass, real, user = res[1]
    tm = T.nuc.get((E, A))
    edge = tm is not None and abs(mass - float(tm)) == c["mtol"]
    if edge:
        out.count("feedback_at_exact_window_edge")
    if r2[0] == "ok" and tuples_equal(r2[1], res[1]):
        return
    kind = "oracle:feedback_window_edge" if (edge and r2[0] == "err" and r2[1] == "err Validation:mass") else "oracle:feedback"
    out.violations.append(
        Finding(kind, {"op": "R", "case": jcase, "edge": bool(edge)}, observed=canon_impl(r2), expected=canon_impl(res),
                detail="output fed back (A=-1 -> None, label=user tag, speclabel=False) is not reproduced"
                + ("; |mass - tabulated| == mtol exactly (the window edge: offer_mass_value keeps A unless `> mtol`, so offer_mass_number must accept `<= mtol`)" if edge else ""))
    )


# ----------------------------------------------------------------------------------------
# generators


def rand_case(rng, s: str) -> str:
    k = rng.random()
    if k < 0.3:
        return s
    if k < 0.5:
        return s.lower()
    if k < 0.7:
        return s.upper()
    return "".join(ch.upper() if rng.random() < 0.5 else ch.lower() for ch in s)


def ulp_step(x: float, n: int) -> float:
    for _ in range(abs(n)):
        x = math.nextafter(x, math.inf if n > 0 else -math.inf)
    return x


def mass_text(x: float) -> str:
    """a `\\d+\\.\\d+` spelling whose float() is exactly x (x >= 0)"""
    t = repr(x)
    if "e" in t or "E" in t:
        t = format(Decimal(x), "f")
    if "." not in t:
        t += ".0"
    return t


def typed(rng, n: int):
    """an integer clue in one of its Python spellings"""
    k = rng.random()
    if k < 0.75:
        return n
    if k < 0.93 or n not in (0, 1):
        return float(n)
    return bool(n)


USER_TAGS = [None, None, "_tag", "_Mine", "_x9", "__", "_9a", "7", "23"]


def build_label(rng, *, ghost, a, el, z, user, mtext):
    """label text from its fields. el: symbol text (already cased) or None; z: int or None."""
    core = ""
    if el is not None:
        if a is not None:
            core += str(a)
        core += el
        if user is not None:
            core += user
    else:
        core += str(z)
        if user is not None:
            core += user
    if mtext is not None:
        core += "@" + mtext
    if ghost == "@":
        return "@" + core
    if ghost:
        return ghost + core + ")"
    return core


def gen_reconcile_case(rng, T: Tab, target, mask, variant, *, speclabel=None, nonphysical=None, mtol=None, kinds=None, full_label=False):
    """target = (sym, z, a, masstext) with a = None for 'element only' (then A/mass clues carry the default isotope).
    mask bits: 1 A, 2 Z, 4 E, 8 mass, 16 real, 32 label.  Returns a case dict (with 'spec' for the oracle).
    kinds: the mass-offset kinds to draw from for variant 'mass_off'; full_label: the label carries element, A and @mass.
    variant 'falsy': one present clue (A, Z, E, mass, label) is replaced by a falsy value of its type."""
    sym, z, a, mtxt = target
    if a is None:
        a, mtxt = T.default[sym]
    tabm = float(mtxt)
    if mtol is None:
        mtol = rng.choice(MTOLS)
    if nonphysical is None:
        nonphysical = rng.random() < 0.2
    if speclabel is None:
        speclabel = rng.random() < 0.85
    ghost = rng.choice([None, None, "@", "Gh(", "gh(", "GH(", "gH("])
    spec = {"z": [], "a": [], "m": [], "r": [], "user": "", "bad": False}
    c = {"A": None, "Z": None, "E": None, "mass": None, "real": None, "label": None, "speclabel": speclabel,
         "nonphysical": nonphysical, "mtol": mtol, "variant": variant}

    # choose the perturbed quantities
    other = None
    if variant == "other_element":
        other = rng.choice([s for s in T.E if s != sym])
    a_use = a
    if variant == "bad_A":
        isos = T.isos.get(sym, [])
        cands = [x for x in ([isos[0] - 1, isos[-1] + 1] if isos else []) + [0, 1, 999, a + 40] if (sym, x) not in T.nuc and x >= 0]
        a_use = rng.choice(cands)
    m_use = tabm
    lo, hi = T.range[sym]
    if variant == "mass_off":
        kind = rng.choice(kinds or ["1e-4", "mtol-ulp", "mtol", "mtol+ulp", "0.4", "0.6", "2", "half", "small"])
        sign = rng.choice([-1, 1])
        fmtol = float(mtol)
        if kind == "logu":
            m_use = tabm + sign * 10.0 ** rng.uniform(-13.0, 0.5)
        elif kind == "ulp":
            m_use = ulp_step(tabm, sign * rng.choice([1, 1, 2, 3, 10]))
        elif kind == "kmtol":
            m_use = tabm + sign * fmtol * rng.choice([0.5, 0.999, 1.001, 2.0, 10.0, 100.0])
        elif kind == "exact":
            m_use = tabm
        elif kind == "1e-4":
            m_use = tabm + sign * 1.0e-4
        elif kind == "mtol":
            m_use = tabm + sign * mtol
        elif kind == "mtol-ulp":
            m_use = ulp_step(tabm + sign * mtol, -sign * rng.choice([1, 2, 3]))
        elif kind == "mtol+ulp":
            m_use = ulp_step(tabm + sign * mtol, sign * rng.choice([1, 2, 3]))
        elif kind == "half":
            m_use = float(a) + sign * 0.5  # round-half-even territory
        elif kind == "small":
            m_use = tabm + sign * mtol * rng.random()
        else:
            m_use = tabm + sign * float(kind)
        c["variant"] = "mass_off:" + kind
    elif variant == "range_edge":
        edge = rng.choice(["lo", "hi"])
        base = float(lo) - 0.5 if edge == "lo" else float(hi) + 0.5
        m_use = ulp_step(base, rng.choice([-2, -1, 0, 1, 2]))
        if rng.random() < 0.3:
            m_use = base + rng.choice([-1, 1]) * rng.choice([1e-6, 1e-3, 0.3])
        if nonphysical and rng.random() < 0.5:
            m_use = ulp_step(0.5, rng.choice([-1, 0, 1]))
    if m_use < 0 or not math.isfinite(m_use):
        m_use = abs(m_use) if math.isfinite(m_use) else tabm

    # which present clue is replaced by a falsy value
    falsy_slot = None
    if variant == "falsy":
        present = [b for b in (1, 2, 4, 8, 32) if mask & b]
        falsy_slot = rng.choice(present) if present else None
        c["variant"] = f"falsy:{falsy_slot}"
    zero = lambda: rng.choice([0, 0, 0.0, False])  # noqa: E731

    # which element clue carries the other element
    el_slots = [b for b in (2, 4, 32) if mask & b and (b != 32 or speclabel)]
    other_slot = rng.choice(el_slots) if (other is not None and el_slots) else None

    def sym_for(slot):
        return other if slot == other_slot else sym

    if mask & 2:
        zz = T.sym2z[sym_for(2)]
        if falsy_slot == 2:
            c["Z"] = zero()  # atomic number 0 is the table's dummy row 'X': a real element claim, conflicting with any other
            spec["z"].append(0 if 0 in T.z2sym else None)
        else:
            c["Z"] = typed(rng, zz)
            spec["z"].append(zz)
    if mask & 4:
        s4 = sym_for(4)
        if falsy_slot == 4:
            c["E"] = ""
            spec["z"].append(None)
        elif variant == "nonsymbol_E":
            kind = rng.choice(["nuclide", "name", "digits", "junk", "D"])
            if kind == "nuclide":
                c["E"] = rand_case(rng, f"{s4}{a}")
                spec["z"].append(None)
            elif kind == "name":
                c["E"] = rand_case(rng, T.name[T.E.index(s4)])
                spec["z"].append(T.sym2z[s4])
            elif kind == "digits":
                c["E"] = str(T.sym2z[s4])
                spec["z"].append(T.sym2z[s4])
            elif kind == "D":
                c["E"] = rng.choice(["D", "T", "d"])
                spec["z"].append(None)
            else:
                c["E"] = rng.choice(["Xx", "Qq", "Jx", "A", "Zz", "Hx"])
                spec["z"].append(None)
        else:
            c["E"] = rand_case(rng, s4)
            spec["z"].append(T.sym2z[s4])
    if mask & 1:
        if falsy_slot == 1:
            c["A"] = zero()
            spec["a"].append(0)
        else:
            c["A"] = typed(rng, a_use)
            spec["a"].append(a_use)
    if mask & 8:
        if falsy_slot == 8:
            c["mass"] = zero()
        elif rng.random() < 0.04 and float(round(m_use)) == m_use:
            c["mass"] = int(m_use)
        else:
            c["mass"] = m_use
        spec["m"].append(float(c["mass"]))
    label_real = ghost is None
    if mask & 16:
        rv = label_real if (mask & 32 and speclabel) else rng.random() < 0.6
        if variant == "real_flip" and mask & 32 and speclabel:
            rv = not rv
        c["real"] = rv if rng.random() < 0.7 else (int(rv) if rng.random() < 0.7 else float(rv))
        spec["r"].append(rv)
    if mask & 32:
        if not speclabel:
            lbl = "" if falsy_slot == 32 else rng.choice(["_tag", "Mine", "", "7", "_X_y", "@He4", "whatever_9", "H"])
            c["label"] = lbl
            spec["user"] = lbl.lower()
        elif falsy_slot == 32:
            c["label"] = ""  # offered as a nucleus specification, the empty label names nothing: unparseable
            spec["bad"] = True
        else:
            s32 = sym_for(32)
            use_el = full_label or rng.random() < 0.75
            la = None
            if use_el and (full_label or rng.random() < 0.5):
                la = a_use if not (variant == "second_A") else rng.choice([x for x in T.isos.get(sym, [a]) if x != a] or [a])
            if variant == "second_A" and use_el and la is None:
                la = rng.choice([x for x in T.isos.get(sym, [a]) if x != a] or [a])
            user = rng.choice(USER_TAGS)
            if not use_el and user is not None and not user.startswith("_"):
                user = None
            lm = None
            if full_label or rng.random() < 0.4:
                lmv = m_use
                if variant == "second_mass":
                    lmv = ulp_step(m_use, rng.choice([-1, 1, 5])) if rng.random() < 0.5 else m_use + rng.choice([1e-5, -1e-3])
                    lmv = abs(lmv)
                lm = mass_text(lmv) if rng.random() < 0.7 else (mtxt if "." in mtxt and variant not in ("mass_off", "range_edge", "second_mass") and m_use == tabm else mass_text(lmv))
            eltxt = rand_case(rng, s32) if use_el else None
            lbl = build_label(rng, ghost=ghost, a=la, el=eltxt, z=T.sym2z[s32], user=user, mtext=lm)
            if variant == "bad_label":
                lbl = mutate_label(rng, lbl)
                spec["bad"] = None  # unknown: decided by the independent recogniser below
            c["label"] = lbl
            spec["z"].append(T.sym2z[s32])
            if la is not None:
                spec["a"].append(la)
            if lm is not None:
                spec["m"].append(float(lm))
            spec["r"].append(label_real)
            spec["user"] = (user or "").lower()
    c["spec"] = spec
    return c


def mutate_label(rng, lbl: str) -> str:
    k = rng.random()
    alphabet = "@Gh()_.0123456789abXYz \n-+"
    if not lbl:
        return rng.choice(alphabet)
    i = rng.randrange(len(lbl))
    if k < 0.3:
        return lbl[:i] + lbl[i + 1:]
    if k < 0.6:
        return lbl[:i] + rng.choice(alphabet) + lbl[i:]
    if k < 0.8:
        return lbl[:i] + rng.choice(alphabet) + lbl[i + 1:]
    if k < 0.9:
        return lbl + rng.choice([")", "(", "@", "@1.", "@.5", "@1", "\n", " "])
    return rng.choice(["Gh(", "@", "gh"]) + lbl


# ---- independent recogniser of NUCLEUS used only by the oracle side (written from the documented grammar,
# ---- deterministic left-to-right; the Lean recogniser is the backtracking one) ---------------------------


def _is_digit(ch):
    return "0" <= ch <= "9"


def _is_alpha(ch):
    return ("a" <= ch <= "z") or ("A" <= ch <= "Z")


def _is_word(ch):
    return _is_digit(ch) or _is_alpha(ch) or ch == "_"


def ref_parse(lbl: str):
    """(A, Z, E, masstext, real, user) or None.  ASCII only."""
    s = lbl
    real, close = True, False
    if s.startswith("@"):
        real, s = False, s[1:]
    elif len(s) >= 3 and s[:2].lower() == "gh" and s[2] == "(":
        real, close, s = False, True, s[3:]
    if close:
        if not s.endswith(")"):
            return None
        s = s[:-1]
    i = 0
    while i < len(s) and _is_digit(s[i]):
        i += 1
    digits, rest = s[:i], s[i:]
    A = Z = E = user = None
    if rest and _is_alpha(rest[0]):
        j = 0
        while j < len(rest) and _is_alpha(rest[j]):
            j += 1
        if j > 3:
            return None
        E, rest = rest[:j], rest[j:]
        A = int(digits) if digits else None
        if rest.startswith("_"):
            j = 1
            while j < len(rest) and _is_word(rest[j]):
                j += 1
            if j == 1:
                return None
            user, rest = rest[:j], rest[j:]
        elif rest and _is_digit(rest[0]):
            j = 0
            while j < len(rest) and _is_digit(rest[j]):
                j += 1
            user, rest = rest[:j], rest[j:]
    else:
        if not (1 <= len(digits) <= 3):
            return None
        Z = int(digits)
        if rest.startswith("_"):
            j = 1
            while j < len(rest) and _is_word(rest[j]):
                j += 1
            if j == 1:
                return None
            user, rest = rest[:j], rest[j:]
    mtext = None
    if rest.startswith("@"):
        t = rest[1:]
        j = 0
        while j < len(t) and _is_digit(t[j]):
            j += 1
        if j == 0 or j >= len(t) or t[j] != ".":
            return None
        k = j + 1
        while k < len(t) and _is_digit(t[k]):
            k += 1
        if k == j + 1:
            return None
        mtext, rest = t[:k], t[k:]
    if rest:
        return None
    return (A, Z, E, mtext, real, user)


def respec_from_label(c):
    """For mutated labels: rebuild the label part of the spec with the independent recogniser."""
    T = tab()
    s = c["spec"]
    p = ref_parse(c["label"])
    # drop what build-time put in for the label (it is always appended last: z, [a], [m], r)
    base = {"z": [], "a": [], "m": [], "r": [], "user": "", "bad": False}
    if c["Z"] is not None:
        base["z"].append(int(c["Z"]))
    if c["E"] is not None:
        base["z"].append(s["z"][1] if c["Z"] is not None else s["z"][0])
    if c["A"] is not None:
        base["a"].append(int(c["A"]))
    if c["mass"] is not None:
        base["m"].append(float(c["mass"]))
    if c["real"] is not None:
        base["r"].append(bool(c["real"]))
    if p is None:
        base["bad"] = True
        c["spec"] = base
        return
    A, Z, E, mtext, real, user = p
    if Z is not None:
        base["z"].append(Z if Z in T.z2sym else None)
    if E is not None:
        cap = E.capitalize()
        base["z"].append(T.sym2z.get(cap) if cap in T.sym2z else (T.sym2z.get(T.name2sym.get(cap)) if cap in T.name2sym else None))
    if A is not None:
        base["a"].append(A)
    if mtext is not None:
        base["m"].append(float(mtext))
    base["r"].append(real)
    base["user"] = (user or "").lower()
    c["spec"] = base


VARIANTS = ["consistent"] * 6 + ["other_element", "other_element", "bad_A", "second_A", "mass_off", "mass_off", "mass_off",
                                 "range_edge", "real_flip", "nonsymbol_E", "bad_label", "second_mass"]


def gen_R(ctx: Ctx):
    rng, T = ctx.rng, tab()
    cases = []

    def add(target, mask, variant, **kw):
        c = gen_reconcile_case(rng, T, target, mask, variant, **kw)
        if variant == "bad_label" and c["label"] is not None and c["speclabel"]:
            respec_from_label(c)
        elif c["spec"]["bad"] is None:
            c["spec"]["bad"] = False
        cases.append(c)

    # every element x 64 subsets, consistent, default settings mostly
    for z, sym in zip(T.Z, T.E):
        for mask in range(64):
            add((sym, z, None, None), mask, "consistent", mtol=1.0e-3 if rng.random() < 0.7 else None)
    # every nuclide
    per_nuc_all = ctx.thorough
    for (sym, z, a, m) in T.nuclides:
        masks = range(64) if per_nuc_all else [rng.randrange(64) for _ in range(2)] + [rng.choice([1 | 2, 1 | 4, 8 | 2, 32, 32 | 1, 1 | 2 | 8])]
        for mask in masks:
            add((sym, z, a, m), mask, "consistent")
        # one perturbed variant per nuclide
        for _ in range(ctx.scale(2, 6)):
            add((sym, z, a, m), rng.randrange(1, 64) | rng.choice([2, 4, 32]), rng.choice(VARIANTS[6:]))
    # sampled mixture, biased to light elements + heavy tail
    n = ctx.scale(14000, 150000)
    light = [t for t in T.nuclides if t[1] <= 18]
    for _ in range(n):
        t = rng.choice(light) if rng.random() < 0.4 else rng.choice(T.nuclides)
        add(t, rng.randrange(64), rng.choice(VARIANTS))
    # exact window edge with dyadic mtol (the class repaired by /repo c8bc76e is exercised on every run)
    for _ in range(ctx.scale(60, 400)):
        t = rng.choice(light) if rng.random() < 0.5 else rng.choice(T.nuclides)
        c = gen_reconcile_case(rng, T, t, rng.choice([2 | 8, 4 | 8, 2 | 8 | 16, 1 | 2 | 8]), "mass_off", speclabel=True, nonphysical=False, mtol=rng.choice([0.25, 0.125]))
        tabm = float(t[3])
        c["mass"] = tabm + rng.choice([-1, 1]) * c["mtol"]
        c["spec"]["m"] = [c["mass"]]
        c["variant"] = "mass_off:mtol-exact"
        cases.append(c)
    # ---- everything below was added after the streams above, which keep their random sequence ----
    # setting edges: the tolerance over its whole admissible range (falsy zero in all three spellings, tiny, wide, int/bool) x
    # mass offsets at every scale, on the clue subsets where the tolerance decides (mass -> A, A vs mass, label A@mass)
    tol_masks = [2 | 8, 4 | 8, 1 | 2 | 8, 1 | 4 | 8, 32, 32 | 8, 1 | 32, 2 | 32, 4 | 8 | 16, 1 | 2, 1 | 4 | 8 | 32, 2 | 8 | 32]
    for _ in range(ctx.scale(8000, 60000)):
        t = rng.choice(light) if rng.random() < 0.4 else rng.choice(T.nuclides)
        mask = rng.choice(tol_masks) if rng.random() < 0.8 else (rng.randrange(64) | rng.choice([1, 8]))
        full = bool(mask & 32) and rng.random() < 0.7
        add(t, mask, "mass_off" if rng.random() < 0.85 else "consistent", mtol=rng.choice(MTOLS_EDGE), kinds=OFF_KINDS,
            full_label=full, speclabel=True if full else None)
    # every element's default isotope against a zero tolerance: mass clue a hair off / exactly on
    for z, sym in zip(T.Z, T.E):
        for mt in (0, 0.0, False):
            add((sym, z, None, None), rng.choice([2 | 8, 4 | 8, 1 | 4 | 8, 32]), "mass_off", mtol=mt, kinds=["logu", "ulp", "exact"],
                full_label=True, speclabel=True, nonphysical=False)
    # falsy clue values: one present clue replaced by 0 / 0.0 / False / '' — a clue all the same, never "not given"
    for _ in range(ctx.scale(3000, 25000)):
        t = rng.choice(light) if rng.random() < 0.4 else rng.choice(T.nuclides)
        add(t, rng.randrange(1, 64), "falsy", mtol=rng.choice(MTOLS_EDGE) if rng.random() < 0.3 else None)
    # the documented defaults, meant by leaving the option out: offsets around the default tolerance / outside the physical range
    for _ in range(ctx.scale(1500, 10000)):
        t = rng.choice(light) if rng.random() < 0.4 else rng.choice(T.nuclides)
        mask = rng.choice(tol_masks) if rng.random() < 0.8 else rng.randrange(1, 64)
        full = bool(mask & 32) and rng.random() < 0.7
        add(t, mask, rng.choice(["mass_off", "mass_off", "mass_off", "range_edge", "consistent"]), mtol=1.0e-3, speclabel=True, nonphysical=False,
            kinds=OFF_KINDS + ["0.4", "0.6", "2"], full_label=full)
        c = cases[-1]
        c["call"] = {"omit": [k for k in FIELDS if omittable(c, k) and (k in SETTINGS or rng.random() < 0.7)], "npos": 0, "verbose": rng.choice([-1, -1, 0, None])}
    # other call shapes of sampled cases: options left out where the documented default is meant, positional, verbose
    for c in rng.sample([c for c in cases if "call" not in c], ctx.scale(6000, 40000)):
        d = dict(c)
        d["call"] = rand_call(rng, d)
        cases.append(d)
    return cases


def rand_call(rng, c):
    npos = rng.choice([0, 0, 0, 1, 2, 3, 6, 9, rng.randrange(10)])
    omit = [k for k in FIELDS[npos:] if omittable(c, k) and rng.random() < 0.8]
    return {"omit": omit, "npos": npos, "verbose": rng.choice([-1, -1, 0, 1, 2, None])}


# ----------------------------------------------------------------------------------------
# array entry points: the same clues atom-wise through validate_and_fill_nuclei / from_arrays

ARRAY_KEYS = [("A", "elea"), ("Z", "elez"), ("E", "elem"), ("mass", "mass"), ("real", "real"), ("label", "elbl")]
SETTINGS = ("speclabel", "nonphysical", "mtol")


def call_array(entry, atoms, shape):
    """atoms: cases sharing speclabel/nonphysical/mtol.  -> ("ok", [6-tuple per atom]) | ("err", class text)"""
    from qcelemental.molparse.from_arrays import from_arrays, validate_and_fill_nuclei

    nat = len(atoms)
    kw = {}
    for f, name in ARRAY_KEYS:
        col = [a[f] for a in atoms]
        if all(v is None for v in col):
            if name in shape.get("none_explicit", []):
                kw[name] = None
        else:
            kw[name] = col
    for k in SETTINGS:
        if not (k in shape.get("omit", []) and omittable(atoms[0], k)):
            kw[k] = atoms[0][k]
    if shape.get("verbose") is not None:
        kw["verbose"] = shape["verbose"]
    try:
        with contextlib.redirect_stdout(io.StringIO()):
            if entry == "nuclei":
                rec = validate_and_fill_nuclei(nat, **kw)
            else:
                rec = from_arrays(geom=[[2.0 * i, 0.0, 0.0] for i in range(nat)], **kw)
    except Exception as e:  # noqa
        return ("err", classify_exc(e))
    try:
        cols = [rec[name] for _, name in ARRAY_KEYS]
        if any(len(col) != nat for col in cols):
            return ("err", f"err other:shape {[len(col) for col in cols]}")
        return ("ok", [(int(cols[0][i]), int(cols[1][i]), str(cols[2][i]), float(cols[3][i]), bool(cols[4][i]), str(cols[5][i])) for i in range(nat)])
    except Exception as e:  # noqa
        return ("err", "err other:record " + type(e).__name__)


def check_V(ctx, out: Outcome, entry, atoms, shape, mls):
    res = call_array(entry, atoms, shape)
    out.evaluations += 1
    out.count("array:" + entry)
    out.count("array_outcome:" + ("ok" if res[0] == "ok" else res[1]))
    jcase = {"op": "V", "entry": entry, "atoms": [case_json(strip_call(a)) for a in atoms], "shape": shape}
    out.nontrivial("V " + entry + " " + json.dumps(shape, sort_keys=True) + " " + " ; ".join(enc_case(a) for a in atoms))
    have_model = all(m is not None for m in mls)
    first_err = next((canon_model(m) for m in mls if not m.startswith("ok ")), None) if have_model else None
    if res[0] == "ok":
        for i, (a, tup) in enumerate(zip(atoms, res[1])):
            ci = canon_impl(("ok", tup))
            for clause, msg in oracle(a, ("ok", tup)):
                out.violations.append(Finding("oracle:" + clause, dict(jcase, atom=i), observed=ci, detail=f"[{entry}, atom {i} of {len(atoms)}] " + msg))
            if have_model and (first_err is not None or canon_model(mls[i]) != ci):
                out.mismatches.append(Finding("mismatch:array_entry", dict(jcase, atom=i), observed=ci, expected=first_err or canon_model(mls[i]),
                                              detail=f"{entry} vs Lean model of the atom-wise reconcile_nucleus calls"))
                break
    else:
        per = [oracle(a, res) for a in atoms]
        if any(cl == "error_class" for cl, _ in per[0]):
            out.violations.append(Finding("oracle:error_class", jcase, observed=res[1], detail=f"[{entry}] " + per[0][0][1]))
        elif all(any(cl == "default" for cl, _ in p) for p in per):
            out.violations.append(Finding("oracle:default", jcase, observed=res[1],
                                          detail=f"[{entry}] every atom is a consistent element without isotope clue, yet the record was rejected ({res[1]})"))
        if have_model and first_err != res[1]:
            out.mismatches.append(Finding("mismatch:array_entry", jcase, observed=res[1], expected=first_err or "ok (every atom)",
                                          detail=f"{entry} vs Lean model of the atom-wise reconcile_nucleus calls (first failing atom decides)"))
    return res


def array_stream(ctx, out: Outcome, cases, ml_of):
    """batches of atoms sharing the three settings; 70 % drawn from atoms expected to reconcile (so that the record is
    returned and every atom is judged), the rest from anything (first failing atom decides the error)."""
    rng = ctx.rng
    groups, good = {}, {}
    for c in cases:
        if "call" in c or (c["A"] is not None and c["A"] == -1):
            continue
        key = (c["speclabel"], c["nonphysical"], enc_num(c["mtol"]))
        groups.setdefault(key, []).append(c)
        ml = ml_of.get(enc_case(c))
        if (ml.startswith("ok ") if ml is not None else c.get("variant") == "consistent"):
            good.setdefault(key, []).append(c)
    keys = sorted(groups, key=repr)
    edge_keys = [k for k in keys if k[2] in ("i0", "f0", "b0")] or keys
    for _ in range(ctx.scale(2600, 20000)):
        r = rng.random()
        key = rng.choice(edge_keys) if r < 0.25 else (rng.choice(keys) if r < 0.6 else (True, False, enc_num(1.0e-3)))
        if key not in groups:
            key = rng.choice(keys)
        pool = good.get(key) if (rng.random() < 0.7 and good.get(key)) else groups[key]
        atoms = [rng.choice(pool) for _ in range(rng.choice([1, 1, 2, 2, 3, 4, 6]))]
        shape = {"omit": [k for k in SETTINGS if omittable(atoms[0], k) and rng.random() < 0.6],
                 "none_explicit": [name for _, name in ARRAY_KEYS if rng.random() < 0.4],
                 "verbose": rng.choice([-1, -1, 0, 1, None])}
        check_V(ctx, out, rng.choice(["nuclei", "from_arrays"]), atoms, shape, [ml_of.get(enc_case(a)) for a in atoms])


def gen_labels(ctx: Ctx):
    rng, T = ctx.rng, tab()
    labels = [
        "@ca_miNe", "Gh(Ca_mine)", "@Ca_mine@1.07", "Gh(cA_MINE@1.07)", "@40Ca_mine@1.07", "Gh(40Ca_mine@1.07)", "444lu333@4.0",
        "@444lu333@4.4", "8i", "53_mI4", "@5_MINEs3@4.4", "Gh(555_mines3@0.1)", "@13C_tag@13.003", "", "@", "Gh()", "Gh(", "H)", "@H)",
        "Gh(H", "gh(h)", "GH(H)", "Gh", "gh", "Ghx", "H_", "H__", "H2a", "H2_a", "1234", "123", "12_3", "1H1H", "H@1", "H@1.", "H@.5",
        "H@1.5.5", "H@1.5", "H\n", "H ", " H", "Hhhh", "hhh", "0", "000", "0001", "001_a", "_a", "1_", "@@H", "Gh(Gh(H))", "Gh(@H)", "H@1.5)", "Gh(H@1.5)",
        "Gh(H))", "gH(12c12@12.0)", "1e5", "H-1", "+1", "1.0", "H@1.0@2.0", "12@12.0", "12_@1.0", "Gh(1)", "@1", "GHh", "Gh2", "GH(2)",
    ]
    for _ in range(ctx.scale(6000, 60000)):
        sym = rng.choice(T.E)
        use_el = rng.random() < 0.7
        a = rng.choice([None, rng.randrange(0, 300), rng.randrange(0, 12)]) if use_el else None
        user = rng.choice(USER_TAGS + ["_" + "".join(rng.choice("aZ09_") for _ in range(rng.randrange(1, 5)))])
        if not use_el and user is not None and not user.startswith("_"):
            user = None
        mt = rng.choice([None, None, "1.07", "12.000", "0.5", "100.25", mass_text(rng.random() * 250)])
        lbl = build_label(rng, ghost=rng.choice([None, None, "@", "Gh(", "gh(", "GH(", "gH("]), a=a,
                          el=rand_case(rng, sym) if use_el else None, z=rng.randrange(0, 1200) if rng.random() < 0.2 else rng.randrange(0, 120), user=user, mtext=mt)
        labels.append(lbl)
        if rng.random() < 0.6:
            labels.append(mutate_label(rng, lbl))
    alphabet = "@Gh()_.019aHz"
    for _ in range(ctx.scale(3000, 30000)):
        labels.append("".join(rng.choice(alphabet) for _ in range(rng.randrange(0, 9))))
    return labels


# ----------------------------------------------------------------------------------------
# the individual streams


def stream_floats(ctx, out: Outcome, lines, checks):
    T, rng = tab(), ctx.rng
    texts = sorted({m for _, _, _, m in T.rows})
    for _ in range(ctx.scale(1500, 15000)):
        ip = str(rng.randrange(0, 400)) if rng.random() < 0.9 else str(rng.randrange(0, 10**rng.randrange(1, 25)))
        fp = "".join(rng.choice("0123456789") for _ in range(rng.randrange(1, 22)))
        texts.append(ip + "." + fp)
    texts += ["0.5", "0.1", "0.0", "2.5", "1.0000000000000001", "1.00000000000000011102230246251565404236316680908203125",
              "9007199254740993.0", "0.000000000000000000000000000000000000000000001", "4.9406564584124654e-324".replace("e-324", "")]
    for t in texts:
        fr = Fraction(float(t))
        exp = "ok " + (str(fr.numerator) if fr.denominator == 1 else f"{fr.numerator}/{fr.denominator}")
        lines.append("D " + hexs(t))
        checks.append(("float", t, exp))


def stream_ranges(ctx, out: Outcome, lines, checks):
    import qcelemental as qcel

    pt = qcel.periodictable
    for sym in tab().E:
        d = pt._el2a2mass[sym]
        fr = lambda x: (lambda f: str(f.numerator) if f.denominator == 1 else f"{f.numerator}/{f.denominator}")(Fraction(x))  # noqa
        exp = f"ok {min(d.keys())} {max(d.keys())} {fr(min(d.values()))} {fr(max(d.values()))}"
        lines.append("G " + hexs(sym))
        checks.append(("range", sym, exp))


def impl_parse(lbl):
    from qcelemental.molparse.nucleus import parse_nucleus_label

    try:
        return ("ok", parse_nucleus_label(lbl))
    except Exception as e:  # noqa
        return ("err", classify_exc(e))


def canon_parse(res) -> str:
    if res[0] == "err":
        return res[1]
    A, Z, E, mass, real, user = res[1]
    o = lambda x: "N" if x is None else str(x)  # noqa
    s = lambda x: "N" if x is None else "s" + hexs(x)  # noqa
    return f"ok {o(A)} {o(Z)} {s(E)} {'N' if mass is None else enc_num(float(mass))} {1 if real else 0} {s(user)}"


def canon_parse_model(line: str) -> str:
    # the model reports the mass *text*; float(text) is compared on the implementation side
    if not line.startswith("ok "):
        return line
    p = line.split(" ")
    if len(p) == 7 and p[4] != "N":
        p[4] = enc_num(float(bytes.fromhex(p[4][1:]).decode("ascii")))
    return " ".join(p)


def check_P(out: Outcome, label: str, ml, count=True):
    """three-way: CPython's parse_nucleus_label vs the hand recogniser vs the generic engine on the regenerated AST
    (driver answer `<hand> # <engine>`), plus the independent grammar oracle on the implementation's answer"""
    res = impl_parse(label)
    ci = canon_parse(res)
    out.evaluations += 1
    case = {"op": "P", "label": label}
    if count:
        out.count("stream:parse")
        out.count("parse:" + ("ok" if res[0] == "ok" else ci))
        out.nontrivial("P " + label)
    ref = ref_parse(label)
    if (ref is None) != (res[0] == "err") or (ref is not None and res[0] == "ok" and
                                              (ref[0], ref[1], ref[2], None if ref[3] is None else float(ref[3]), ref[4], ref[5]) != tuple(res[1])):
        out.violations.append(Finding("oracle:label_fields", case, observed=ci, expected=repr(ref),
                                      detail="parse_nucleus_label disagrees with the documented NUCLEUS grammar (independent recogniser)"))
    if res[0] == "err" and not res[1].startswith("err Validation"):
        out.violations.append(Finding("oracle:error_class", case, observed=ci, detail="unparseable label must be a ValidationError"))
    if ml is None:
        return
    hand, sep, eng = ml.partition(" # ")
    if not sep:
        out.mismatches.append(Finding("mismatch:parse_regex", case, observed=ci, expected=ml, detail="the driver did not answer with both recognisers"))
        return
    if canon_parse_model(hand) != ci:
        out.mismatches.append(Finding("mismatch:parse", case, observed=ci, expected=hand, detail="parse_nucleus_label vs Lean hand recogniser"))
    if canon_parse_model(eng) != ci:
        out.mismatches.append(Finding("mismatch:parse_regex", case, observed=ci, expected=eng,
                                      detail="parse_nucleus_label vs the generic regex engine on the NUCLEUS AST regenerated from regex.py"))
    if hand != eng:
        out.mismatches.append(Finding("mismatch:hand_vs_regex", case, observed=eng, expected=hand,
                                      detail="Lean hand recogniser vs generic engine on the regenerated NUCLEUS AST (theorem matchNucleus_eq_regex no longer describes the source)"))
    elif count:
        out.count("parse_three_way_agree")


_COMPILED = {}


def compiled_pattern(name):
    """CPython's compilation of the very (pattern, flags) the translator emitted"""
    import re

    if name not in _COMPILED:
        pattern, flags = regex_sources()[name]
        _COMPILED[name] = re.compile(pattern, flags)
    return _COMPILED[name]


def check_X(out: Outcome, payload, ml, count=True):
    """generic engine on a generated pattern vs CPython's re on the same pattern: match / fullmatch / search, span and
    every group (named or not)"""
    import regex_gen

    name, mode, text = payload
    exp = regex_gen.cpython_eval(compiled_pattern(name), mode, text)
    out.evaluations += 1
    if count:
        out.count(f"stream:regex:{name}")
        out.count(f"regex:{name}:{mode}:" + ("match" if exp != "none" else "none"))
        out.nontrivial(f"X {name} {mode} {text}")
    if ml is not None and ml != exp:
        out.mismatches.append(Finding("mismatch:regex_engine", {"op": "X", "name": name, "mode": mode, "text": text}, observed=exp, expected=ml,
                                      detail=f"CPython re.{ {'m': 'match', 'f': 'fullmatch', 's': 'search'}[mode] } on {name.upper()} vs the Lean engine on the generated AST"))


def gen_regex_texts(ctx: Ctx, labels):
    """(pattern name, mode, text): number-like and chgmult-like strings and near-misses (signs, leading/trailing dots,
    exponents with d/D/e/E, embedded blanks, separators), plus a sample of the labels through the raw NUCLEUS pattern"""
    rng = ctx.rng
    fixed = ["", ".", "+", "-", "1", "-1", "+1.", ".5", "-.5e3", "1e5", "1E5", "1d5", "1D-5", "1.e", "1.5e", "1.5e+", "1.5e+3", "1e5.3", "..5", "1..5",
             "+-1", "1 .5", " 1", "1 ", "1,2", "0 1", "-0.0 3", "1.5\t\t2", "1.5,2", "1.5 , 2", "1.5 2a", "1.5 2 3", "1.5e3 12", "1d5 1", "1\n", "1 2\n",
             "1.d", ".e5", "e5", "1e", "1ee5", "1e5e5", "- 1", "1.5D+02", "+.5d-2 7", "12.", "12. 3", ".5.5", "1 2", "1\t2", "1,,2", "1 ,\t 2", "1;2", "12",
             "0x10", "1_000", "1.0 1.0", "-1 -1", "1 +1", "abc 1.5 2", "x1", "1.5x"]
    texts = list(fixed)

    def number():
        sign = rng.choice(["", "", "+", "-", "+-", " "])
        ip = "".join(rng.choice("0123456789") for _ in range(rng.choice([0, 1, 1, 2, 4])))
        dot = rng.choice(["", ".", ".", ".."]) if rng.random() < 0.7 else ""
        fp = "".join(rng.choice("0123456789") for _ in range(rng.choice([0, 0, 1, 3])))
        ex = ""
        if rng.random() < 0.5:
            ex = rng.choice("eEdDeEdDxf") + rng.choice(["", "", "+", "-", "+-"]) + "".join(rng.choice("0123456789") for _ in range(rng.choice([0, 1, 2])))
        return sign + ip + dot + fp + ex

    def perturb(t):
        alphabet = " \t,.+-eEdD0123456789a\n"
        if t and rng.random() < 0.5:
            i = rng.randrange(len(t) + 1)
            k = rng.random()
            if k < 0.4:
                return t[:i] + rng.choice(alphabet) + t[i:]
            if k < 0.7 and i < len(t):
                return t[:i] + t[i + 1:]
            if i < len(t):
                return t[:i] + rng.choice(alphabet) + t[i + 1:]
        return t

    for _ in range(ctx.scale(2500, 25000)):
        n = number()
        texts.append(perturb(n))
        if rng.random() < 0.6:
            sep = rng.choice([" ", " ", ",", "\t", " , ", "", "  ", ";", ", ", " ,\t"])
            mult = rng.choice(["1", "2", "1", "3", "12", "003", "", "1.0", "-1", "a", "1 ", "3\n"])
            texts.append(perturb(rng.choice(["", "", "", "x", " "]) + n + sep + mult))
        if rng.random() < 0.35:  # well-formed 'charge multiplicity' lines, then one edit
            chg = rng.choice(["", "+", "-"]) + rng.choice(["0", "1", "2", "1.", "1.0", ".5", "0.0", "2e0", "1D0", "10"])
            t = chg + rng.choice([" ", "  ", ",", "\t", ", ", " , "]) + str(rng.choice([1, 1, 2, 3, 4, 11]))
            texts.append(t if rng.random() < 0.6 else perturb(t))
    out = []
    for t in texts:
        for name in ("number", "chgmult"):
            for mode in ("m", "f", "s"):
                out.append((name, mode, t))
    for l in rng.sample(labels, min(len(labels), ctx.scale(1500, 15000))) + labels[:70]:
        out.append(("nucleus", rng.choice("mfs"), l))
    return out


# ----------------------------------------------------------------------------------------


def check_R(ctx, out: Outcome, c, model_line, do_feedback=True):
    res = call_impl(c)
    ci = canon_impl(res)
    jc = case_json(c)
    out.evaluations += 1
    out.count("variant:" + c.get("variant", "?").split(":")[0])
    out.count("outcome:" + (ci if res[0] == "err" else ("ok:A=-1" if res[1][0] == -1 else "ok")))
    nclues = sum(c[k] is not None for k in ("A", "Z", "E", "mass", "real", "label"))
    out.count(f"clues:{nclues}")
    if nclues >= 2 or c.get("variant") != "consistent" or res[0] == "err":
        out.nontrivial(enc_case(c))
    if nclues >= 3 and c["label"] is not None and c["speclabel"] and (out.evaluations % 977 == 0 or len(out.samples) < 2):
        out.sample({"input": {k: c[k] for k in FIELDS}, "variant": c.get("variant"), "impl": ci if res[0] == "err" else repr(res[1]), "model": model_line})
    for clause, msg in oracle(c, res):
        out.violations.append(Finding("oracle:" + clause, {"op": "R", "case": jc}, observed=ci, detail=msg))
    if do_feedback:
        check_feedback(c, res, out, jc)
    if model_line is not None:
        # three-way: implementation / hand model / evaluator on the statements regenerated from nucleus.py (`<hand> # <src>`)
        hand, src = split_R(model_line)
        cm = canon_model(hand)
        if cm != ci:
            out.mismatches.append(Finding("mismatch:reconcile", {"op": "R", "case": jc}, observed=ci, expected=cm, detail="implementation vs Lean model: " + enc_case(c)))
        if src is None:
            out.mismatches.append(Finding("mismatch:reconcile_src", {"op": "R", "case": jc}, observed=ci, expected=model_line,
                                          detail="the driver did not answer with both the hand model and the source-derived procedure"))
        else:
            if canon_model(src) != ci:
                out.mismatches.append(Finding("mismatch:reconcile_src", {"op": "R", "case": jc}, observed=ci, expected=canon_model(src),
                                              detail="implementation vs the evaluator run on the statements regenerated from nucleus.py (Gen/NucleusSrc.lean): " + enc_case(c)))
            if src != hand:
                out.mismatches.append(Finding("mismatch:hand_vs_src", {"op": "R", "case": jc}, observed=src, expected=hand,
                                              detail="Lean hand model vs source-derived procedure (theorem reconcileSrc_eq_model no longer describes the source): " + enc_case(c)))
            else:
                out.count("reconcile_three_way_agree")
    return res


def split_R(ml):
    """driver answer of an R line: `<hand model> # <source-derived>` -> (hand, src | None)"""
    if ml is None:
        return None, None
    hand, sep, src = ml.partition(" # ")
    return hand, (src if sep else None)


def check_F(out: Outcome, label: str, ml, hand_line=None):
    """parse_nucleus_label: CPython vs the source-derived group reading (Gen/NucleusSrc.lean through Model/NucleusAst.lean)
    on the hand recogniser's match object; also against the hand model's own field extraction (P line)"""
    if ml is None:
        return
    ci = canon_parse(impl_parse(label))
    out.evaluations += 1
    out.count("stream:parse_src")
    case = {"op": "F", "label": label}
    if ml != ci:
        out.mismatches.append(Finding("mismatch:parse_src", case, observed=ci, expected=ml,
                                      detail="parse_nucleus_label vs the field extraction regenerated from nucleus.py"))
    if hand_line is not None:
        hand = canon_parse_model(hand_line.partition(" # ")[0])
        if hand != ml:
            out.mismatches.append(Finding("mismatch:parse_hand_vs_src", case, observed=ml, expected=hand,
                                          detail="hand model's parseLabel vs source-derived field extraction (theorem parseSrc_eq_model no longer describes the source)"))


def history_stream(ctx, out: Outcome, cases):
    """Same calls in shuffled orders, with and without cache_clear(): every answer must equal the fresh one (==).
    Then the exact H-line correspondence with the LRU model (types of `real`, eviction past 512 entries)."""
    rng = ctx.rng
    rn = _rn()
    pool = [c for c in cases if c["speclabel"] in (True, False)]
    rng.shuffle(pool)
    base = pool[: ctx.scale(1050, 4400)]
    # variants equal under Python == : retype numbers
    def retype(c):
        d = dict(c)
        for k in ("A", "Z", "mass", "real", "mtol"):
            v = d[k]
            if v is None or rng.random() < 0.5:
                continue
            if isinstance(v, bool):
                d[k] = int(v) if rng.random() < 0.5 else float(v)
            elif isinstance(v, int):
                d[k] = float(v) if abs(v) < 2**53 else v
                if v in (0, 1) and rng.random() < 0.3:
                    d[k] = bool(v)
            elif isinstance(v, float) and v == int(v) and k != "mtol":
                d[k] = int(v)
                if v in (0.0, 1.0) and k == "real" and rng.random() < 0.5:
                    d[k] = bool(v)
        return d

    calls = base + [retype(c) for c in base[: len(base) // 2]]
    # fresh answers
    fresh = []
    for c in calls:
        rn.cache_clear()
        fresh.append(call_impl(c))
    for rnd in range(ctx.scale(3, 6)):
        order = list(range(len(calls)))
        rng.shuffle(order)
        clear_every = [None, 1, 7, None, 100, None][rnd % 6]
        rn.cache_clear()
        for n, idx in enumerate(order):
            if clear_every and n % clear_every == 0:
                rn.cache_clear()
            r = call_impl(calls[idx])
            out.evaluations += 1
            out.count("history_calls")
            f = fresh[idx]
            same = (r[0] == f[0]) and (r[1] == f[1] if r[0] == "err" else tuples_equal(r[1], f[1]))
            if not same:
                out.violations.append(
                    Finding("oracle:history", {"op": "HIST", "calls": [case_json(calls[j]) for j in order[: n + 1]][-40:], "clear_every": clear_every},
                            observed=canon_impl(r), expected=canon_impl(f), detail="answer after earlier calls differs (==) from the fresh answer"))
                break
    # siblings that differ in exactly one setting (or only in the call shape), issued back to back in one process: a setting
    # must act on the call it is passed to — not stick from, nor be ignored because of, a neighbouring call with the same clues
    def sibling(c):
        d = strip_call(c)
        which = rng.choice(["mtol", "mtol", "mtol", "nonphysical", "speclabel", "call"])
        if which == "mtol":
            d["mtol"] = rng.choice([m for m in MTOLS_EDGE if not (m == c["mtol"])])
        elif which == "call":
            d["call"] = rand_call(rng, d)
        else:
            d[which] = not c[which]
        return d

    with_mass = [c for c in base if c["mass"] is not None or (c["label"] is not None and "@" in c["label"][1:])]
    for c in with_mass[: ctx.scale(400, 2500)]:
        seq = [c, sibling(c), c, sibling(c)]
        rng.shuffle(seq)
        fr = []
        for d in seq:
            rn.cache_clear()
            fr.append(call_impl(d))
        rn.cache_clear()
        for n, (d, f) in enumerate(zip(seq + seq, fr + fr)):
            r = call_impl(d)
            out.evaluations += 1
            out.count("history_sibling_calls")
            same = (r[0] == f[0]) and (r[1] == f[1] if r[0] == "err" else tuples_equal(r[1], f[1]))
            if not same:
                out.violations.append(
                    Finding("oracle:history", {"op": "HIST", "calls": [case_json(x) for x in (seq + seq)[: n + 1]], "clear_every": None},
                            observed=canon_impl(r), expected=canon_impl(f), detail="answer after sibling calls (same clues, one setting changed) differs (==) from the fresh answer"))
                break
    # exact LRU correspondence: phase 1 with occasional cache_clear(), phase 2 without (so that > 512 distinct
    # successful keys are live and eviction order matters), phase 3 re-asks early keys (evicted or not).
    # The memo model keys on the nine options; calls in other shapes (different lru keys in CPython) stay out of it.
    if ctx.model_available:
        calls, fresh = map(list, zip(*[(c, f) for c, f in zip(calls, fresh) if "call" not in c]))
        ok_calls = [c for c, f in zip(calls, fresh) if f[0] == "ok"]
        seq = []
        for _ in range(ctx.scale(700, 3000)):
            k = rng.random()
            seq.append(None if k < 0.01 else (rng.choice(calls) if k < 0.8 else rng.choice(calls[:40])))
        seq.append(None)
        phase2 = ok_calls[: ctx.scale(900, 2500)]
        for c in phase2:
            seq.append(c)
            if rng.random() < 0.3:
                seq.append(rng.choice(phase2[:60]))  # keep a few keys fresh
        for _ in range(ctx.scale(800, 3000)):
            seq.append(rng.choice(phase2) if rng.random() < 0.8 else rng.choice(calls))
        lines = ["C"] + [("C" if c is None else "H " + enc_case(c)) for c in seq]
        model = ctx.run_model(DRIVER, lines)
        rn.cache_clear()
        hist = []
        for c, ml in zip(seq, model[1:]):
            if c is None:
                rn.cache_clear()
                hist.append("C")
                continue
            r = call_impl(c)
            ci = canon_impl(r, by_value=False)
            hist.append(enc_case(c))
            out.evaluations += 1
            out.count("lru_calls")
            if ci != ml:
                out.mismatches.append(Finding("mismatch:lru", {"op": "H", "lines": hist[-1500:]}, observed=ci, expected=ml,
                                              detail="real lru_cache vs Lru model (exact result object types) after this history"))
                break
        info = rn.cache_info()
        out.notes.append(f"lru correspondence: {len(seq)} ops, distinct successful keys offered in phase 2: {len(phase2)}, final cache_info={info}")
        if info.currsize >= 512 and info.misses > 512:
            out.count("lru_eviction_reached")
    rn.cache_clear()


NONASCII_TAGS = ["_Stra\u00dfe", "_\u0391\u03a3", "_\u0130x", "_\u017ft", "_\u01c5", "_\u00c0\u00c9", "_x\u00df", "_\u03a3\u03a3"]


def nonascii_tag_stream(ctx: Ctx, out: Outcome):
    """The user tag is returned 'lower-cased exactly as given': for tags outside ASCII (which the Lean string model does not cover,
    see ASSUMPTIONS) that is Python's str.lower(), not any other case mapping.  Oracle only, a handful of fixed tags."""
    from qcelemental.molparse.nucleus import reconcile_nucleus

    for tag in NONASCII_TAGS:
        for lab, kw in ((f"@13C{tag}@13.003", {"speclabel": True}), (f"He{tag}", {"speclabel": True}), (tag, {"E": "C", "speclabel": False})):
            out.evaluations += 1
            out.count("nonascii_tag")
            case = {"op": "nonascii", "label": lab, "kw": kw}
            try:
                r = reconcile_nucleus(label=lab, verbose=-1, **kw)
            except Exception as e:  # noqa
                out.violations.append(Finding("oracle:user", case, observed=err_class(e), expected=tag.lower(), detail="a label with a non-ASCII user tag is refused"))
                continue
            if r[5] != tag.lower():
                out.violations.append(Finding("oracle:user", case, observed=r[5], expected=tag.lower(), detail="the user tag is not returned lower-cased (str.lower) exactly as given"))


def run(ctx: Ctx) -> Outcome:
    out = Outcome()
    nonascii_tag_stream(ctx, out)
    T = tab()
    lines, checks = [], []
    stream_floats(ctx, out, lines, checks)
    stream_ranges(ctx, out, lines, checks)
    labels = gen_labels(ctx)
    for l in labels:
        lines.append("P " + hexs(l))
        checks.append(("parse", l, None))
    cases = gen_R(ctx)
    for c in cases:
        lines.append("R " + enc_case(c))
        checks.append(("R", c, None))
    # ---- added after the streams above (which keep their random sequence): the generic engine on the generated patterns
    xs = gen_regex_texts(ctx, labels)
    try:
        for name in ("nucleus", "number", "chgmult"):
            compiled_pattern(name)
    except Exception as e:  # noqa — the compile site / regex.py cannot be read as the translator expects: that tie is already reported broken by the translator
        out.notes.append(f"X stream skipped: the patterns cannot be re-read from the source ({type(e).__name__}: {e})")
        xs = []
    for name, mode, t in xs:
        lines.append(f"X {name} {mode} {hexs(t)}")
        checks.append(("regex", (name, mode, t), None))
    # ---- source-derived field extraction of parse_nucleus_label on every P label (appended last: earlier streams keep their sequence)
    for l in labels:
        lines.append("F " + hexs(l))
        checks.append(("parse_src", l, None))
    model = [None] * len(lines)
    if ctx.model_available:
        model = ctx.run_model(DRIVER, lines)
    _rn().cache_clear()
    ml_of = {}
    p_of = {}
    for (kind, payload, exp), ml in zip(checks, model):
        if kind in ("float", "range"):
            out.evaluations += 1
            out.count("stream:" + kind)
            if ml is not None and ml != exp:
                out.mismatches.append(Finding("mismatch:" + kind, {"op": kind, "arg": payload}, observed=exp, expected=ml,
                                              detail="CPython float()/_el2a2mass vs Lean rd64/elRange"))
        elif kind == "parse":
            check_P(out, payload, ml)
            p_of[payload] = ml
        elif kind == "parse_src":
            check_F(out, payload, ml, p_of.get(payload))
        elif kind == "regex":
            check_X(out, payload, ml)
        else:
            check_R(ctx, out, payload, ml)
            if ml is not None:
                ml_of[enc_case(payload)] = split_R(ml)[0]
    array_stream(ctx, out, cases, ml_of)
    history_stream(ctx, out, cases)
    out.exhaustive = False
    out.notes.append(
        f"R cases: {len(cases)} (every element x 64 clue subsets; every nuclide x {'64' if ctx.thorough else '3'} subsets + perturbed variants; sampled mixture); "
        f"P labels: {len(labels)} (three-way: CPython / hand recogniser / generic engine on the regenerated AST); X engine-vs-CPython lines: {len(xs)}; D floats: every tabulated mass string + random decimals; G: all {len(T.E)} elements; "
        f"of the R cases {sum(1 for c in cases if c['mtol'] == 0)} at mtol = 0 (0 / 0.0 / False), {sum(1 for c in cases if c['mtol'] > 0.25)} at mtol > 0.25, "
        f"{sum(1 for c in cases if str(c.get('variant', '')).startswith('falsy'))} with a falsy clue, {sum(1 for c in cases if 'call' in c)} in another call shape"
    )
    return out


def replay(ctx: Ctx, case) -> Outcome:
    out = Outcome()
    op = case.get("op")
    if op == "nonascii":
        nonascii_tag_stream(ctx, out)
        return out
    if op == "R":
        c = case_unjson(case["case"])
        _rn().cache_clear()
        ml = ctx.run_model(DRIVER, ["R " + enc_case(c)])[0] if ctx.model_available else None
        check_R(ctx, out, c, ml)
    elif op == "P":
        l = case["label"]
        ml = ctx.run_model(DRIVER, ["P " + hexs(l)])[0] if ctx.model_available else None
        check_P(out, l, ml, count=False)
    elif op == "F":
        l = case["label"]
        mls = ctx.run_model(DRIVER, ["P " + hexs(l), "F " + hexs(l)]) if ctx.model_available else [None, None]
        check_F(out, l, mls[1], mls[0])
    elif op == "X":
        payload = (case["name"], case["mode"], case["text"])
        ml = ctx.run_model(DRIVER, [f"X {payload[0]} {payload[1]} {hexs(payload[2])}"])[0] if ctx.model_available else None
        check_X(out, payload, ml, count=False)
    elif op == "HIST":
        rn = _rn()
        calls = [case_unjson(j) for j in case["calls"]]
        rn.cache_clear()
        last = None
        for n, c in enumerate(calls):
            if case.get("clear_every") and n % case["clear_every"] == 0:
                rn.cache_clear()
            last = call_impl(c)
        rn.cache_clear()
        f = call_impl(calls[-1])
        out.evaluations += 1
        same = (last[0] == f[0]) and (last[1] == f[1] if last[0] == "err" else tuples_equal(last[1], f[1]))
        if not same:
            out.violations.append(Finding("oracle:history", case, observed=canon_impl(last), expected=canon_impl(f), detail="answer after earlier calls differs from the fresh answer"))
    elif op == "V":
        atoms = [case_unjson(j) for j in case["atoms"]]
        _rn().cache_clear()
        mls = [split_R(m)[0] for m in ctx.run_model(DRIVER, ["R " + enc_case(a) for a in atoms])] if ctx.model_available else [None] * len(atoms)
        check_V(ctx, out, case["entry"], atoms, case["shape"], mls)
    elif op == "H":
        lines = ["C"] + [("C" if l == "C" else "H " + l) for l in case["lines"]]
        out.notes.append("LRU correspondence replays need the recorded history; re-run the tier with the recorded seed")
        return run(ctx)
    elif op in ("float", "range"):
        return run(ctx)
    return out
