"""Python `re` pattern -> Lean term of `QcelVerif.Regex.Re` (lean/QcelVerif/Model/RegexEngine.lean).

The pattern is parsed by CPython's own parser (`re._parser.parse(pattern, flags)`), so VERBOSE layout, comments,
escapes, group numbering and the parser's rewrites (common-prefix factoring of alternations, inlining of plain
non-capturing groups) are CPython's, not a transcription.  What this module does on top of the parse tree:

  * ASCII restriction: a literal or range bound > 127 is refused; `\\d \\w \\s` become the ASCII parts of the Unicode
    categories (the engine's `Item.digit/word/space`).
  * IGNORECASE is folded into the character classes (ASCII case pairs); every emitted one-character class is
    cross-checked on all 128 ASCII characters against CPython compiling that very parse-tree node.
  * anything the engine has no constructor for (back-references, look-around, atomic groups, possessive
    repeats, scoped inline flags, LOCALE/ASCII flags) raises `Unsupported` — a pattern change using a new
    construct is a broken tie, never a silent skip.  A repetition whose body can match the empty string is refused
    as well (CPython's handling of empty iterations is not modelled by the engine).

Reusable: `translate(pattern, flags) -> Translated` (Lean term + group table); nothing here is specific to C06.
"""
from __future__ import annotations

import re
import re._compiler as _compiler
import re._constants as _c
import re._parser as _parser
from dataclasses import dataclass
from typing import Dict, List, Tuple


class Unsupported(Exception):
    pass


@dataclass
class Translated:
    pattern: str
    flags: int  # the flags in force after parsing (inline global flags included)
    term: str  # Lean term of type Re
    ngroups: int  # number of capturing groups (group 0 not counted)
    groupdict: Dict[str, int]
    tree: object  # nested Python form of the AST (for an independent evaluation in tests)


# ---- AST (Python mirror of the Lean inductive) -----------------------------------------------------------
# ("eps",) ("fail",) ("cls", neg, items) ("seq", a, b) ("alt", a, b) ("rep", lo, hi|None, greedy, r)
# ("group", i, r) ("ifGroup", i, yes, no) ("bos",) ("eos",) ("eolFinal",) ("bolMulti",) ("eolMulti",) ("wordB", neg)
# items: ("ch", c) ("range", lo, hi) ("digit",) ("notDigit",) ("word",) ("notWord",) ("space",) ("notSpace",)

_CATS = {
    _c.CATEGORY_DIGIT: ("digit",), _c.CATEGORY_NOT_DIGIT: ("notDigit",),
    _c.CATEGORY_WORD: ("word",), _c.CATEGORY_NOT_WORD: ("notWord",),
    _c.CATEGORY_SPACE: ("space",), _c.CATEGORY_NOT_SPACE: ("notSpace",),
}


def _is_alpha(c):
    return 65 <= c <= 90 or 97 <= c <= 122


def _swap(c):
    return c + 32 if 65 <= c <= 90 else c - 32 if 97 <= c <= 122 else c


def item_mem(it, c) -> bool:
    k = it[0]
    if k == "ch":
        return c == it[1]
    if k == "range":
        return it[1] <= c <= it[2]
    d = 48 <= c <= 57
    w = _is_alpha(c) or d or c == 95
    s = 9 <= c <= 13 or 28 <= c <= 32
    return {"digit": d, "notDigit": not d, "word": w, "notWord": not w, "space": s, "notSpace": not s}[k]


def cls_mem(neg, items, c) -> bool:
    return any(item_mem(i, c) for i in items) != neg


def _ascii(c, what):
    if not (0 <= c <= 127):
        raise Unsupported(f"{what} {c!r} is outside ASCII")
    return c


def _lit_items(c, ic):
    _ascii(c, "literal")
    return [("ch", c), ("ch", _swap(c))] if (ic and _is_alpha(c)) else [("ch", c)]


def _range_items(lo, hi, ic):
    _ascii(lo, "range bound")
    _ascii(hi, "range bound")
    items = [("range", lo, hi)]
    if ic:
        a, b = max(lo, 65), min(hi, 90)
        if a <= b:
            items.append(("range", a + 32, b + 32))
        a, b = max(lo, 97), min(hi, 122)
        if a <= b:
            items.append(("range", a - 32, b - 32))
    return items


def _check_class(node, neg, items, flags):
    """the emitted class against CPython compiling this very node, on every ASCII character"""
    st = _parser.State()
    st.flags = flags
    st.str = ""
    pat = _compiler.compile(_parser.SubPattern(st, [node]), flags)
    for c in range(128):
        if bool(pat.fullmatch(chr(c))) != cls_mem(neg, items, c):
            raise Unsupported(f"class folding disagrees with CPython on chr({c}) for node {node!r}")


def _seq(parts):
    parts = [p for p in parts if p != ("eps",)]
    if not parts:
        return ("eps",)
    out = parts[-1]
    for p in reversed(parts[:-1]):
        out = ("seq", p, out)
    return out


def nullable(t) -> bool:
    k = t[0]
    if k == "eps":
        return True
    if k in ("fail", "cls"):
        return False
    if k == "seq":
        return nullable(t[1]) and nullable(t[2])
    if k == "alt":
        return nullable(t[1]) or nullable(t[2])
    if k == "rep":
        return t[1] == 0 or nullable(t[4])
    if k == "group":
        return nullable(t[2])
    if k == "ifGroup":
        return nullable(t[2]) or nullable(t[3])
    return True


def _node(op, av, flags):
    ic = bool(flags & re.IGNORECASE)
    if op is _c.LITERAL:
        t = ("cls", False, _lit_items(av, ic))
        _check_class((op, av), t[1], t[2], flags)
        return t
    if op is _c.NOT_LITERAL:
        t = ("cls", True, _lit_items(av, ic))
        _check_class((op, av), t[1], t[2], flags)
        return t
    if op is _c.ANY:
        t = ("cls", True, [] if flags & re.DOTALL else [("ch", 10)])
        _check_class((op, av), t[1], t[2], flags)
        return t
    if op is _c.IN:
        neg, items = False, []
        for iop, iav in av:
            if iop is _c.NEGATE:
                neg = True
            elif iop is _c.LITERAL:
                items += _lit_items(iav, ic)
            elif iop is _c.RANGE:
                items += _range_items(iav[0], iav[1], ic)
            elif iop is _c.CATEGORY:
                if iav not in _CATS:
                    raise Unsupported(f"category {iav!r}")
                items.append(_CATS[iav])
            else:
                raise Unsupported(f"class item {iop!r}")
        _check_class((op, av), neg, items, flags)
        return ("cls", neg, items)
    if op is _c.BRANCH:
        alts = [_sub(p, flags) for p in av[1]]
        out = alts[-1]
        for a in reversed(alts[:-1]):
            out = ("alt", a, out)
        return out
    if op is _c.SUBPATTERN:
        group, add_flags, del_flags, p = av
        if add_flags or del_flags:
            raise Unsupported("scoped inline flags (?i:...)")
        body = _sub(p, flags)
        return body if group is None else ("group", group, body)
    if op in (_c.MAX_REPEAT, _c.MIN_REPEAT):
        lo, hi, p = av
        body = _sub(p, flags)
        if nullable(body):
            raise Unsupported("repetition of a body that can match the empty string")
        return ("rep", int(lo), None if hi is _c.MAXREPEAT else int(hi), op is _c.MAX_REPEAT, body)
    if op is _c.AT:
        multi = bool(flags & re.MULTILINE)
        if av is _c.AT_BEGINNING_STRING:
            return ("bos",)
        if av is _c.AT_END_STRING:
            return ("eos",)
        if av is _c.AT_BEGINNING:
            return ("bolMulti",) if multi else ("bos",)
        if av is _c.AT_END:
            return ("eolMulti",) if multi else ("eolFinal",)
        if av is _c.AT_BOUNDARY:
            return ("wordB", False)
        if av is _c.AT_NON_BOUNDARY:
            return ("wordB", True)
        raise Unsupported(f"anchor {av!r}")
    if op is _c.GROUPREF_EXISTS:
        group, yes, no = av
        return ("ifGroup", int(group), _sub(yes, flags), _sub(no, flags) if no is not None else ("eps",))
    raise Unsupported(f"regex construct {op!r} has no counterpart in the Lean engine")


def _sub(p, flags):
    return _seq([_node(op, av, flags) for op, av in p])


# ---- Lean rendering ----------------------------------------------------------------------------------


def _item_lean(it):
    k = it[0]
    if k == "ch":
        return f".ch {it[1]}"
    if k == "range":
        return f".range {it[1]} {it[2]}"
    return "." + k


def lean_term(t, ind=2) -> str:
    pad = " " * ind
    k = t[0]
    if k in ("eps", "fail", "bos", "eos", "eolFinal", "bolMulti", "eolMulti"):
        return "." + k
    if k == "wordB":
        return f"(.wordB {'true' if t[1] else 'false'})"
    if k == "cls":
        return f"(.cls {'true' if t[1] else 'false'} [{', '.join(_item_lean(i) for i in t[2])}])"
    if k in ("seq", "alt"):
        return f"(.{k}\n{pad}{lean_term(t[1], ind + 2)}\n{pad}{lean_term(t[2], ind + 2)})"
    if k == "rep":
        hi = "none" if t[2] is None else f"(some {t[2]})"
        return f"(.rep {t[1]} {hi} {'true' if t[3] else 'false'}\n{pad}{lean_term(t[4], ind + 2)})"
    if k == "group":
        return f"(.group {t[1]}\n{pad}{lean_term(t[2], ind + 2)})"
    if k == "ifGroup":
        return f"(.ifGroup {t[1]}\n{pad}{lean_term(t[2], ind + 2)}\n{pad}{lean_term(t[3], ind + 2)})"
    raise Unsupported(f"internal: {k}")


def translate(pattern: str, flags: int) -> Translated:
    p = _parser.parse(pattern, flags)
    fl = p.state.flags
    if fl & (re.LOCALE | re.ASCII) or not fl & re.UNICODE:
        raise Unsupported("only str patterns with Unicode categories (no re.ASCII / re.LOCALE) are translated")
    if fl & ~(re.IGNORECASE | re.VERBOSE | re.UNICODE | re.DOTALL | re.MULTILINE):
        raise Unsupported(f"flags {re.RegexFlag(fl)!r}")
    tree = _sub(p, fl)
    return Translated(pattern, fl, lean_term(tree), p.state.groups - 1, dict(p.state.groupdict), tree)


def bytes_lit(s: str) -> str:
    return "[" + ", ".join(str(b) for b in s.encode("ascii")) + "]"


def lean_defs(name: str, tr: Translated, doc: str) -> List[str]:
    """`def <name> : Re`, `<name>Groups : Nat`, `<name>Names : List (List Nat × Nat)` and one `Nat` constant per named
    group in `namespace <name>G`"""
    out = [f"/-- {doc} -/", f"def {name} : Re :=", "  " + tr.term, "",
           f"/-- number of capturing groups of `{name}` -/", f"def {name}Groups : Nat := {tr.ngroups}",
           f"/-- (group name, group number) of `{name}` -/",
           f"def {name}Names : List (List Nat × Nat) := [" + ", ".join(f"({bytes_lit(k)}, {v})" for k, v in tr.groupdict.items()) + "]",
           f"namespace {name}G"]
    out += [f"def «{k}» : Nat := {v}" for k, v in tr.groupdict.items()]
    out += [f"end {name}G", ""]
    return out


# ---- the same entry points on CPython, rendered as the drivers render them ----------------------------------


def hexs(s: str) -> str:
    return s.encode("ascii").hex()


def show_match(m, start=None) -> str:
    """`none` | `ok <start> <end> <g1>,<g2>,…` (groups: N | s<hex>)"""
    if m is None:
        return "none"
    gs = ",".join("N" if g is None else "s" + hexs(g) for g in m.groups())
    return f"ok {m.start()} {m.end()} {gs}"


def cpython_eval(compiled, mode: str, s: str) -> str:
    m = {"m": compiled.match, "f": compiled.fullmatch, "s": compiled.search}[mode](s)
    return show_match(m)
