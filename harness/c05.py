"""C05 — charge/multiplicity completion: correspondence (model vs implementation) + property oracle."""
from __future__ import annotations

import contextlib
import io
import itertools
import os

import numpy as np

from common import Ctx, Finding, Outcome, err_class

PROPERTY = "C05"
LEAN_TARGETS = ["QcelVerif.Props.C05", "QcelVerif.Driver.C05"]
DRIVER = "QcelVerif/Driver/C05.lean"
THEOREMS = [
    ("QcelVerif.ChgMult.rulesOk_iff_Rules", "the model's executable rule predicate R1-R9 is equivalent to the property's rules (Rules)"),
    ("QcelVerif.ChgMult.vfc_sound", "vfc i = ok o -> Rules (effective i) o   (any fragment count, any electron counts)"),
    ("QcelVerif.ChgMult.vfc_sound_plain", "zero_ghost_fragments=False: vfc i = ok o -> Rules i o (every supplied value kept)"),
    ("QcelVerif.ChgMult.vfc_error_is_validation", "on well-formed input: either a sound answer or ValidationError, nothing else"),
    ("QcelVerif.ChgMult.vfc_deterministic", "same input, same answer (model is a function)"),
    ("QcelVerif.ChgMult.vfc_accepts_valid_full", "a fully specified assignment obeying Rules is returned as is"),
    ("QcelVerif.ChgMult.vfc_idem", "vfc i = ok o -> vfc (specifiedBy i o) = ok o (same flag), including the ghost rewriting branch"),
    ("QcelVerif.ChgMult.vfc_default", "nothing specified, electron counts >= 0 -> neutral, fm_k = 1 + z_k mod 2, m = high-spin sum"),
]
TRUSTED_BASE = [
    "Lean 4.33 kernel; axioms per theorem audited on every run (subset of propext, Classical.choice, Quot.sound)",
    "hand-written model Model/ChgMult.lean of chgmult.py:299-556 (integer scope), tied by differential correspondence on the generated stream",
    "harness/c05.py generators and the Python oracle",
    "numpy np.split / np.sum semantics are folded into the model as list split / integer sum",
]
ASSUMPTIONS = [
    "integer electron counts, charges and multiplicities (the property's scope); fractional charges are outside the model",
    "list arguments have one entry per fragment (from_arrays guarantees it)",
]
LEVEL_TEXT = (
    "proof. Every clause of the property is a theorem about the model for any number of fragments and any electron counts (soundness w.r.t. the "
    "rules, refusal instead of a violating answer, acceptance of valid full specifications, idempotence including the ghost-rewriting branch, "
    "the default for an unspecified input); the model is tied to chgmult.py by exhaustive (1 fragment) and sampled (2-4 fragments) differential "
    "correspondence, directly and through from_arrays, plus an independent Python statement of the rules evaluated on every answer."
)
TECHNIQUE = "Lean 4 proofs by list induction / first-match search lemmas over a hand-written model + line-protocol correspondence + rule oracle"
RULE = (
    "cases = (per-fragment zeff lists, c, fc[], m, fm[], zero_ghost_fragments); exhaustive blocks for 1 fragment over "
    "z in 0..ZMAX, c/fc in {None,-3..3}, m/fm in {None,1..6}; 2 fragments exhaustive over a smaller scope (thorough) or sampled; "
    "3-4 fragments sampled; plus a malformed-multiplicity stream (0, negative, float-typed). A case is distinct by its full "
    "input tuple and non-trivial when at least one slot is unspecified or the outcome is an error."
)

_devnull = io.StringIO()


def call_impl(frags, c, fc, m, fm, zgf):
    from qcelemental.molparse.chgmult import validate_and_fill_chgmult

    zeff = np.array([z for f in frags for z in f], dtype=float)
    seps = np.cumsum([len(f) for f in frags])[:-1]
    buf = io.StringIO()
    try:
        with contextlib.redirect_stdout(buf):
            r = validate_and_fill_chgmult(zeff, seps, c, list(fc), m, list(fm), zero_ghost_fragments=zgf)
    except Exception as e:  # noqa
        return ("err", err_class(e))
    return ("ok", r)


def canon_impl(res):
    if res[0] == "err":
        return "err " + res[1]
    r = res[1]

    def i(x):
        xf = float(x)
        return str(int(xf)) if xf == int(xf) else repr(xf)

    return "ok {} {} {} {}".format(
        i(r["molecular_charge"]),
        ",".join(i(x) for x in r["fragment_charges"]),
        i(r["molecular_multiplicity"]),
        ",".join(i(x) for x in r["fragment_multiplicities"]),
    )


def enc(case):
    frags, c, fc, m, fm, zgf = case

    def o(x):
        return "N" if x is None else str(int(x))

    return "|".join(
        [
            ";".join(",".join(str(int(z)) for z in f) for f in frags),
            o(c),
            " ".join(o(x) for x in fc),
            o(m),
            " ".join(o(x) for x in fm),
            "1" if zgf else "0",
        ]
    )


def oracle(case, res):
    """Independent statement of the property on the implementation's answer. Returns list of complaint strings."""
    frags, c, fc, m, fm, zgf = case
    bad = []
    if res[0] == "err":
        if res[1] != "Validation":
            bad.append(f"raised {res[1]} instead of ValidationError")
        return bad
    r = res[1]
    oc, ofc, om, ofm = r["molecular_charge"], r["fragment_charges"], r["molecular_multiplicity"], r["fragment_multiplicities"]
    nfr = len(frags)
    ghost = [all(z == 0 for z in f) for f in frags]
    if len(ofc) != nfr or len(ofm) != nfr:
        return ["wrong number of fragment entries"]
    rewritten = zgf and any(ghost)
    # supplied values kept (zero_ghost_fragments documents that totals and ghost slots are overridden)
    if not rewritten:
        if c is not None and oc != c:
            bad.append("supplied total charge not kept")
        if m is not None and om != m:
            bad.append("supplied total multiplicity not kept")
    for k in range(nfr):
        if rewritten and ghost[k]:
            continue
        if fc[k] is not None and ofc[k] != fc[k]:
            bad.append(f"supplied fragment charge {k} not kept")
        if fm[k] is not None and ofm[k] != fm[k]:
            bad.append(f"supplied fragment multiplicity {k} not kept")
    if oc != sum(ofc):
        bad.append("total charge is not the sum of fragment charges")
    for x in [om] + list(ofm):
        if not (isinstance(x, (int, np.integer)) and not isinstance(x, bool) and x >= 1):
            bad.append(f"multiplicity {x!r} is not a positive integer")
            return bad
    zt = sum(sum(f) for f in frags)
    if om - 1 > zt - oc:
        bad.append("not enough electrons for total multiplicity")
    if (om + zt - oc) % 2 != 1:
        bad.append("wrong parity for the system")
    for k, f in enumerate(frags):
        z = sum(f)
        if ofm[k] - 1 > z - ofc[k]:
            bad.append(f"not enough electrons in fragment {k}")
        if (ofm[k] + z - ofc[k]) % 2 != 1:
            bad.append(f"wrong parity in fragment {k}")
        if ghost[k] and (ofc[k] != 0 or ofm[k] != 1):
            bad.append(f"ghost fragment {k} is not a neutral singlet")
    em = None if rewritten else m
    efm = [(1 if (rewritten and ghost[k]) else fm[k]) for k in range(nfr)]
    if (em is None or any(x is None for x in efm)) and om != 1 + sum(x - 1 for x in ofm):
        bad.append("not high-spin although total and all fragment multiplicities were not all given")
    return bad


def rules_hold_full(frags, c, fc, m, fm):
    """Does a *fully specified* assignment obey the rules (for the accept-as-is clause)?"""
    fake = ("ok", {"molecular_charge": c, "fragment_charges": fc, "molecular_multiplicity": m, "fragment_multiplicities": fm})
    return not oracle((frags, c, fc, m, fm, False), fake)


def gen_cases(ctx: Ctx):
    rng = ctx.rng
    CH = [None, -3, -2, -1, 0, 1, 2, 3]
    MU = [None, 1, 2, 3, 4, 5, 6]
    # --- block A: 1 fragment, exhaustive over small z (quick) / z in 0..20 (thorough)
    zs = range(0, 21) if ctx.thorough else [0, 1, 2, 3, 4, 7, 10, 20]
    for z in zs:
        for c, fc, m, fm in itertools.product(CH, CH, MU, MU):
            for zgf in (False, True) if z == 0 else (False,):
                yield "A1", ([[z]], c, [fc], m, [fm], zgf)
    # split the same electron count over several atoms, incl. ghost atoms inside a real fragment
    for _ in range(ctx.scale(300, 3000)):
        z = rng.randint(0, 20)
        a = rng.randint(0, z)
        f = [a, z - a] + ([0] if rng.random() < 0.3 else [])
        rng.shuffle(f)
        yield "A2", ([f], rng.choice(CH), [rng.choice(CH)], rng.choice(MU), [rng.choice(MU)], rng.random() < 0.3)
    # --- block B: 2 fragments
    if ctx.thorough:
        for z1, z2 in itertools.product(range(0, 5), repeat=2):
            for c, f1, f2 in itertools.product([None, -2, -1, 0, 1, 2], repeat=3):
                for m, g1, g2 in itertools.product([None, 1, 2, 3, 4], repeat=3):
                    yield "B1", ([[z1], [z2]], c, [f1, f2], m, [g1, g2], False)
    nb = ctx.scale(12000, 60000)
    for _ in range(nb):
        z1, z2 = rng.choice([0, 0, 1, 2, 3, 6, 7, 8, 10, 11, 20]), rng.randint(0, 20)
        zz = [z1, z2]
        rng.shuffle(zz)
        yield "B2", (
            [[zz[0]], [zz[1]]],
            rng.choice(CH),
            [rng.choice(CH), rng.choice(CH)],
            rng.choice(MU),
            [rng.choice(MU), rng.choice(MU)],
            rng.random() < 0.25,
        )
    # --- block C: 3-4 fragments sampled, biased towards mostly-unspecified (satisfiable) inputs
    for _ in range(ctx.scale(6000, 40000)):
        n = rng.choice([3, 3, 4])
        frags = []
        for _k in range(n):
            if rng.random() < 0.2:
                frags.append([0] * rng.randint(1, 2))
            else:
                frags.append([rng.randint(1, 20)] + ([0] if rng.random() < 0.15 else []))
        pn = rng.choice([0.9, 0.7, 0.4])

        def pick(vals):
            return None if rng.random() < pn else rng.choice(vals)

        yield "C", (
            frags,
            pick(CH[1:]),
            [pick(CH[1:]) for _ in range(n)],
            pick(MU[1:]),
            [pick(MU[1:]) for _ in range(n)],
            rng.random() < 0.2,
        )
    # --- block E: the same arguments with zero_ghost_fragments on then off (and off then on): nothing may be carried
    #     from one call to the next (ghost-containing systems of 2-4 fragments, incl. mixed real/ghost fragments)
    for _ in range(ctx.scale(1500, 10000)):
        n = rng.choice([2, 3, 3, 4])
        frags = []
        for _k in range(n):
            r = rng.random()
            if r < 0.3:
                frags.append([0] * rng.randint(1, 2))
            elif r < 0.45:
                f = [0, rng.randint(1, 10)] + ([rng.randint(1, 4)] if rng.random() < 0.4 else [])
                rng.shuffle(f)
                frags.append(f)
            else:
                frags.append([rng.randint(1, 12)])
        pn = rng.choice([0.8, 0.5])

        def pick2(vals):
            return None if rng.random() < pn else rng.choice(vals)

        c, fc = pick2(CH[1:]), [pick2(CH[1:]) for _ in range(n)]
        m, fm = pick2(MU[1:]), [pick2(MU[1:]) for _ in range(n)]
        first = rng.random() < 0.5
        yield "E", (frags, c, fc, m, fm, first)
        yield "E", (frags, c, fc, m, fm, not first)
    # --- block D: multiplicity screen (0, negative) — integers only so that the model applies
    for _ in range(ctx.scale(800, 4000)):
        n = rng.choice([1, 2, 3])
        frags = [[rng.randint(0, 12)] for _ in range(n)]
        badm = [None, 0, -1, -3, 1, 2]
        yield "D", (frags, rng.choice(CH), [rng.choice(CH) for _ in range(n)], rng.choice(badm), [rng.choice(badm) for _ in range(n)], False)


def check_case(ctx, out: Outcome, block, case, model_line):
    frags, c, fc, m, fm, zgf = case
    res = call_impl(*case)
    out.evaluations += 1
    out.count("block:" + block)
    ci = canon_impl(res)
    out.count("outcome:" + ci.split()[0] + (":" + ci.split()[1] if ci.startswith("err") else ""))
    unspecified = (c is None) or (m is None) or any(x is None for x in fc) or any(x is None for x in fm)
    if unspecified or res[0] == "err":
        out.nontrivial(enc(case))
    out.sample({"input": enc(case), "impl": ci, "model": model_line})
    # --- property oracle on the implementation
    for msg in oracle(case, res):
        out.violations.append(Finding("oracle:rules", {"case": enc(case)}, observed=ci, detail=msg))
    if res[0] == "ok":
        r = res[1]
        # determinism
        if canon_impl(call_impl(*case)) != ci:
            out.violations.append(Finding("oracle:determinism", {"case": enc(case)}, observed=ci, detail="second call differs"))
        # fed back unchanged
        back = (frags, r["molecular_charge"], list(r["fragment_charges"]), r["molecular_multiplicity"], list(r["fragment_multiplicities"]), zgf)
        cb = canon_impl(call_impl(*back))
        if cb != ci:
            out.violations.append(Finding("oracle:idempotence", {"case": enc(case)}, observed=cb, expected=ci, detail="completed assignment fed back is not returned unchanged"))
    # accept-as-is for valid full specifications
    if not unspecified and not zgf and rules_hold_full(frags, c, fc, m, fm):
        out.count("valid_full_spec")
        exp = "ok {} {} {} {}".format(c, ",".join(map(str, fc)), m, ",".join(map(str, fm)))
        if ci != exp:
            out.violations.append(Finding("oracle:accept_valid_full", {"case": enc(case)}, observed=ci, expected=exp, detail="a fully specified rule-abiding assignment is not accepted as is"))
    # default
    if c is None and m is None and all(x is None for x in fc) and all(x is None for x in fm):
        out.count("nothing_specified")
        dfm = [1 + (sum(f) % 2) for f in frags]
        exp = "ok 0 {} {} {}".format(",".join("0" for _ in frags), 1 + sum(x - 1 for x in dfm), ",".join(map(str, dfm)))
        if ci != exp:
            out.violations.append(Finding("oracle:default", {"case": enc(case)}, observed=ci, expected=exp, detail="nothing specified but result is not neutral/lowest multiplicity"))
    # --- correspondence
    if model_line is not None and model_line != ci:
        out.mismatches.append(Finding("mismatch", {"case": enc(case)}, observed=ci, expected=model_line, detail="implementation vs Lean model"))


def float_typed_stream(ctx, out: Outcome):
    """Float-typed integers must behave like integers (implementation-only oracle).
    Non-integer multiplicities are outside the property's quantifier and are not generated."""
    rng = ctx.rng
    for _ in range(ctx.scale(300, 2000)):
        n = rng.choice([1, 2])
        frags = [[rng.randint(0, 10)] for _ in range(n)]
        c = rng.choice([None, -1, 0, 1])
        fc = [rng.choice([None, -1, 0, 1]) for _ in range(n)]
        m = rng.choice([None, 1, 2, 3])
        fm = [rng.choice([None, 1, 2, 3]) for _ in range(n)]
        f = lambda x: None if x is None else float(x)  # noqa
        a = canon_impl(call_impl(frags, c, fc, m, fm, False))
        b = canon_impl(call_impl(frags, f(c), [f(x) for x in fc], f(m), [f(x) for x in fm], False))
        out.evaluations += 1
        out.count("float_typed")
        if a != b:
            out.violations.append(Finding("oracle:float_typed", {"case": enc((frags, c, fc, m, fm, False))}, observed=b, expected=a, detail="float-typed integers change the answer"))


def through_from_arrays(ctx, out: Outcome):
    """The caller passes Z*real as electron counts (from_arrays.py:379-392)."""
    import qcelemental as qcel

    rng = ctx.rng
    for _ in range(ctx.scale(300, 2500)):
        n = rng.choice([1, 2, 3])
        zs, real, seps = [], [], []
        frags = []
        for k in range(n):
            na = rng.randint(1, 2)
            f = []
            for _a in range(na):
                z = rng.randint(1, 18)
                rl = rng.random() > 0.25
                zs.append(z)
                real.append(rl)
                f.append(z if rl else 0)
            frags.append(f)
            seps.append(len(zs))
        seps = seps[:-1]
        geom = [[3.0 * i, 0.1 * i, 0.0] for i in range(len(zs))]
        c = rng.choice([None, None, -1, 0, 1])
        fc = [rng.choice([None, None, -1, 0, 1]) for _ in range(n)]
        m = rng.choice([None, None, 1, 2, 3])
        fm = [rng.choice([None, None, 1, 2, 3]) for _ in range(n)]
        direct = canon_impl(call_impl(frags, c, fc, m, fm, False))
        try:
            with contextlib.redirect_stdout(io.StringIO()):
                rec = qcel.molparse.from_arrays(
                    geom=np.array(geom), elez=zs, real=real, fragment_separators=seps, molecular_charge=c,
                    fragment_charges=fc, molecular_multiplicity=m, fragment_multiplicities=fm, units="Bohr",
                )
            via = canon_impl(("ok", rec))
        except Exception as e:  # noqa
            via = "err " + err_class(e)
        out.evaluations += 1
        out.count("via_from_arrays")
        if via != direct:
            out.violations.append(
                Finding("oracle:from_arrays_zeff", {"elez": zs, "real": real, "seps": seps, "c": c, "fc": fc, "m": m, "fm": fm},
                        observed=via, expected=direct, detail="from_arrays does not complete chg/mult as validate_and_fill_chgmult does on Z*real"))


def route_cases_through_from_arrays(ctx, out: Outcome, cases):
    """Send a sample of the *same* generated cases through from_arrays (each electron count z becomes one real atom of
    atomic number z, each 0 a ghost atom), so that anything the caller does to the specification before or after
    validate_and_fill_chgmult (from_arrays.py:379-392) shows up as a difference from the direct call."""
    import qcelemental as qcel

    rng = ctx.rng
    pool = [c for b, c in cases if b in ("B2", "C", "A2") and not c[5] and all(0 <= z <= 110 for f in c[0] for z in f)]
    rng.shuffle(pool)
    for case in pool[: ctx.scale(4000, 30000)]:
        frags, c, fc, m, fm, _ = case
        zs = [z if z > 0 else 2 for f in frags for z in f]
        real = [z > 0 for f in frags for z in f]
        seps = list(np.cumsum([len(f) for f in frags])[:-1])
        geom = [[3.0 * i, 0.25 * i, 0.0] for i in range(len(zs))]
        direct = canon_impl(call_impl(frags, c, fc, m, fm, False))
        try:
            with contextlib.redirect_stdout(io.StringIO()):
                rec = qcel.molparse.from_arrays(
                    geom=np.array(geom), elez=zs, real=real, fragment_separators=seps, molecular_charge=c,
                    fragment_charges=list(fc), molecular_multiplicity=m, fragment_multiplicities=list(fm), units="Bohr",
                )
            via = canon_impl(("ok", rec))
        except Exception as e:  # noqa
            via = "err " + err_class(e)
        out.evaluations += 1
        out.count("routed_through_from_arrays")
        if via != direct:
            bad = oracle(case, ("ok", rec)) if via.startswith("ok") else ["from_arrays refuses a specification that validate_and_fill_chgmult completes"]
            out.violations.append(
                Finding("oracle:from_arrays_route", {"case": enc(case), "route": "from_arrays"}, observed=via, expected=direct,
                        detail="from_arrays(Z*real) differs from validate_and_fill_chgmult on the same specification" + ("; rules broken: " + "; ".join(bad) if bad else "")))


def run(ctx: Ctx) -> Outcome:
    out = Outcome()
    cases = list(gen_cases(ctx))
    model = [None] * len(cases)
    if ctx.model_available:
        model = ctx.run_model(DRIVER, [enc(c) for _, c in cases])
    for (block, case), ml in zip(cases, model):
        check_case(ctx, out, block, case, ml)
    float_typed_stream(ctx, out)
    through_from_arrays(ctx, out)
    route_cases_through_from_arrays(ctx, out, cases)
    out.exhaustive = False
    out.notes.append("block A1 is exhaustive over its stated scope; blocks A2,B2,C,D sampled from VERIF_SEED")
    return out


def replay(ctx: Ctx, case) -> Outcome:
    out = Outcome()
    line = case["case"] if isinstance(case, dict) and "case" in case else case
    if isinstance(line, dict):  # from_arrays route
        return run(ctx)
    fr, c, fc, m, fm, z = line.split("|")
    o = lambda s: None if s.strip() == "N" else int(s)  # noqa
    cs = ([[int(x) for x in f.split(",") if x] for f in fr.split(";")], o(c), [o(x) for x in fc.split()], o(m), [o(x) for x in fm.split()], z.strip() == "1")
    ml = ctx.run_model(DRIVER, [enc(cs)])[0] if ctx.model_available else None
    check_case(ctx, out, "replay", cs, ml)
    if isinstance(case, dict) and case.get("route") == "from_arrays":
        ctx.rng.shuffle = lambda x: None  # keep the single case
        route_cases_through_from_arrays(ctx, out, [("B2", cs)])
    return out
