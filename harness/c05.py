"""C05 — charge/multiplicity completion: correspondence (model vs implementation) + property oracle."""
from __future__ import annotations

import contextlib
import io
import itertools
import os

import numpy as np

from common import Ctx, Finding, Outcome, err_class
import c05_src

PROPERTY = "C05"
LEAN_TARGETS = ["QcelVerif.Props.C05", "QcelVerif.Driver.C05",
                # source-derived procedure: expression language + evaluator, the terms regenerated from chgmult.py, vfcSrc, lemmas, theorems
                "QcelVerif.Model.ChgMultAst", "QcelVerif.Gen.ChgMultSrc", "QcelVerif.Model.ChgMultSrc", "QcelVerif.Lemmas.ChgMultAst", "QcelVerif.Props.C05Src",
                # full specifications: never altered, accepted iff the rules hold (both procedures)
                "QcelVerif.Props.C05Full"]
DRIVER = "QcelVerif/Driver/C05.lean"
# lean/QcelVerif/Gen/ChgMultSrc.lean <- chgmult.py (rule lambdas with guards/loops, candidate-list statements, product order), by `ast`, every run
TRANSLATORS = [c05_src.gen_chgmult_src]
THEOREMS = [
    ("QcelVerif.ChgMult.rulesOk_iff_Rules", "the model's executable rule predicate R1-R9 is equivalent to the property's rules (Rules)"),
    ("QcelVerif.ChgMult.vfc_sound", "vfc i = ok o -> Rules (effective i) o   (any fragment count, any electron counts)"),
    ("QcelVerif.ChgMult.vfc_sound_plain", "zero_ghost_fragments=False: vfc i = ok o -> Rules i o (every supplied value kept)"),
    ("QcelVerif.ChgMult.vfc_error_is_validation", "on well-formed input: either a sound answer or ValidationError, nothing else"),
    ("QcelVerif.ChgMult.vfc_deterministic", "same input, same answer (model is a function)"),
    ("QcelVerif.ChgMult.vfc_accepts_valid_full", "a fully specified assignment obeying Rules is returned as is"),
    ("QcelVerif.ChgMult.vfc_idem", "vfc i = ok o -> vfc (specifiedBy i o) = ok o (same flag), including the ghost rewriting branch"),
    ("QcelVerif.ChgMult.vfc_default", "nothing specified, electron counts >= 0 -> neutral, fm_k = 1 + z_k mod 2, m = high-spin sum"),
    # --- the decision logic regenerated from chgmult.py (Gen/ChgMultSrc.lean) is the hand model's (Props/C05Src.lean)
    ("QcelVerif.ChgMult.rules_src_eq_model", "[regenerated from chgmult.py] for every specification and every candidate with one entry per fragment: the rule lambdas translated from the source "
     "(R1-R9 with their `if` guards, the per-fragment ones for every fragment index) evaluate without raising to exactly the model's rulesOk - any fragment count"),
    ("QcelVerif.ChgMult.ranges_src_eq_model", "[regenerated from chgmult.py] for every specification with one entry per fragment: the candidate append/range statements translated from the source "
     "(S1-S7, in source order, per fragment for every index) evaluate without raising to exactly the model's candC, candFc, candM, candFm"),
    ("QcelVerif.ChgMult.order_src_eq_model", "[regenerated from chgmult.py] reconcile's itertools.product takes (total charge, fragment charges, total multiplicity, fragment multiplicities) in that "
     "order, each through unique_everseen - the order the lambdas take them in and the model's"),
    ("QcelVerif.ChgMult.vfcSrc_eq_vfc", "vfcSrc (first passing candidate of the generated ranges under the generated rules) = vfc on every input"),
    ("QcelVerif.ChgMult.vfcSrcLazy_eq_vfc", "the variant that stops assessing a candidate at its first failing rule (the one the driver runs on every case line) = vfc on every input as well"),
    ("QcelVerif.ChgMult.vfc_sound_src", "vfcSrc i = ok o -> Rules (effective i) o"),
    ("QcelVerif.ChgMult.vfc_sound_plain_src", "zero_ghost_fragments=False: vfcSrc i = ok o -> Rules i o"),
    ("QcelVerif.ChgMult.vfc_error_is_validation_src", "well-formed input: vfcSrc gives a sound answer or ValidationError (no evaluation of a source rule/range raises)"),
    ("QcelVerif.ChgMult.vfc_deterministic_src", "vfcSrc is a function of its input"),
    ("QcelVerif.ChgMult.vfc_accepts_valid_full_src", "a fully specified assignment obeying Rules is returned as is by vfcSrc"),
    ("QcelVerif.ChgMult.vfc_idem_src", "vfcSrc i = ok o -> vfcSrc (specifiedBy i o) = ok o"),
    ("QcelVerif.ChgMult.vfc_default_src", "nothing specified, electron counts >= 0 -> vfcSrc gives the neutral / lowest-multiplicity default"),
    # --- full specifications (Props/C05Full.lean): the converse of vfc_accepts_valid_full and "keeps every supplied value" put together
    ("QcelVerif.ChgMult.vfc_full_returns_input", "zero_ghost_fragments=False: whatever vfc returns on a fully specified input IS that input (any fragment count) - it can be refused, never changed"),
    ("QcelVerif.ChgMult.vfc_full_iff", "a fully specified assignment is returned iff it obeys Rules"),
    ("QcelVerif.ChgMult.vfc_full_rejects_invalid", "a well-formed fully specified assignment that breaks a rule raises ValidationError (neither returned nor repaired)"),
    ("QcelVerif.ChgMult.vfc_full_returns_input_src", "[regenerated from chgmult.py] the same of vfcSrc"),
    ("QcelVerif.ChgMult.vfc_full_iff_src", "[regenerated from chgmult.py] the same of vfcSrc"),
    ("QcelVerif.ChgMult.vfc_full_rejects_invalid_src", "[regenerated from chgmult.py] the same of vfcSrc"),
]
TRUSTED_BASE = [
    "Lean 4.33 kernel; axioms per theorem audited on every run (subset of propext, Classical.choice, Quot.sound)",
    "rules R1-R9 (lambdas, guards, loops) and candidate lists S1-S7 (statements, order) of the model are PROVED equal to their translation from chgmult.py, regenerated by "
    "harness/c05_src.py (ast) on every run; trusted there: the translator itself (Python ast -> expression terms; fails loudly on any node it does not know; locals and helper "
    "functions _parity_ok/_sufficient_electrons_for_mult/_mult_ok/_high_spin_sum/_apply_default are inlined from their own source), the evaluator Model/ChgMultAst.lean as the "
    "meaning of those terms (Python int arithmetic, floored %, lazy and/or/all/any, IndexError etc. as failure; integer scope: integral float literals are integers, isinstance(int) true), "
    "tied additionally by the three-way run (implementation / hand model / source-derived procedure on every case) and by diffing the generated candidate lists against the lists the "
    "implementation itself logs (verbose=2) on a sample",
    "still hand-written and tied only by differential correspondence: the early multiplicity screen (chgmult.py:309-314), ghost detection and the zero_ghost_fragments rewriting (329-342), "
    "unique_everseen, itertools.product (rightmost fastest), first-match/raise in reconcile (its shape - which lists, which order, all(assessment) - is checked by the translator), "
    "the float()/list() conversions of the return value",
    "harness/c05.py generators and the Python oracle",
    "entry-point routes (from_arrays, from_input_arrays, from_arrays domain qmvz, Molecule(**schema), from_string psi4 text, "
    "Molecule.from_data(text)) are tied to the model only through the direct call: route answer == validate_and_fill_chgmult answer "
    "on Z*real (tested, sampled), direct answer == model (tested); the harness' own translation of a case into atoms / schema / psi4 text",
    "numpy np.split / np.sum semantics are folded into the model as list split / integer sum",
]
ASSUMPTIONS = [
    "integer electron counts, charges and multiplicities (the property's scope); fractional charges are outside the model",
    "list arguments have one entry per fragment (from_arrays guarantees it)",
    "source-derived procedure: same integer scope (a float literal with an integral value is read as the integer, isinstance(x, (int, np.integer)) of an integer expression as True); "
    "the translated region is chgmult.py from the first cgmp_range.append to def reconcile - statements outside the expression language (other operators, slices other than [:], negative "
    "or computed-from-the-end indices, assignments inside loops, an `if` around a fragment loop, late-bound loop variables in a lambda) make the translator fail, which the check reports as "
    "a broken obligation",
    "zero_ghost_fragments=True is reachable only through validate_and_fill_chgmult, from_arrays and from_input_arrays; Molecule, from_schema "
    "and from_string never set it, so those routes are compared with the flag off",
    "text route: psi4 'chg mult' lines carry charge and multiplicity together, so only specifications with (c,m) and each (fc_k,fm_k) both given "
    "or both absent are sent as text; Molecule route: for a ONE-fragment molecule a fragment list with an unspecified entry is not Molecule "
    "input (typed List[float]; pydantic rejects the None) and is left out",
    "known finding (own kind, narrow predicate): Molecule.from_data(text) of a one-fragment system reports the total multiplicity as the "
    "fragment multiplicity when the caller supplied a different one",
]
LEVEL_TEXT = (
    "proof. The model's rule predicate and candidate lists are no longer only a transcription: the rule lambdas (with guards and per-fragment loops) and the candidate statements of "
    "all four search dimensions are regenerated from chgmult.py on every run and PROVED, for every specification and any fragment count, to evaluate to the model's rulesOk and "
    "candC/candFc/candM/candFm, so the source-derived procedure vfcSrc equals vfc and inherits every theorem (partial: the translator and the evaluator's reading of Python are trusted; "
    "screen, ghost rewriting, unique_everseen and product order stay hand-modelled, the last checked for shape). Every clause of the property is a theorem about the model for any number of fragments and any electron counts (soundness w.r.t. the "
    "rules, refusal instead of a violating answer, acceptance of valid full specifications, idempotence including the ghost-rewriting branch, "
    "the default for an unspecified input); the model is tied to chgmult.py by exhaustive (1 fragment) and sampled (2-4 fragments) differential "
    "correspondence, directly and through from_arrays, plus an independent Python statement of the rules evaluated on every answer. "
    "The same rules, the error class, agreement with the direct call, repeat-call determinism on reused argument objects (with a call under the "
    "other flag in between) and feed-back idempotence are also evaluated on a stratified sample of all blocks, both flags, through every public "
    "entry point that completes charges/multiplicities (from_arrays, from_input_arrays, qmvz domain, Molecule, psi4 text); that part is "
    "testing, not proof (partial: sampled)."
)
TECHNIQUE = ("Lean 4 proofs by list induction / first-match search lemmas over a hand-written model + source-to-term translator (ast) with a verified-equal evaluator-based "
             "second procedure + three-way line-protocol correspondence + rule oracle")
RULE = (
    "cases = (per-fragment zeff lists, c, fc[], m, fm[], zero_ghost_fragments); exhaustive blocks for 1 fragment over "
    "z in 0..ZMAX, c/fc in {None,-3..3}, m/fm in {None,1..6}; 2 fragments exhaustive over a smaller scope (thorough) or sampled; "
    "3-4 fragments sampled; plus a malformed-multiplicity stream (0, negative, float-typed); block E = same arguments with the flag on/off; "
    "block G = ghost-rich systems (1-4 fragments, multi-atom ghosts) whose ghost slots and totals are specified so that zero_ghost_fragments "
    "has values to override, each with the flag on and off. A case is distinct by its full "
    "input tuple and non-trivial when at least one slot is unspecified or the outcome is an error. "
    "Route stream: a stratified sample of every block (incl. flag-on cases) is turned into atoms (z>0 -> real atom Z=z, 0 -> ghost atom of "
    "varying Z) and sent, as ONE call sequence sharing the caller's argument objects, in shuffled order through validate_and_fill_chgmult itself, from_arrays, from_input_arrays, "
    "from_arrays(domain='qmvz'), Molecule(**schema) and (when expressible) psi4 text via from_string / Molecule.from_data, in one of four "
    "spellings of the arguments (ints, float-typed, wholly-unspecified lists omitted, numpy/tuple containers); per call: rules, error class, "
    "== direct call, repeat call (optionally after a call with the other flag), completed assignment fed back through the same route. "
    "Every case line goes three ways (implementation, hand model vfc, source-derived procedure with lazily assessed rule list; the fully assessing vfcSrc on a sample); on a sample of all blocks the candidate lists built by the generated statements are "
    "compared with the lists the implementation logs itself under verbose=2."
)

_devnull = io.StringIO()


def call_impl(frags, c, fc, m, fm, zgf):
    from qcelemental.molparse.chgmult import validate_and_fill_chgmult

    zeff = np.array([z for f in frags for z in f], dtype=float)
    seps = np.cumsum([len(f) for f in frags])[:-1]
    buf = io.StringIO()
    try:
        with contextlib.redirect_stdout(buf):
            r = validate_and_fill_chgmult(zeff, seps, c, list(fc), m, list(fm), zero_ghost_fragments=zgf)
    except Exception as e:  # noqa
        return ("err", err_class(e))
    return ("ok", r)


def canon_impl(res):
    if res[0] == "err":
        return "err " + res[1]
    r = res[1]

    def i(x):
        xf = float(x)
        return str(int(xf)) if xf == int(xf) else repr(xf)

    return "ok {} {} {} {}".format(
        i(r["molecular_charge"]),
        ",".join(i(x) for x in r["fragment_charges"]),
        i(r["molecular_multiplicity"]),
        ",".join(i(x) for x in r["fragment_multiplicities"]),
    )


def enc(case):
    frags, c, fc, m, fm, zgf = case

    def o(x):
        return "N" if x is None else str(int(x))

    return "|".join(
        [
            ";".join(",".join(str(int(z)) for z in f) for f in frags),
            o(c),
            " ".join(o(x) for x in fc),
            o(m),
            " ".join(o(x) for x in fm),
            "1" if zgf else "0",
        ]
    )


def dec(line):
    fr, c, fc, m, fm, z = line.split("|")
    o = lambda s: None if s.strip() == "N" else int(s)  # noqa
    return ([[int(x) for x in f.split(",") if x] for f in fr.split(";")], o(c), [o(x) for x in fc.split()], o(m), [o(x) for x in fm.split()], z.strip() == "1")


def oracle(case, res):
    """Independent statement of the property on the implementation's answer. Returns list of complaint strings."""
    frags, c, fc, m, fm, zgf = case
    bad = []
    if res[0] == "err":
        if res[1] != "Validation":
            bad.append(f"raised {res[1]} instead of ValidationError")
        return bad
    r = res[1]
    oc, ofc, om, ofm = r["molecular_charge"], r["fragment_charges"], r["molecular_multiplicity"], r["fragment_multiplicities"]
    nfr = len(frags)
    ghost = [all(z == 0 for z in f) for f in frags]
    if len(ofc) != nfr or len(ofm) != nfr:
        return ["wrong number of fragment entries"]
    rewritten = zgf and any(ghost)
    # supplied values kept (zero_ghost_fragments documents that totals and ghost slots are overridden)
    if not rewritten:
        if c is not None and oc != c:
            bad.append("supplied total charge not kept")
        if m is not None and om != m:
            bad.append("supplied total multiplicity not kept")
    for k in range(nfr):
        if rewritten and ghost[k]:
            continue
        if fc[k] is not None and ofc[k] != fc[k]:
            bad.append(f"supplied fragment charge {k} not kept")
        if fm[k] is not None and ofm[k] != fm[k]:
            bad.append(f"supplied fragment multiplicity {k} not kept")
    if oc != sum(ofc):
        bad.append("total charge is not the sum of fragment charges")
    for x in [om] + list(ofm):
        if not (isinstance(x, (int, np.integer)) and not isinstance(x, bool) and x >= 1):
            bad.append(f"multiplicity {x!r} is not a positive integer")
            return bad
    zt = sum(sum(f) for f in frags)
    if om - 1 > zt - oc:
        bad.append("not enough electrons for total multiplicity")
    if (om + zt - oc) % 2 != 1:
        bad.append("wrong parity for the system")
    for k, f in enumerate(frags):
        z = sum(f)
        if ofm[k] - 1 > z - ofc[k]:
            bad.append(f"not enough electrons in fragment {k}")
        if (ofm[k] + z - ofc[k]) % 2 != 1:
            bad.append(f"wrong parity in fragment {k}")
        if ghost[k] and (ofc[k] != 0 or ofm[k] != 1):
            bad.append(f"ghost fragment {k} is not a neutral singlet")
    em = None if rewritten else m
    efm = [(1 if (rewritten and ghost[k]) else fm[k]) for k in range(nfr)]
    if (em is None or any(x is None for x in efm)) and om != 1 + sum(x - 1 for x in ofm):
        bad.append("not high-spin although total and all fragment multiplicities were not all given")
    return bad


def rules_hold_full(frags, c, fc, m, fm):
    """Does a *fully specified* assignment obey the rules (for the accept-as-is clause)?"""
    fake = ("ok", {"molecular_charge": c, "fragment_charges": fc, "molecular_multiplicity": m, "fragment_multiplicities": fm})
    return not oracle((frags, c, fc, m, fm, False), fake)


def gen_cases(ctx: Ctx):
    rng = ctx.rng
    CH = [None, -3, -2, -1, 0, 1, 2, 3]
    MU = [None, 1, 2, 3, 4, 5, 6]
    # --- block A: 1 fragment, exhaustive over small z (quick) / z in 0..20 (thorough)
    zs = range(0, 21) if ctx.thorough else [0, 1, 2, 3, 4, 7, 10, 20]
    for z in zs:
        for c, fc, m, fm in itertools.product(CH, CH, MU, MU):
            for zgf in (False, True) if z == 0 else (False,):
                yield "A1", ([[z]], c, [fc], m, [fm], zgf)
    # split the same electron count over several atoms, incl. ghost atoms inside a real fragment
    for _ in range(ctx.scale(300, 3000)):
        z = rng.randint(0, 20)
        a = rng.randint(0, z)
        f = [a, z - a] + ([0] if rng.random() < 0.3 else [])
        rng.shuffle(f)
        yield "A2", ([f], rng.choice(CH), [rng.choice(CH)], rng.choice(MU), [rng.choice(MU)], rng.random() < 0.3)
    # --- block B: 2 fragments
    if ctx.thorough:
        for z1, z2 in itertools.product(range(0, 5), repeat=2):
            for c, f1, f2 in itertools.product([None, -2, -1, 0, 1, 2], repeat=3):
                for m, g1, g2 in itertools.product([None, 1, 2, 3, 4], repeat=3):
                    yield "B1", ([[z1], [z2]], c, [f1, f2], m, [g1, g2], False)
    nb = ctx.scale(12000, 60000)
    for _ in range(nb):
        z1, z2 = rng.choice([0, 0, 1, 2, 3, 6, 7, 8, 10, 11, 20]), rng.randint(0, 20)
        zz = [z1, z2]
        rng.shuffle(zz)
        yield "B2", (
            [[zz[0]], [zz[1]]],
            rng.choice(CH),
            [rng.choice(CH), rng.choice(CH)],
            rng.choice(MU),
            [rng.choice(MU), rng.choice(MU)],
            rng.random() < 0.25,
        )
    # --- block C: 3-4 fragments sampled, biased towards mostly-unspecified (satisfiable) inputs
    for _ in range(ctx.scale(6000, 40000)):
        n = rng.choice([3, 3, 4])
        frags = []
        for _k in range(n):
            if rng.random() < 0.2:
                frags.append([0] * rng.randint(1, 2))
            else:
                frags.append([rng.randint(1, 20)] + ([0] if rng.random() < 0.15 else []))
        pn = rng.choice([0.9, 0.7, 0.4])

        def pick(vals):
            return None if rng.random() < pn else rng.choice(vals)

        yield "C", (
            frags,
            pick(CH[1:]),
            [pick(CH[1:]) for _ in range(n)],
            pick(MU[1:]),
            [pick(MU[1:]) for _ in range(n)],
            rng.random() < 0.2,
        )
    # --- block E: the same arguments with zero_ghost_fragments on then off (and off then on): nothing may be carried
    #     from one call to the next (ghost-containing systems of 2-4 fragments, incl. mixed real/ghost fragments)
    for _ in range(ctx.scale(1500, 10000)):
        n = rng.choice([2, 3, 3, 4])
        frags = []
        for _k in range(n):
            r = rng.random()
            if r < 0.3:
                frags.append([0] * rng.randint(1, 2))
            elif r < 0.45:
                f = [0, rng.randint(1, 10)] + ([rng.randint(1, 4)] if rng.random() < 0.4 else [])
                rng.shuffle(f)
                frags.append(f)
            else:
                frags.append([rng.randint(1, 12)])
        pn = rng.choice([0.8, 0.5])

        def pick2(vals):
            return None if rng.random() < pn else rng.choice(vals)

        c, fc = pick2(CH[1:]), [pick2(CH[1:]) for _ in range(n)]
        m, fm = pick2(MU[1:]), [pick2(MU[1:]) for _ in range(n)]
        first = rng.random() < 0.5
        yield "E", (frags, c, fc, m, fm, first)
        yield "E", (frags, c, fc, m, fm, not first)
    # --- block D: multiplicity screen (0, negative) — integers only so that the model applies
    for _ in range(ctx.scale(800, 4000)):
        n = rng.choice([1, 2, 3])
        frags = [[rng.randint(0, 12)] for _ in range(n)]
        badm = [None, 0, -1, -3, 1, 2]
        yield "D", (frags, rng.choice(CH), [rng.choice(CH) for _ in range(n)], rng.choice(badm), [rng.choice(badm) for _ in range(n)], False)
    # --- block G: ghost-rich systems whose ghost slots and totals ARE specified (so that zero_ghost_fragments really has
    #     something to override), 1-4 fragments, single- and multi-atom ghosts, each with the flag on and off
    for _ in range(ctx.scale(1500, 10000)):
        n = rng.choice([1, 2, 2, 3, 3, 4])
        frags = []
        for _k in range(n):
            r = rng.random()
            if r < 0.45:
                frags.append([0] * rng.randint(1, 3))
            elif r < 0.6:
                f = [0, rng.randint(1, 10)]
                rng.shuffle(f)
                frags.append(f)
            else:
                frags.append([rng.randint(1, 20)])
        if all(any(z for z in f) for f in frags):
            frags[rng.randrange(n)] = [0]
        pg, pr = rng.choice([0.2, 0.5]), rng.choice([0.9, 0.6])  # P(unspecified) on ghost / real slots

        def pick3(vals, ghost):
            return None if rng.random() < (pg if ghost else pr) else rng.choice(vals)

        gh = [all(z == 0 for z in f) for f in frags]
        c = None if rng.random() < 0.5 else rng.choice(CH[1:])
        m = None if rng.random() < 0.6 else rng.choice(MU[1:])
        fc = [pick3([-2, -1, 0, 0, 1, 2, 3], gh[k]) for k in range(n)]
        fm = [pick3([1, 1, 2, 3, 4], gh[k]) for k in range(n)]
        first = rng.random() < 0.7
        yield "G", (frags, c, fc, m, fm, first)
        yield "G", (frags, c, fc, m, fm, not first)


def check_case(ctx, out: Outcome, block, case, model_line, src_line=None):
    frags, c, fc, m, fm, zgf = case
    res = call_impl(*case)
    out.evaluations += 1
    out.count("block:" + block)
    ci = canon_impl(res)
    out.count("outcome:" + ci.split()[0] + (":" + ci.split()[1] if ci.startswith("err") else ""))
    unspecified = (c is None) or (m is None) or any(x is None for x in fc) or any(x is None for x in fm)
    if unspecified or res[0] == "err":
        out.nontrivial(enc(case))
    out.sample({"input": enc(case), "impl": ci, "model": model_line, "source_derived": src_line})
    # --- property oracle on the implementation
    for msg in oracle(case, res):
        out.violations.append(Finding("oracle:rules", {"case": enc(case)}, observed=ci, detail=msg))
    if res[0] == "ok":
        r = res[1]
        # determinism
        if canon_impl(call_impl(*case)) != ci:
            out.violations.append(Finding("oracle:determinism", {"case": enc(case)}, observed=ci, detail="second call differs"))
        # fed back unchanged
        back = (frags, r["molecular_charge"], list(r["fragment_charges"]), r["molecular_multiplicity"], list(r["fragment_multiplicities"]), zgf)
        cb = canon_impl(call_impl(*back))
        if cb != ci:
            out.violations.append(Finding("oracle:idempotence", {"case": enc(case)}, observed=cb, expected=ci, detail="completed assignment fed back is not returned unchanged"))
    # accept-as-is for valid full specifications
    if not unspecified and not zgf and rules_hold_full(frags, c, fc, m, fm):
        out.count("valid_full_spec")
        exp = "ok {} {} {} {}".format(c, ",".join(map(str, fc)), m, ",".join(map(str, fm)))
        if ci != exp:
            out.violations.append(Finding("oracle:accept_valid_full", {"case": enc(case)}, observed=ci, expected=exp, detail="a fully specified rule-abiding assignment is not accepted as is"))
    # default
    if c is None and m is None and all(x is None for x in fc) and all(x is None for x in fm):
        out.count("nothing_specified")
        dfm = [1 + (sum(f) % 2) for f in frags]
        exp = "ok 0 {} {} {}".format(",".join("0" for _ in frags), 1 + sum(x - 1 for x in dfm), ",".join(map(str, dfm)))
        if ci != exp:
            out.violations.append(Finding("oracle:default", {"case": enc(case)}, observed=ci, expected=exp, detail="nothing specified but result is not neutral/lowest multiplicity"))
    # --- correspondence
    if model_line is not None and model_line != ci:
        out.mismatches.append(Finding("mismatch", {"case": enc(case)}, observed=ci, expected=model_line, detail="implementation vs Lean model"
                                      + ("" if src_line is None else (" (the procedure regenerated from the source agrees with the implementation: the hand model is stale)" if src_line == ci else ""))))
    if src_line is not None and src_line != ci:
        out.mismatches.append(Finding("mismatch:src", {"case": enc(case)}, observed=ci, expected=src_line,
                                      detail="implementation vs the procedure regenerated from its own source (rules/ranges of Gen/ChgMultSrc.lean run by Model/ChgMultAst.lean)"))


def float_typed_stream(ctx, out: Outcome):
    """Float-typed integers must behave like integers (implementation-only oracle).
    Non-integer multiplicities are outside the property's quantifier and are not generated."""
    rng = ctx.rng
    for _ in range(ctx.scale(300, 2000)):
        n = rng.choice([1, 2])
        frags = [[rng.randint(0, 10)] for _ in range(n)]
        c = rng.choice([None, -1, 0, 1])
        fc = [rng.choice([None, -1, 0, 1]) for _ in range(n)]
        m = rng.choice([None, 1, 2, 3])
        fm = [rng.choice([None, 1, 2, 3]) for _ in range(n)]
        f = lambda x: None if x is None else float(x)  # noqa
        a = canon_impl(call_impl(frags, c, fc, m, fm, False))
        b = canon_impl(call_impl(frags, f(c), [f(x) for x in fc], f(m), [f(x) for x in fm], False))
        out.evaluations += 1
        out.count("float_typed")
        if a != b:
            out.violations.append(Finding("oracle:float_typed", {"case": enc((frags, c, fc, m, fm, False))}, observed=b, expected=a, detail="float-typed integers change the answer"))


def _from_arrays_plain(zs, real, seps, geom, c, fc, m, fm):
    import qcelemental as qcel

    try:
        with contextlib.redirect_stdout(io.StringIO()):
            rec = qcel.molparse.from_arrays(
                geom=np.array(geom), elez=zs, real=real, fragment_separators=seps, molecular_charge=c,
                fragment_charges=fc, molecular_multiplicity=m, fragment_multiplicities=fm, units="Bohr",
            )
        return canon_impl(("ok", rec))
    except Exception as e:  # noqa
        return "err " + err_class(e)


def through_from_arrays(ctx, out: Outcome):
    """The caller passes Z*real as electron counts (from_arrays.py:379-392)."""
    import qcelemental as qcel

    rng = ctx.rng
    for _ in range(ctx.scale(300, 2500)):
        n = rng.choice([1, 2, 3])
        zs, real, seps = [], [], []
        frags = []
        for k in range(n):
            na = rng.randint(1, 2)
            f = []
            for _a in range(na):
                z = rng.randint(1, 18)
                rl = rng.random() > 0.25
                zs.append(z)
                real.append(rl)
                f.append(z if rl else 0)
            frags.append(f)
            seps.append(len(zs))
        seps = seps[:-1]
        geom = [[3.0 * i, 0.1 * i, 0.0] for i in range(len(zs))]
        c = rng.choice([None, None, -1, 0, 1])
        fc = [rng.choice([None, None, -1, 0, 1]) for _ in range(n)]
        m = rng.choice([None, None, 1, 2, 3])
        fm = [rng.choice([None, None, 1, 2, 3]) for _ in range(n)]
        direct = canon_impl(call_impl(frags, c, fc, m, fm, False))
        via = _from_arrays_plain(zs, real, seps, geom, c, fc, m, fm)
        out.evaluations += 1
        out.count("via_from_arrays")
        if via != direct:
            out.violations.append(
                Finding("oracle:from_arrays_zeff", {"elez": zs, "real": real, "seps": seps, "c": c, "fc": fc, "m": m, "fm": fm},
                        observed=via, expected=direct, detail="from_arrays does not complete chg/mult as validate_and_fill_chgmult does on Z*real"))


def route_cases_through_from_arrays(ctx, out: Outcome, cases):
    """Send a sample of the *same* generated cases through from_arrays (each electron count z becomes one real atom of
    atomic number z, each 0 a ghost atom), so that anything the caller does to the specification before or after
    validate_and_fill_chgmult (from_arrays.py:379-392) shows up as a difference from the direct call."""
    import qcelemental as qcel

    rng = ctx.rng
    pool = [c for b, c in cases if b in ("B2", "C", "A2") and not c[5] and all(0 <= z <= 110 for f in c[0] for z in f)]
    rng.shuffle(pool)
    for case in pool[: ctx.scale(4000, 30000)]:
        frags, c, fc, m, fm, _ = case
        zs = [z if z > 0 else 2 for f in frags for z in f]
        real = [z > 0 for f in frags for z in f]
        seps = list(np.cumsum([len(f) for f in frags])[:-1])
        geom = [[3.0 * i, 0.25 * i, 0.0] for i in range(len(zs))]
        direct = canon_impl(call_impl(frags, c, fc, m, fm, False))
        try:
            with contextlib.redirect_stdout(io.StringIO()):
                rec = qcel.molparse.from_arrays(
                    geom=np.array(geom), elez=zs, real=real, fragment_separators=seps, molecular_charge=c,
                    fragment_charges=list(fc), molecular_multiplicity=m, fragment_multiplicities=list(fm), units="Bohr",
                )
            via = canon_impl(("ok", rec))
        except Exception as e:  # noqa
            via = "err " + err_class(e)
        out.evaluations += 1
        out.count("routed_through_from_arrays")
        if via != direct:
            bad = oracle(case, ("ok", rec)) if via.startswith("ok") else ["from_arrays refuses a specification that validate_and_fill_chgmult completes"]
            out.violations.append(
                Finding("oracle:from_arrays_route", {"case": enc(case), "route": "from_arrays"}, observed=via, expected=direct,
                        detail="from_arrays(Z*real) differs from validate_and_fill_chgmult on the same specification" + ("; rules broken: " + "; ".join(bad) if bad else "")))


# ----------------------------------------------------------------------------------------------------------------------
# Entry-point routes: the same specification completed through every public way of building a molecule.
#
# The property speaks about *whenever* charges/multiplicities are completed (observe_at: validate_and_fill_chgmult and
# the four fields of any molecule built by from_arrays / Molecule).  Every route below hands the specification
# (Z*real electron counts, c, fc, m, fm[, zero_ghost_fragments]) to the completion and returns its four fields; so for
# each route the property demands: a returned assignment obeys the rules (oracle()), a failure is a validation error,
# the same input gives the same answer (= the answer of the direct call, and the same answer when called again with
# the very same argument objects, also after an intervening call with the other flag), and the completed assignment
# fed back through the same route is returned unchanged.
GHOST_Z = [2, 1, 3, 10, 7, 18]  # atomic numbers given to ghost atoms (their electrons must not count)
FLAG_ROUTES = ["direct", "direct_verbose", "from_arrays", "from_input_arrays", "from_arrays_qmvz"]  # accept zero_ghost_fragments ("direct" = validate_and_fill_chgmult itself on the caller's own list objects)
PLAIN_ROUTES = ["molecule", "from_string", "molecule_from_string"]  # never zero ghosts (flag is not reachable)
N_FORMS = 4
FIELDS = ["molecular_charge", "fragment_charges", "molecular_multiplicity", "fragment_multiplicities"]


def atoms_of(frags):
    """z>0 -> one real atom of atomic number z; 0 -> one ghost atom of some non-zero atomic number."""
    zs, real = [], []
    for f in frags:
        for z in f:
            zs.append(int(z) if z > 0 else GHOST_Z[len(zs) % len(GHOST_Z)])
            real.append(bool(z > 0))
    seps = [int(x) for x in np.cumsum([len(f) for f in frags])[:-1]]
    geom = [[0.3 * (i % 3), 0.25 * i, 3.0 * i] for i in range(len(zs))]
    return zs, real, seps, geom


def string_routable(case):
    """psi4 text gives charge and multiplicity together ('c m' lines): both or neither, multiplicities printable as >= 1."""
    frags, c, fc, m, fm, _ = case
    pairs = [(c, m)] + list(zip(fc, fm))
    return all((a is None) == (b is None) for a, b in pairs) and all(b is None or b >= 1 for _, b in pairs)


def psi4_text(frags, c, fc, m, fm):
    import qcelemental as qcel

    zs, real, _seps, geom = atoms_of(frags)
    blocks, i = [], 0
    for k, f in enumerate(frags):
        lines = []
        if fc[k] is not None:
            lines.append(f"{int(fc[k])} {int(fm[k])}")
        for _z in f:
            sym = qcel.periodictable.to_E(zs[i])
            lines.append("{}{} {!r} {!r} {!r}".format("" if real[i] else "@", sym, *geom[i]))
            i += 1
        blocks.append("\n".join(lines))
    head = f"{int(c)} {int(m)}\n--\n" if c is not None else ""
    return head + "\n--\n".join(blocks) + "\nunits bohr\n"


def build_args(case, form):
    """The caller's argument objects for one specification, in one of N_FORMS equivalent spellings.  Built once per case
    and handed (the very same objects) to every call of the sequence."""
    frags, c, fc, m, fm, _ = case
    zs, real, seps, geom = atoms_of(frags)
    a = {"zs": list(zs), "real": list(real), "seps": list(seps), "geom": [list(g) for g in geom], "c": c, "m": m,
         "fc": list(fc), "fm": list(fm)}
    if form == 1:  # float-typed integers
        fl = lambda x: None if x is None else float(x)  # noqa
        a.update(c=fl(c), m=fl(m), fc=[fl(x) for x in fc], fm=[fl(x) for x in fm])
    elif form == 2:  # wholly unspecified lists are left out
        if all(x is None for x in fc):
            a["fc"] = None
        if all(x is None for x in fm):
            a["fm"] = None
    elif form == 3:  # numpy / tuple containers
        a["seps"] = np.array(seps, dtype=int)
        a["zs"] = np.array(zs)
        a["real"] = np.array(real)
        a["geom"] = np.array(geom)
        a["fc"] = tuple(fc)
        a["fm"] = tuple(fm)
    return a


def _snapshot(a):
    return repr({k: (np.asarray(v).tolist() if isinstance(v, np.ndarray) else v) for k, v in sorted(a.items())})


def route_call(route, a, zgf, case):
    """One call of one route with the argument objects `a`.  Returns ('ok', {four fields}) or ('err', class)."""
    import qcelemental as qcel

    try:
        with contextlib.redirect_stdout(io.StringIO()):
            if route in ("direct", "direct_verbose"):
                # the function itself, handed the caller's OWN containers (call_impl, the reference, always passes copies)
                zeff = np.array([float(z) * (1.0 if r else 0.0) for z, r in zip(np.asarray(a["zs"]).tolist(), np.asarray(a["real"]).tolist())])
                nfr = len(a["seps"]) + 1
                rec = qcel.molparse.validate_and_fill_chgmult(
                    zeff, a["seps"], a["c"], a["fc"] if a["fc"] is not None else [None] * nfr, a["m"],
                    a["fm"] if a["fm"] is not None else [None] * nfr, zero_ghost_fragments=zgf,
                    verbose=0 if route == "direct" else [2, 3, -1][len(a["zs"]) % 3])  # the other documented logging levels (2, 3 and the silent -1): same answer or same refusal, only the print-out differs
            elif route == "from_arrays":
                rec = qcel.molparse.from_arrays(
                    geom=a["geom"], elez=a["zs"], real=a["real"], fragment_separators=a["seps"], units="Bohr",
                    molecular_charge=a["c"], fragment_charges=a["fc"], molecular_multiplicity=a["m"],
                    fragment_multiplicities=a["fm"], zero_ghost_fragments=zgf, verbose=0)
            elif route == "from_input_arrays":
                rec = qcel.molparse.from_input_arrays(
                    geom=a["geom"], elez=a["zs"], real=a["real"], fragment_separators=a["seps"], units="Bohr",
                    molecular_charge=a["c"], fragment_charges=a["fc"], molecular_multiplicity=a["m"],
                    fragment_multiplicities=a["fm"], zero_ghost_fragments=zgf, verbose=0,
                    enable_efp=bool(len(a["zs"]) % 2), missing_enabled_return_efp="none")["qm"]
            elif route == "from_arrays_qmvz":
                gu = [[repr(float(x)) for x in g] for g in np.asarray(a["geom"]).tolist()]
                rec = qcel.molparse.from_arrays(
                    domain="qmvz", geom_unsettled=gu, variables=[], elez=a["zs"], real=a["real"],
                    fragment_separators=a["seps"], units="Bohr", molecular_charge=a["c"], fragment_charges=a["fc"],
                    molecular_multiplicity=a["m"], fragment_multiplicities=a["fm"], zero_ghost_fragments=zgf, verbose=0)
            elif route == "molecule":
                assert not zgf
                zs = [int(z) for z in a["zs"]]
                seps = [0] + [int(x) for x in a["seps"]] + [len(zs)]
                d = {"symbols": [qcel.periodictable.to_E(z) for z in zs], "geometry": np.asarray(a["geom"], dtype=float).ravel(),
                     "real": [bool(x) for x in a["real"]], "fragments": [list(range(seps[k], seps[k + 1])) for k in range(len(seps) - 1)]}
                for key, v in (("molecular_charge", a["c"]), ("molecular_multiplicity", a["m"]),
                               ("fragment_charges", a["fc"]), ("fragment_multiplicities", a["fm"])):
                    if v is None:
                        continue
                    # Molecule types the fragment lists as List[float]/List[int]: for a single-fragment molecule a list
                    # with an unspecified entry is not Molecule input (pydantic rejects the None); leave it out instead
                    if key.startswith("fragment_") and len(seps) == 2 and any(x is None for x in v):
                        continue
                    d[key] = v
                mol = qcel.models.Molecule(**d)
                rec = {k: getattr(mol, k) for k in FIELDS}
            elif route in ("from_string", "molecule_from_string"):
                assert not zgf
                frags, c, fc, m, fm, _ = case
                text = psi4_text(frags, c, fc, m, fm)
                if route == "from_string":
                    rec = qcel.molparse.from_string(text, dtype="psi4", verbose=0)["qm"]
                else:
                    mol = qcel.models.Molecule.from_data(text, dtype="psi4")
                    rec = {k: getattr(mol, k) for k in FIELDS}
            else:
                raise RuntimeError("unknown route " + route)
            rec = {k: rec[k] for k in FIELDS}
    except (RuntimeError, AssertionError):
        raise
    except Exception as e:  # noqa
        return ("err", err_class(e))
    return ("ok", rec)


def single_fragment_multiplicity_dropped(route, case, observed, expected):
    """The one class in which the unchanged library loses a supplied value on a route: a ONE-fragment system given as
    text to Molecule.from_data with total multiplicity m and fragment multiplicity f != m both supplied and accepted as
    is by the completion (expected = `ok c c m f`); Molecule drops the fragment lists of a one-fragment molecule
    (_filter_defaults) and then reports [m].  Exactly that and nothing else: observed must be `ok c c m m`."""
    frags, c, fc, m, fm, zgf = case
    if route != "molecule_from_string" or zgf or len(frags) != 1 or m is None or fm[0] is None or fm[0] == m:
        return False
    e = expected.split()
    if len(e) != 5 or e[0] != "ok" or e[3] != str(int(m)) or e[4] != str(int(fm[0])):
        return False
    return observed == "ok {} {} {} {}".format(e[1], e[2], e[3], e[3])


def known_predicate(finding: Finding, entry) -> bool:
    """A recorded finding is tolerated only if the finding itself (re-derived from its case, not from its label) lies in
    the class the entry describes."""
    if entry.get("kind") != "oracle:molecule_from_string_single_fragment_multiplicity" or finding.kind != entry.get("kind"):
        return False
    cs = finding.case if isinstance(finding.case, dict) else {}
    try:
        case = dec(cs["case"])
    except Exception:  # noqa
        return False
    return single_fragment_multiplicity_dropped(cs.get("route"), case, finding.observed, finding.expected)


def routes_on_case(ctx, out: Outcome, case, form, order_seed, only=None):
    """One call sequence on one specification: all applicable routes in a shuffled order, sharing the argument objects."""
    import random as _random

    frags, c, fc, m, fm, zgf = case
    lrng = _random.Random(order_seed)
    routes = [(r, zgf) for r in FLAG_ROUTES] + [("molecule", False)]
    if string_routable(case):
        routes += [("from_string", False)] + ([("molecule_from_string", False)] if lrng.random() < 0.25 else [])
    if only:
        routes = [x for x in routes if x[0] in only] or routes
    lrng.shuffle(routes)
    a = build_args(case, form)
    before = _snapshot(a)
    before_spec = _snapshot({k: a[k] for k in ("c", "fc", "m", "fm")})
    direct = {}
    for flag in {f for _, f in routes}:
        direct[flag] = canon_impl(call_impl(frags, c, fc, m, fm, flag))

    def where(route, flag):
        return {"case": enc((frags, c, fc, m, fm, flag)), "stream": "routes", "route": route, "form": form, "order": order_seed}

    for route, flag in routes:
        ecase = (frags, c, fc, m, fm, flag)
        res = route_call(route, a, flag, ecase)
        cv = canon_impl(res)
        out.evaluations += 1
        out.count("route:" + route + (":zgf" if flag else ""))
        if flag and any(all(z == 0 for z in f) for f in frags) and (
                c is not None or m is not None or any(x is not None and (fc[k], fm[k]) != (0, 1) for k, f in enumerate(frags) if all(z == 0 for z in f) for x in (fc[k], fm[k]))):
            out.count("route_ghost_override_active")
        if single_fragment_multiplicity_dropped(route, ecase, cv, direct[flag]):
            # genuine defect of the unchanged library (see known_findings.json C05-molecule-from-string-single-fragment-mult):
            # reported under its own kind, never folded into the general clauses
            out.violations.append(Finding("oracle:molecule_from_string_single_fragment_multiplicity", where(route, flag), observed=cv, expected=direct[flag],
                                          detail="Molecule.from_data(<text>) of a one-fragment system returns the total multiplicity as the fragment's multiplicity although the caller supplied a different (rule-abiding) one"))
            continue
        if res[0] == "err" and res[1] != "Validation":
            out.violations.append(Finding("oracle:route_error_class", where(route, flag), observed=cv, expected=direct[flag],
                                          detail=f"completion through {route} raised {res[1]}, not a validation error"))
        if res[0] == "ok":
            for msg in oracle(ecase, res):
                out.violations.append(Finding("oracle:route_rules", where(route, flag), observed=cv, expected=direct[flag],
                                              detail=f"assignment returned through {route} breaks the rules: {msg}"))
        if cv != direct[flag] and not (res[0] == "err" and res[1] != "Validation"):
            out.violations.append(Finding("oracle:route_agreement", where(route, flag), observed=cv, expected=direct[flag],
                                          detail=f"{route} does not give the answer validate_and_fill_chgmult gives on the same specification (Z*real)"))
        # same input, same answer: the very same argument objects again, after a call with the other flag where there is one
        recheck = lrng.random() < 0.5
        if recheck and route in FLAG_ROUTES and lrng.random() < 0.6:
            route_call(route, a, not flag, (frags, c, fc, m, fm, not flag))
        again = canon_impl(route_call(route, a, flag, ecase)) if recheck else cv
        out.evaluations += int(recheck)
        if _snapshot({k: a[k] for k in ("c", "fc", "m", "fm")}) != before_spec:
            # "keeps every value the caller supplied" / "the same input always yields the same answer": the specification the caller
            # holds must still be the one it passed — a completion that edits the caller's containers changes every later call on them
            out.violations.append(Finding("oracle:route_arguments_modified", where(route, flag), observed=_snapshot({k: a[k] for k in ("c", "fc", "m", "fm")})[:400], expected=before_spec[:400],
                                          detail=f"{route} modified the caller's argument objects (zero_ghost_fragments={flag})"))
            a = build_args(case, form)
        if again != cv:
            out.violations.append(Finding("oracle:route_determinism", where(route, flag), observed=again, expected=cv,
                                          detail=f"{route} called again with the same argument objects answers differently" + ("" if _snapshot(a) == before else " (the caller's arguments were modified)")))
        # completed assignment fed back through the same route
        if res[0] == "ok":
            r = res[1]
            bcase = (frags, r["molecular_charge"], list(r["fragment_charges"]), r["molecular_multiplicity"], list(r["fragment_multiplicities"]), flag)
            bint = all(float(x) == int(float(x)) for x in [bcase[1], bcase[3]] + bcase[2] + bcase[4])
            if bint and (route not in ("from_string", "molecule_from_string") or string_routable(bcase)):
                bcase = (frags, int(bcase[1]), [int(x) for x in bcase[2]], int(bcase[3]), [int(x) for x in bcase[4]], flag)
                back = canon_impl(route_call(route, build_args(bcase, form), flag, bcase))
                out.evaluations += 1
                if back != cv:
                    out.violations.append(Finding("oracle:route_idempotence", where(route, flag), observed=back, expected=cv,
                                                  detail=f"completed assignment fed back through {route} is not returned unchanged"))


def route_stream(ctx, out: Outcome, cases):
    """Stratified sample of the generated cases (all blocks, both flags) through every entry point."""
    rng = ctx.rng
    quota = {"A1": (400, 4000), "A2": (250, 3000), "B1": (0, 4000), "B2": (1500, 12000), "C": (900, 8000), "E": (800, 8000),
             "D": (250, 2000), "G": (2400, 20000)}
    byblock = {}
    for b, c in cases:
        if b == "A1" and c[0] != [[0]] and rng.random() < 0.9:
            continue  # keep all-ghost single fragments (the only A1 cases with the flag), thin out the rest
        byblock.setdefault(b, []).append(c)
    for b in sorted(byblock):
        pool = byblock[b]
        rng.shuffle(pool)
        for case in pool[: ctx.scale(*quota.get(b, (0, 0)))]:
            routes_on_case(ctx, out, case, rng.randrange(N_FORMS), rng.randrange(1 << 30))


def run_driver_parallel(ctx: Ctx, lines, workers=None):
    """ctx.run_model on contiguous chunks in parallel (the source-derived procedure interprets expression terms and is
    an order of magnitude slower than the hand model).  Each chunk uses its own copy of ctx so that batch file names differ."""
    import concurrent.futures
    import copy

    if not lines:
        return []
    workers = workers or max(1, min(8 if ctx.thorough else 6, (os.cpu_count() or 2) // 2))
    n = max(1, min(workers, len(lines) // 2000 or 1))
    if n == 1:
        return ctx.run_model(DRIVER, lines)
    step = (len(lines) + n - 1) // n
    chunks = [lines[i:i + step] for i in range(0, len(lines), step)]
    ctxs = []
    for k in range(len(chunks)):
        c = copy.copy(ctx)
        c._batch = getattr(ctx, "_batch", 0) + 1000 * (k + 1)
        ctxs.append(c)
    ctx._batch = getattr(ctx, "_batch", 0) + 1000 * (len(chunks) + 1)
    with concurrent.futures.ThreadPoolExecutor(max_workers=len(chunks)) as ex:
        parts = list(ex.map(lambda a: a[0].run_model(DRIVER, a[1]), zip(ctxs, chunks)))
    return [x for p in parts for x in p]


def three_way(ctx: Ctx, lines, op="3"):
    """(hand-model answers, source-derived answers) for encoded cases.  Driver op `3|`: rule list assessed lazily per
    candidate (proved equal, vfcSrcLazy_eq_vfc); op `4|`: every rule assessed for every candidate as reconcile does."""
    res = run_driver_parallel(ctx, [op + "|" + l for l in lines])
    model, src = [], []
    for r in res:
        a, sep, b = r.partition(" ## ")
        model.append(a)
        src.append(b if sep else "bad-op")
    return model, src


_LIST_RE = None


def impl_candidate_lists(case):
    """The candidate lists the implementation builds itself, as it logs them under verbose=2 (`c: [...]`, one `fc: [...]`
    per fragment, `m: [...]`, one `fm: [...]` per fragment — chgmult.py:474-479).  None when the call ends before
    reconcile (the early multiplicity screen) or a logged value is not an integer."""
    import ast as _ast
    import re

    from qcelemental.molparse.chgmult import validate_and_fill_chgmult

    global _LIST_RE
    if _LIST_RE is None:
        _LIST_RE = re.compile(r"^(c|fc|m|fm): (\[.*\])$")
    frags, c, fc, m, fm, zgf = case
    zeff = np.array([z for f in frags for z in f], dtype=float)
    seps = np.cumsum([len(f) for f in frags])[:-1]
    buf = io.StringIO()
    try:
        with contextlib.redirect_stdout(buf):
            validate_and_fill_chgmult(zeff, seps, c, list(fc), m, list(fm), zero_ghost_fragments=zgf, verbose=2)
    except Exception:  # noqa
        pass
    got = {"c": [], "fc": [], "m": [], "fm": []}
    seen = set()
    for ln in buf.getvalue().splitlines():
        mt = _LIST_RE.match(ln.strip())
        if not mt:
            continue
        key, txt = mt.group(1), re.sub(r"np\.\w+\(([^()]*)\)", r"\1", mt.group(2))
        try:
            vals = _ast.literal_eval(txt)
        except Exception:  # noqa
            return None
        if any(isinstance(v, bool) or not isinstance(v, (int, float)) or float(v) != int(v) for v in vals):
            return None
        if key in ("c", "m"):
            if key in seen:
                break  # the text is printed once; a second `c:` would be a second printing
            seen.add(key)
            got[key] = [int(v) for v in vals]
        else:
            got[key].append([int(v) for v in vals])
    if "c" not in seen or "m" not in seen:
        return None
    j = lambda l: ",".join(str(v) for v in l)  # noqa
    return "c={} fc={} m={} fm={}".format(j(got["c"]), ";".join(j(x) for x in got["fc"]), j(got["m"]), ";".join(j(x) for x in got["fm"]))


def full_assessment_stream(ctx: Ctx, out: Outcome, cases):
    """vfcSrc proper (every translated rule assessed for every candidate, no laziness between rules) on a sample."""
    if not ctx.model_available:
        return
    pool = [c for _, c in cases]
    ctx.rng.shuffle(pool)
    pool = pool[: ctx.scale(5000, 20000)]
    _, src = three_way(ctx, [enc(c) for c in pool], op="4")
    for case, sl in zip(pool, src):
        ci = canon_impl(call_impl(*case))
        out.evaluations += 1
        out.count("full_assessment_compared")
        if sl != ci:
            out.mismatches.append(Finding("mismatch:src", {"case": enc(case)}, observed=ci, expected=sl,
                                          detail="implementation vs vfcSrc (all translated rules assessed for every candidate)"))


def ranges_stream(ctx: Ctx, out: Outcome, cases):
    """Candidate lists: the statements regenerated from chgmult.py, evaluated in Lean (driver op `R|`), against the lists
    the implementation logs itself.  A disagreement is a broken tie (translator / evaluator / stale Gen), not a property
    violation."""
    if not ctx.model_available:
        return
    rng = ctx.rng
    quota = ctx.scale(6000, 20000)
    pool = [c for _, c in cases]
    rng.shuffle(pool)
    todo, want = [], []
    for case in pool:
        if len(todo) >= quota:
            break
        w = impl_candidate_lists(case)
        if w is None:
            out.count("ranges_not_logged")
            continue
        todo.append(case)
        want.append(w)
    got = run_driver_parallel(ctx, ["R|" + enc(c) for c in todo], workers=2)
    for case, w, g in zip(todo, want, got):
        out.evaluations += 1
        out.count("ranges_compared")
        if g != w:
            out.mismatches.append(Finding("mismatch:ranges", {"case": enc(case)}, observed=w, expected=g,
                                          detail="candidate lists logged by the implementation (verbose=2) vs the lists built by the statements regenerated from chgmult.py"))


def run(ctx: Ctx) -> Outcome:
    out = Outcome()
    cases = list(gen_cases(ctx))
    model = [None] * len(cases)
    src = [None] * len(cases)
    if ctx.model_available:
        model, src = three_way(ctx, [enc(c) for _, c in cases])
    for (block, case), ml, sl in zip(cases, model, src):
        check_case(ctx, out, block, case, ml, sl)
    full_assessment_stream(ctx, out, cases)
    ranges_stream(ctx, out, cases)
    float_typed_stream(ctx, out)
    through_from_arrays(ctx, out)
    route_cases_through_from_arrays(ctx, out, cases)
    route_stream(ctx, out, cases)
    out.exhaustive = False
    out.notes.append("block A1 is exhaustive over its stated scope; blocks A2,B2,C,D,E,G and the route stream sampled from VERIF_SEED")
    return out


def replay(ctx: Ctx, case) -> Outcome:
    out = Outcome()
    line = case["case"] if isinstance(case, dict) and "case" in case else case
    if isinstance(line, dict) and "elez" in line:  # through_from_arrays finding: re-run exactly that call
        zs, real, seps = line["elez"], line["real"], line["seps"]
        bounds = [0] + list(seps) + [len(zs)]
        frags = [[(zs[i] if real[i] else 0) for i in range(bounds[k], bounds[k + 1])] for k in range(len(bounds) - 1)]
        direct = canon_impl(call_impl(frags, line["c"], line["fc"], line["m"], line["fm"], False))
        via = _from_arrays_plain(zs, real, seps, [[3.0 * i, 0.1 * i, 0.0] for i in range(len(zs))], line["c"], line["fc"], line["m"], line["fm"])
        out.evaluations += 1
        if via != direct:
            out.violations.append(Finding("oracle:from_arrays_zeff", line, observed=via, expected=direct,
                                          detail="from_arrays does not complete chg/mult as validate_and_fill_chgmult does on Z*real"))
        return out
    if isinstance(line, dict):
        return run(ctx)
    cs = dec(line)
    ml, sl = None, None
    if ctx.model_available:
        a, b = three_way(ctx, [enc(cs)])
        ml, sl = a[0], b[0]
    check_case(ctx, out, "replay", cs, ml, sl)
    full_assessment_stream(ctx, out, [("replay", cs)])
    ranges_stream(ctx, out, [("replay", cs)])
    if isinstance(case, dict) and case.get("stream") == "routes":
        # the recorded call sequence (same spelling of the arguments, same order), then every other spelling
        routes_on_case(ctx, out, cs, int(case.get("form", 0)), int(case.get("order", 0)))
        if not out.violations:
            for form in range(N_FORMS):
                routes_on_case(ctx, out, cs, form, int(case.get("order", 0)) + 1 + form)
    elif isinstance(case, dict) and case.get("route") == "from_arrays":
        ctx.rng.shuffle = lambda x: None  # keep the single case
        route_cases_through_from_arrays(ctx, out, [("B2", cs)])
    return out
