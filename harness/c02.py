"""C02 — CODATA constants and derived aliases: translator + exhaustive correspondence + independent NIST/fractions oracle."""
from __future__ import annotations

import math
import struct
import sys
from decimal import Decimal
from fractions import Fraction

import common
from common import Ctx, Finding, Outcome

sys.path.insert(0, str(common.VERIF / "tools"))
import gen_codata  # noqa: E402

PROPERTY = "C02"
LEAN_TARGETS = ["QcelVerif.Props.C02", "QcelVerif.Lemmas.Dec", "QcelVerif.Driver.C02"]
DRIVER = "QcelVerif/Driver/C02.lean"
_C = "QcelVerif.Constants."
THEOREMS = [
    ("QcelVerif.Codata.shipped_eq_nist_2014", "shipped 2014 table = NIST ASCII table codata-2014.txt row for row (key = lower name, name, value text without blanks/`...` hence same Decimal digits+exponent, uncertainty text, unit up to {} markup; none missing/extra) [decide +kernel on the generated tables]"),
    ("QcelVerif.Codata.shipped_eq_srd121_2014", "shipped 2014 table = the 2014 build script applied to the SRD-121 JSON, units literally equal"),
    ("QcelVerif.Codata.shipped_eq_nist_2018", "shipped 2018 table = NIST ASCII table codata-2018.txt row for row (same relation)"),
    (_C + "constants_retrievable_2014", "every published 2014 constant is in pc under its lower-cased name with label/unit/Decimal(value)/uncertainty comment/doi of its row (model context built on the generated table)"),
    (_C + "constants_retrievable_2018", "same for 2018; no legacy name or alias overwrites a published row"),
    (_C + "get_case_insensitive", "GENERAL: names equal after lower-casing retrieve the same Datum / float / KeyError (all 2^|s| casings)"),
    (_C + "get_is_item_lower", "GENERAL: get(name) = pc[name.lower()], float form = float(data)"),
    (_C + "aliases_follow_spec_2014", "27 aliases (2014): stored Decimal = documented formula in prec-28 half-even decimal arithmetic digit for digit; within 2e-27 relative of the exact rational; 24 division-free ones exactly equal; documented cross-relations exact in Q"),
    (_C + "aliases_follow_spec_2018", "same for 2018 (2014 names in the documentation denote the legacy entries)"),
    (_C + "renames_2018", "26 renamed constants: old (published-2014, not-2018) name retrieves label=old name with Decimal/units/comment/doi of the published 2018 entry"),
    (_C + "legacy_derived_2018", "3 constants dropped by NIST: N_A h c exact; F/C90 and (e/hbar)/(2 pi) = decimal evaluation, within 2e-27 of exact"),
    (_C + "attrs_and_floats_2014", "2014: attribute mangle(label) = float(data) for every pc entry, mangled names collision-free, every float is the nearest double (neighbour check, ties even)"),
    (_C + "attrs_and_floats_2018", "same for 2018"),
    ("QcelVerif.Dec.roundHalfEven_err", "GENERAL: ROUND_HALF_EVEN of any coefficient to any number of dropped digits is within half a unit of the last kept place"),
    ("QcelVerif.Dec.fix_of_fits", "GENERAL: rounding to context precision leaves any value with <= 28 digits unchanged (power-of-ten scalings in the alias table are exact)"),
]
TRANSLATORS = [gen_codata.main]
TRUSTED_BASE = [
    "Lean 4.33 kernel (decide +kernel evaluation over the generated tables and the model's context construction; no native_decide); axioms audited per theorem",
    "tools/gen_codata.py: re-encodes nist_201{4,8}_codata.py (ast.literal_eval), codata-201{4,8}.txt (column slices only) and the SRD-121 JSON as packed naturals; cross-checked because the Lean driver reads the same generated tables and is compared with the running implementation on every key",
    "hand-written model Model/Constants.lean of context.py:72-245 and Model/Dec.lean of Python decimal (prec 28, ROUND_HALF_EVEN) + float(Decimal); tied by exhaustive correspondence (every key x 4 casings x 4 access paths x 3 contexts, key order, attribute set) and a random decimal-arithmetic / float-conversion stream against CPython",
    "the alias specification (Model/Constants.lean aliasSpec) is a hand transcription of the documentation block context.py:247-271",
    "the oracle's own reading of the raw NIST tables and its own alias formulas in exact fractions",
    "CPython decimal / float(str) (checked digit-for-digit / bit-for-bit against the model on every value the run touches)",
]
ASSUMPTIONS = [
    "ASCII names only (str.lower/str.translate on non-ASCII are outside the model)",
    "default decimal context at import time (prec 28, ROUND_HALF_EVEN); exponent limits Emin/Emax not modelled; float model valid for |decimal exponent| < ~2400",
    "pydantic Datum construction/validation is not modelled (only label, units, data, comment, doi are compared)",
    "attribute access is modelled for the float attributes set by the constant loop only (pc, doi, name, year, raw_codata, _ureg excluded)",
]
RULE = (
    "exhaustive: for CODATA2014, CODATA2018 and the default singleton, every NIST row name (read by the oracle from raw_data/nist_data/codata-*.txt), "
    "the calorie-joule relationship, all 27 aliases, the 26 legacy names and 3 derived constants (2018), plus every further key the implementation holds, "
    "x {exact, lower, upper, random mixed case} x {get, get(return_tuple), attribute (name mangled by the harness), pc[...]}; "
    "plus pc key order and attribute-name set per context, near-miss / foreign names (KeyError paths), and a seeded stream of random Decimal "
    "add/sub/mul/div and float(Decimal) cases against CPython. Distinct = (context, mode, name as sent); non-trivial = name is not the "
    "stored lower-case key spelled exactly, or the entry is computed (alias / legacy / derived), or an arithmetic case."
)
LEVEL_TEXT = (
    "proof by kernel evaluation over the complete finite tables (shipped = NIST for both sets; context contents; aliases = spec; renames; floats nearest) "
    "+ general case-insensitivity lemma; the model is tied to context.py by exhaustive correspondence, the alias spec to the code digit-for-digit. "
    "Partial: the half-unit bound of the rounding step is proved in general (roundHalfEven_err), but the relative error bounds of Dec.mul/div as wholes are not; the 2e-27 bound is kernel-checked on every alias of both sets instead."
)
TECHNIQUE = "Lean 4 decide +kernel over translator-generated tables + executable Decimal/float model + exhaustive differential correspondence + fractions oracle"

MODES = ("get", "tuple", "attr", "item")

# ---- the oracle's own statement of the specification ---------------------------------------

RENAMES_OLD_TO_NEW = {  # 2014 NIST name -> 2018 NIST name (the 26 legacy renames of the property)
    "atomic unit of mom.um": "atomic unit of momentum",
    "Planck constant over 2 pi": "reduced Planck constant",
    "Planck constant over 2 pi in eV s": "reduced Planck constant in eV s",
    "Planck constant over 2 pi times c in MeV fm": "reduced Planck constant times c in MeV fm",
    "natural unit of mom.um": "natural unit of momentum",
    "natural unit of mom.um in MeV/c": "natural unit of momentum in MeV/c",
    "electron gyromag. ratio over 2 pi": "electron gyromag. ratio in MHz/T",
    "mag. constant": "vacuum mag. permeability",
    "{220} lattice spacing of silicon": "lattice spacing of ideal Si (220)",
    "Planck constant in eV s": "Planck constant in eV/Hz",
    "Bohr magneton in inverse meters per tesla": "Bohr magneton in inverse meter per tesla",
    "Boltzmann constant in inverse meters per kelvin": "Boltzmann constant in inverse meter per kelvin",
    "Cu x unit": "Copper x unit",
    "Mo x unit": "Molybdenum x unit",
    "proton gyromag. ratio over 2 pi": "proton gyromag. ratio in MHz/T",
    "shielded proton gyromag. ratio over 2 pi": "shielded proton gyromag. ratio in MHz/T",
    "proton Compton wavelength over 2 pi": "reduced proton Compton wavelength",
    "tau Compton wavelength over 2 pi": "reduced tau Compton wavelength",
    "tau mass energy equivalent in MeV": "tau energy equivalent",
    "neutron Compton wavelength over 2 pi": "reduced neutron Compton wavelength",
    "neutron gyromag. ratio over 2 pi": "neutron gyromag. ratio in MHz/T",
    "nuclear magneton in inverse meters per tesla": "nuclear magneton in inverse meter per tesla",
    "shielded helion gyromag. ratio over 2 pi": "shielded helion gyromag. ratio in MHz/T",
    "Compton wavelength over 2 pi": "reduced Compton wavelength",
    "electric constant": "vacuum electric permittivity",
    "muon Compton wavelength over 2 pi": "reduced muon Compton wavelength",
}
PI50 = Fraction("3.14159265358979323846264338327950288419716939937510")
ALIAS_NAMES = [
    "h", "hbar", "c", "kb", "R", "bohr2angstroms", "bohr2m", "bohr2cm", "amu2g", "amu2kg", "au2amu", "hartree2J", "hartree2aJ",
    "cal2J", "dipmom_au2si", "dipmom_au2debye", "dipmom_debye2si", "c_au", "hartree2ev", "hartree2wavenumbers", "hartree2kcalmol",
    "hartree2kJmol", "hartree2MHz", "na", "me", "kcalmol2wavenumbers", "e0",
]
DERIVED_NAMES = ["molar Planck constant times c", "Faraday constant for conventional electric current", "elementary charge over h"]
REL_TOL = Fraction(1, 10**26)  # three correctly rounded 28-digit operations stay far inside


def nist_table(year: int):
    """Independent reading of the raw NIST ASCII table: [(name, value text, uncertainty, unit)]."""
    rows = []
    started = False
    for line in (common.REPO / f"raw_data/nist_data/codata-{year}.txt").read_text().splitlines():
        if line.startswith("-----"):
            started = True
            continue
        if not started or not line.strip():
            continue
        name, value, unc, unit = line[:60].strip(), line[60:85].strip(), line[85:110].strip(), line[110:].strip()
        if unc == "(exact)":
            value = value.replace("...", "")
        rows.append((name, value.replace(" ", ""), unc, unit))
    return rows


def derived_formulas(N):
    return {
        "molar Planck constant times c": N("molar Planck constant") * N("speed of light in vacuum"),
        "Faraday constant for conventional electric current": N("Faraday constant") / N("conventional value of coulomb-90"),
        "elementary charge over h": N("elementary charge over h-bar") / (2 * PI50),
    }


def alias_formulas(N):
    """The documented definitions (context.py docstring block) in exact rational arithmetic."""
    cal = Fraction("4.184")
    eh, na = N("Hartree energy"), N("Avogadro constant")
    return {
        "h": N("hertz-joule relationship"),
        "hbar": N("Planck constant over 2 pi"),
        "c": N("inverse meter-hertz relationship"),
        "kb": N("kelvin-joule relationship"),
        "R": N("molar gas constant"),
        "bohr2angstroms": N("Bohr radius") * 10**10,
        "bohr2m": N("Bohr radius"),
        "bohr2cm": N("Bohr radius") * 100,
        "amu2g": N("atomic mass constant") * 1000,
        "amu2kg": N("atomic mass constant"),
        "au2amu": N("electron mass in u"),
        "hartree2J": eh,
        "hartree2aJ": eh * 10**18,
        "cal2J": cal,
        "dipmom_au2si": N("atomic unit of electric dipole mom."),
        "dipmom_au2debye": N("atomic unit of electric dipole mom.") / (N("hertz-inverse meter relationship") * Fraction(1, 10**21)),
        "dipmom_debye2si": N("hertz-inverse meter relationship") * Fraction(1, 10**21),
        "c_au": N("inverse fine-structure constant"),
        "hartree2ev": N("Hartree energy in eV"),
        "hartree2wavenumbers": N("hartree-inverse meter relationship") / 100,
        "hartree2kcalmol": eh * na / 1000 / cal,
        "hartree2kJmol": eh * na / 1000,
        "hartree2MHz": N("hartree-hertz relationship") / 10**6,
        "na": na,
        "me": N("electron mass"),
        "kcalmol2wavenumbers": 10 * cal / N("molar Planck constant times c"),
        "e0": N("electric constant"),
    }


class Spec:
    """What the property demands of one context, computed from the raw NIST files only."""

    def __init__(self, year: int):
        self.year = year
        self.rows = nist_table(year)
        self.by_lower = {r[0].lower(): r for r in self.rows}
        self.exact = {}  # lower name -> Fraction (aliases / derived)
        if year == 2018:
            self.exact.update({k.lower(): v for k, v in derived_formulas(self.N).items()})
        self.exact.update({k.lower(): v for k, v in alias_formulas(self.N).items()})

    def N(self, name: str) -> Fraction:
        k = name.lower()
        if k in self.by_lower:
            return Fraction(self.by_lower[k][1])
        if self.year == 2018:
            if name in RENAMES_OLD_TO_NEW:
                return Fraction(self.by_lower[RENAMES_OLD_TO_NEW[name].lower()][1])
            if k in self.exact:
                return self.exact[k]
        raise KeyError(name)

    def names(self):
        """[(name as the property writes it, tag)]"""
        out = [(r[0], "nist") for r in self.rows]
        out.append(("calorie-joule relationship", "calorie"))
        if self.year == 2018:
            out += [(o, "rename") for o in RENAMES_OLD_TO_NEW]
            out += [(d, "derived") for d in DERIVED_NAMES]
        out += [(a, "alias") for a in ALIAS_NAMES]
        return out


def hexs(s: str) -> str:
    return s.encode("utf-8").hex()


def mangle(label: str) -> str:
    """the documented attribute spelling: blank, '-', '{' -> '_'; '/' -> 'p'; '.', ',', '(', ')', '}' dropped"""
    out = []
    for ch in label:
        if ch in " -{":
            out.append("_")
        elif ch == "/":
            out.append("p")
        elif ch in ".,()}":
            continue
        else:
            out.append(ch)
    return "".join(out)


def unbrace(u: str) -> str:
    return u.replace("{", "").replace("}", "")


def fbits(f: float) -> int:
    return struct.unpack(">Q", struct.pack(">d", f))[0]


def dec_triple(d: Decimal) -> str:
    t = d.as_tuple()
    if not isinstance(t.exponent, int):
        return "special " + str(d)
    return f"{t.sign} {int(''.join(map(str, t.digits)))} {t.exponent}"


def show_datum(q) -> str:
    data = q.data
    dt = dec_triple(data) if isinstance(data, Decimal) else f"NOT-DECIMAL {type(data).__name__} {data!r}"
    return "ok d " + "|".join([hexs(q.label), hexs(q.units), dt, hexs(q.comment), hexs(q.doi) if q.doi is not None else "N"])


def mixed(rng, s):
    return "".join(c.upper() if rng.random() < 0.5 else c.lower() for c in s)


def nearest_double_problem(f, d: Decimal):
    """None if f is the double nearest to d (exact rational check), else a description."""
    if not isinstance(f, float):
        return f"not a float: {type(f).__name__}"
    if f != float(str(d)):
        return f"{f!r} != float(str(decimal)) = {float(str(d))!r}"
    fr, dr = Fraction(f), Fraction(d)
    for nb in (math.nextafter(f, math.inf), math.nextafter(f, -math.inf)):
        if abs(Fraction(nb) - dr) < abs(fr - dr):
            return f"{nb!r} is closer to {d} than {f!r}"
    return None


class Env:
    def __init__(self):
        import qcelemental as qcel
        from qcelemental.physical_constants.context import PhysicalConstantsContext

        self.ctxs = {
            "2014": PhysicalConstantsContext("CODATA2014"),
            "2018": PhysicalConstantsContext("CODATA2018"),
            "default": qcel.constants,
        }
        self.specs = {"2014": Spec(2014), "2018": Spec(2018)}
        self.specs["default"] = self.specs["2014"]  # the documented default set is CODATA2014


def line_of(case) -> str:
    if "line" in case:
        return case["line"]
    return f"G {case['ctx']} {case['mode']} {hexs(case['sent'])}"


def impl_of(env: Env, case) -> str:
    """Run the real code on one case and render it in the driver's output format."""
    if "line" in case:
        return impl_line(env, case["line"])
    c = env.ctxs[case["ctx"]]
    mode, sent = case["mode"], case["sent"]
    try:
        if mode == "get":
            v = c.get(sent)
            return f"ok f {fbits(v)}" if isinstance(v, float) else f"ok NOT-FLOAT {v!r}"
        if mode == "tuple":
            return show_datum(c.get(sent, return_tuple=True))
        if mode == "item":
            return show_datum(c.pc[sent])
        if mode == "attr":
            v = getattr(c, sent)
            return f"ok f {fbits(v)}" if isinstance(v, float) else f"ok NOT-FLOAT {v!r}"
    except KeyError:
        return "err KeyError"
    except AttributeError:
        return "err AttributeError"
    except Exception as e:  # noqa
        return "err other:" + type(e).__name__
    raise ValueError(mode)


def impl_line(env: Env, line: str) -> str:
    import decimal

    p = line.split(" ")
    if p[0] == "K":
        return "ok " + ",".join(hexs(k) for k in env.ctxs[p[1]].pc)
    if p[0] == "A":
        return "ok " + ",".join(hexs(a) for a, v in vars(env.ctxs[p[1]]).items() if isinstance(v, float))
    if p[0] == "D":
        a, b = bytes.fromhex(p[2]).decode(), bytes.fromhex(p[3]).decode()
        try:
            with decimal.localcontext(decimal.Context(prec=28, rounding=decimal.ROUND_HALF_EVEN)):
                x, y = Decimal(a), Decimal(b)
                r = {"add": lambda: x + y, "sub": lambda: x - y, "mul": lambda: x * y, "div": lambda: x / y}[p[1]]()
            return "ok " + dec_triple(r)
        except decimal.DecimalException:
            return "err"
    if p[0] == "F":
        a = bytes.fromhex(p[1]).decode()
        try:
            x = Decimal(a)
            return f"ok {dec_triple(x)} {fbits(float(x))}"
        except decimal.DecimalException:
            return "err"
    raise ValueError(line)


def oracle(env: Env, case, got: str):
    """The property stated directly on the implementation's behaviour for this one case (no model)."""
    if "line" in case:
        return []
    tag, roles, mode, name = case["tag"], case["roles"], case["mode"], case["name"]
    variant = "/".join(roles)
    if tag in ("extra", "outside"):
        return []
    spec: Spec = env.specs[case["ctx"]]
    c = env.ctxs[case["ctx"]]
    finds = []

    def bad(kind, observed, expected, detail):
        finds.append(Finding(kind, case, observed=observed, expected=expected, detail=detail))

    # which accesses the property requires to succeed
    must = mode in ("get", "tuple") or (mode == "item" and "lower" in roles) or (mode == "attr" and "exact" in roles and tag in ("nist", "calorie", "alias"))
    if not must:
        return []
    if got.startswith("err"):
        kind = "oracle:attribute_missing" if mode == "attr" else "oracle:not_retrievable"
        bad(kind, got, "a value", f"{tag} constant {name!r} must be reachable via {mode} with the {variant}-case spelling")
        return finds
    # fetch the objects again (the rendered line is for the model diff; the oracle looks at the objects)
    if mode in ("tuple", "item"):
        q = c.get(case["sent"], return_tuple=True) if mode == "tuple" else c.pc[case["sent"]]
        d = q.data
        if not isinstance(d, Decimal):
            bad("oracle:not_decimal", repr(d), "decimal.Decimal", "Datum.data of a physical constant must be a Decimal")
            return finds
        if tag == "nist":
            nm, val, unc, unit = spec.by_lower[name.lower()]
            if d.as_tuple() != Decimal(val).as_tuple():
                bad("oracle:nist_value", str(d), val, f"Decimal differs from NIST's published value of {nm!r}")
            if q.label != nm:
                bad("oracle:nist_label", q.label, nm, "label is not the NIST name")
            if unbrace(q.units) != unbrace(unit):
                bad("oracle:nist_unit", q.units, unit, "unit differs from NIST's (beyond {} exponent markup)")
            if q.comment != "uncertainty=" + unc:
                bad("oracle:nist_uncertainty", q.comment, "uncertainty=" + unc, "uncertainty string differs from NIST's")
        elif tag == "calorie":
            if d.as_tuple() != Decimal("4.184").as_tuple() or q.units != "J":
                bad("oracle:calorie", f"{d} {q.units}", "4.184 J", "calorie-joule relationship")
        elif tag == "rename":
            nm, val, unc, unit = spec.by_lower[RENAMES_OLD_TO_NEW[name].lower()]
            if d.as_tuple() != Decimal(val).as_tuple() or unbrace(q.units) != unbrace(unit):
                bad("oracle:rename_2018", f"{d} {q.units}", f"{val} {unit}", f"2014 name {name!r} must carry the 2018 value of {nm!r}")
        elif tag in ("alias", "derived"):
            want = spec.exact[name.lower()]
            if abs(Fraction(d) - want) > REL_TOL * abs(want):
                kind = "oracle:alias_definition" if tag == "alias" else "oracle:legacy_derived"
                bad(kind, str(d), f"{float(want)!r} (exact {want.numerator}/{want.denominator})", f"{name} differs from its documented definition evaluated on the {spec.year} NIST values by more than 1e-26 relative")
    else:
        f = c.get(case["sent"]) if mode == "get" else getattr(c, case["sent"])
        q = c.pc.get(name.lower())
        if q is not None and isinstance(q.data, Decimal):
            prob = nearest_double_problem(f, q.data)
            if prob:
                bad("oracle:float_nearest", repr(f), str(q.data), f"float form of {name!r} via {mode}: {prob}")
    return finds


def build_cases(env: Env, rng, ctx: Ctx):
    cases = []
    for cn in ("2014", "2018", "default"):
        spec, c = env.specs[cn], env.ctxs[cn]
        named = spec.names()
        seen = {n.lower() for n, _ in named}
        named += [(q.label, "extra") for k, q in c.pc.items() if k not in seen]  # whatever else the implementation holds
        for name, tag in named:
            spellings = {}  # spelling -> roles it plays
            for role, v in (("exact", name), ("lower", name.lower()), ("upper", name.upper()), ("random", mixed(rng, name))):
                spellings.setdefault(v, []).append(role)
            for v, roles in spellings.items():
                for mode in MODES:
                    cases.append({"ctx": cn, "mode": mode, "name": name, "tag": tag, "roles": roles, "sent": mangle(v) if mode == "attr" else v})
        # names outside the table: KeyError / AttributeError paths (model diff only)
        keys = list(c.pc)
        outside = ["", " ", "hartree", "Hartree energy ", " hartree energy", "hartree  energy", "speed of light", "planck", "pi", "H", "HBAR ", "cal2j ", "bohr2angstrom"]
        other = env.ctxs["2018" if cn != "2018" else "2014"]
        outside += [q.label for k, q in other.pc.items() if k not in c.pc]
        for _ in range(ctx.scale(150, 1500)):
            k = rng.choice(keys)
            i = rng.randrange(len(k))
            outside.append(rng.choice([k[:i] + k[i + 1:], k[:i] + rng.choice("abcxyz _-.") + k[i:], k + rng.choice(" .s"), k[:i] + k[i].swapcase() + k[i + 1:]]))
        for o in outside:
            for mode in MODES:
                cases.append({"ctx": cn, "mode": mode, "name": o, "tag": "outside", "roles": ["exact"], "sent": mangle(o) if mode == "attr" else o})
        cases.append({"line": f"K {cn}"})
        cases.append({"line": f"A {cn}"})
    # decimal arithmetic / float conversion stream (ties Model/Dec.lean to CPython)
    def rdec():
        n = rng.choice([1, 2, 3, 5, 9, 10, 14, 20, 27, 28, 29, 30, 36, 40])
        s = str(rng.randrange(10 ** n))
        if rng.random() < 0.15:
            s = rng.choice(["0", "00", "5" + "0" * rng.randint(1, 30), "9" * rng.randint(27, 30), "1" + "0" * 27 + "5", "25", "1"])
        if rng.random() < 0.5:
            p = rng.randrange(len(s) + 1)
            s = s[:p] + "." + s[p:]
            if s == ".":
                s = "0."
        if rng.random() < 0.4:
            s = "-" + s
        if rng.random() < 0.6:
            s += rng.choice("eE") + rng.choice(["", "+", "-"]) + str(rng.randint(0, 40))
        return s

    for _ in range(ctx.scale(4000, 60000)):
        a, b = rdec(), rdec()
        r = rng.random()
        if r < 0.08:
            b = a
        elif r < 0.14:
            b = a[1:] if a.startswith("-") else "-" + a
        cases.append({"line": f"D {rng.choice(['add', 'sub', 'mul', 'div'])} {hexs(a)} {hexs(b)}"})
    for _ in range(ctx.scale(3000, 40000)):
        a = rdec()
        if rng.random() < 0.35:
            a = a.split("e")[0].split("E")[0] + "e" + str(rng.randint(-345, 310))
        cases.append({"line": f"F {hexs(a)}"})
    return cases


def run(ctx: Ctx) -> Outcome:
    out = Outcome()
    env = Env()
    import decimal

    dc = decimal.getcontext()
    if dc.prec != 28 or dc.rounding != decimal.ROUND_HALF_EVEN:
        out.notes.append(f"WARNING: ambient decimal context is {dc}")
    cases = build_cases(env, ctx.rng, ctx)
    lines = [line_of(c) for c in cases]
    model = ctx.run_model(DRIVER, lines) if ctx.model_available else [None] * len(lines)
    for i, (case, ml) in enumerate(zip(cases, model)):
        got = impl_of(env, case)
        out.evaluations += 1
        if "line" in case:
            kindc = case["line"].split(" ")[0]
            out.count("stream:" + {"K": "key-order", "A": "attribute-set", "D": "decimal-op", "F": "float-conversion"}[kindc])
            if kindc in "DF":
                out.count("outcome:" + ("arith-ok" if got.startswith("ok") else "arith-error"))
                out.nontrivial(case["line"])
        else:
            out.count("tag:" + case["tag"])
            out.count("mode:" + case["mode"])
            out.count("outcome:" + (got.split(" ")[0] + (":" + got.split(" ")[1] if got.startswith("err") else "")))
            if case["tag"] != "nist" or case["sent"] != case["name"].lower() or case["mode"] == "attr":
                out.nontrivial((case["ctx"], case["mode"], case["sent"]))
        if i % 2503 == 7:
            out.sample({"case": {k: v for k, v in case.items()}, "line": lines[i][:160], "impl": got[:200], "model": (ml or "")[:200]})
        for f in oracle(env, case, got):
            out.violations.append(f)
        if ml is not None and ml != got:
            out.mismatches.append(Finding("mismatch", case, observed=got[:2000], expected=ml[:2000], detail="implementation vs Lean model (" + lines[i][:120] + ")"))
    # whole-context oracle clauses: nothing the property names may be missing from a context
    for cn in ("2014", "2018", "default"):
        missing = [n for n, _ in env.specs[cn].names() if n.lower() not in env.ctxs[cn].pc]
        for n in missing[:5]:
            out.violations.append(Finding("oracle:not_retrievable", {"ctx": cn, "mode": "item", "name": n, "tag": "nist", "roles": ["lower"], "sent": n.lower()}, observed="absent", expected="present"))
    out.exhaustive = True
    out.notes.append(
        "exhaustive over " + ", ".join(f"{cn}: {len(env.ctxs[cn].pc)} keys" for cn in env.ctxs)
        + "; NIST rows read by the oracle: 2014=%d, 2018=%d" % (len(env.specs["2014"].rows), len(env.specs["2018"].rows))
    )
    out.notes.append("translator cross-check: the Lean driver built both contexts from the generated tables and was compared with the implementation on every key, in key order")
    return out


def replay(ctx: Ctx, case) -> Outcome:
    out = Outcome()
    env = Env()
    got = impl_of(env, case)
    line = line_of(case)
    ml = ctx.run_model(DRIVER, [line])[0] if ctx.model_available else None
    out.evaluations = 1
    out.sample({"line": line, "impl": got[:300], "model": (ml or "")[:300]})
    out.violations += oracle(env, case, got)
    if ml is not None and ml != got:
        out.mismatches.append(Finding("mismatch", case, observed=got[:2000], expected=ml[:2000]))
    return out
