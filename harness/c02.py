"""C02 — CODATA constants and derived aliases: translator + exhaustive correspondence + independent NIST/fractions oracle."""
from __future__ import annotations

import json
import math
import struct
import sys
from decimal import Decimal
from fractions import Fraction

import common
from common import Ctx, Finding, Outcome

sys.path.insert(0, str(common.VERIF / "tools"))
import gen_codata  # noqa: E402
import c02_src  # noqa: E402  (translator of context.py -> Gen/ContextSrc.lean)

PROPERTY = "C02"
LEAN_TARGETS = ["QcelVerif.Props.C02", "QcelVerif.Lemmas.Dec", "QcelVerif.Lemmas.DecBounds", "QcelVerif.Props.C02Dec",
                "QcelVerif.Model.ConstantsSrc", "QcelVerif.Lemmas.ConstantsSrc", "QcelVerif.Props.C02Src", "QcelVerif.Driver.C02"]
DRIVER = "QcelVerif/Driver/C02.lean"
_C = "QcelVerif.Constants."
THEOREMS = [
    ("QcelVerif.Codata.shipped_eq_nist_2014", "shipped 2014 table = NIST ASCII table codata-2014.txt row for row (key = lower name, name, value text without blanks/`...` hence same Decimal digits+exponent, uncertainty text, unit up to {} markup; none missing/extra) [decide +kernel on the generated tables]"),
    ("QcelVerif.Codata.shipped_eq_srd121_2014", "shipped 2014 table = the 2014 build script applied to the SRD-121 JSON, units literally equal"),
    ("QcelVerif.Codata.shipped_eq_nist_2018", "shipped 2018 table = NIST ASCII table codata-2018.txt row for row (same relation)"),
    (_C + "constants_retrievable_2014", "every published 2014 constant is in pc under its lower-cased name with label/unit/Decimal(value)/uncertainty comment/doi of its row (model context built on the generated table)"),
    (_C + "constants_retrievable_2018", "same for 2018; no legacy name or alias overwrites a published row"),
    (_C + "get_case_insensitive", "GENERAL: names equal after lower-casing retrieve the same Datum / float / KeyError (all 2^|s| casings)"),
    (_C + "get_is_item_lower", "GENERAL: get(name) = pc[name.lower()], float form = float(data)"),
    (_C + "aliases_follow_spec_2014", "27 aliases (2014): stored Decimal = documented formula in prec-28 half-even decimal arithmetic digit for digit; within 2e-27 relative of the exact rational; 24 division-free ones exactly equal; documented cross-relations exact in Q"),
    (_C + "aliases_follow_spec_2018", "same for 2018 (2014 names in the documentation denote the legacy entries)"),
    (_C + "renames_2018", "26 renamed constants: old (published-2014, not-2018) name retrieves label=old name with Decimal/units/comment/doi of the published 2018 entry"),
    (_C + "legacy_derived_2018", "3 constants dropped by NIST: N_A h c exact; F/C90 and (e/hbar)/(2 pi) = decimal evaluation, within 2e-27 of exact"),
    (_C + "attrs_and_floats_2014", "2014: attribute mangle(label) = float(data) for every pc entry, mangled names collision-free, every float is the nearest double (neighbour check, ties even)"),
    (_C + "attrs_and_floats_2018", "same for 2018"),
    ("QcelVerif.Dec.roundHalfEven_err", "GENERAL: ROUND_HALF_EVEN of any coefficient to any number of dropped digits is within half a unit of the last kept place"),
    ("QcelVerif.Dec.fix_of_fits", "GENERAL: rounding to context precision leaves any value with <= 28 digits unchanged (power-of-ten scalings in the alias table are exact)"),
    # wave-1 extension: general error bounds of the decimal model (Props/C02Dec.lean, Lemmas/DecBounds.lean)
    ("QcelVerif.Dec.ndigits_eq", "GENERAL: the model's digit count is 1 + floor(log10 n) for every natural number (no fuel limit)"),
    ("QcelVerif.Dec.fix_rel_err", "GENERAL: Decimal._fix (round to 28 significant digits, half-even, carry renormalised) changes any finite decimal by at most 5e-28 relative"),
    ("QcelVerif.Dec.fix_exact", "GENERAL: _fix is exact on every value that can be written with <= 28 significant digits (trailing zeros of long coefficients are dropped without error)"),
    ("QcelVerif.Dec.mul_rel_err", "GENERAL, all operands: |val(a*b in the model) - val a * val b| <= 5e-28 * |val a * val b|"),
    ("QcelVerif.Dec.add_rel_err", "GENERAL, all operands (zero operands, cancellation, any exponent gap): |val(a+b) - (val a + val b)| <= 5e-28 * |val a + val b|"),
    ("QcelVerif.Dec.sub_rel_err", "GENERAL, all operands: same for a-b"),
    ("QcelVerif.Dec.div_rel_err", "GENERAL, every divisor with non-zero coefficient: the model's quotient (29/30-digit truncated quotient + sticky digit + one rounding, as CPython computes it) exists and is within 5e-28 relative of val a / val b"),
    ("QcelVerif.Dec.div_by_zero", "GENERAL: a zero divisor is refused (none = DivisionByZero/InvalidOperation); the only operands excluded from div_rel_err"),
    ("QcelVerif.Dec.mul_exact", "GENERAL: a product that has <= 28 significant digits is returned exactly"),
    ("QcelVerif.Dec.mul_exact_of_digits", "GENERAL: if the product of the coefficients has <= 28 digits the result is the schoolbook triple (sign xor, coefficient product, exponent sum)"),
    ("QcelVerif.Dec.add_exact", "GENERAL: a sum that has <= 28 significant digits is returned exactly"),
    ("QcelVerif.Dec.sub_exact", "GENERAL: a difference that has <= 28 significant digits is returned exactly"),
    ("QcelVerif.Dec.div_exact", "GENERAL: a quotient that has <= 28 significant digits is returned exactly (an inexact 29/30-digit quotient never has <= 28 significant digits)"),
    ("QcelVerif.Dec.results_fit", "GENERAL: every result of mul/add/sub/div has a coefficient below 10^28"),
    (_C + "evalDec_approx", "GENERAL, any constants table / alias table / expression: decimal evaluation = exact rational evaluation times rho with (1-u)^n <= rho <= (1-u)^-n, u = 5e-28, n = number of mul/div nodes evaluated; in particular the exact evaluation succeeds whenever the decimal one does"),
    (_C + "evalDec_rel_err", "GENERAL: hence |decimal value - exact rational value| <= n*u/(1-n*u) * |exact| for every alias formula over arbitrary constant values"),
    (_C + "evalDec_exact_of_no_rounding", "GENERAL: a definition without mul/div nodes (plain constant, literal, alias of those) is evaluated exactly"),
    (_C + "aliasSpec_roundings", "the 27 alias definitions and the 3 derived constants each perform at most 3 rounded operations (kernel evaluation of the two definition lists, no constant values involved)"),
    (_C + "aliasClose_of_aliasOk", "GENERAL in the constants: for any table, an alias stored digit-for-digit as the decimal evaluation of a definition with <= 3 rounded operations is within 2e-27 relative of its exact rational definition"),
    (_C + "aliases_close_2014", "shipped 2014 instance of the 2e-27 bound for all 27 aliases, derived from the digit-for-digit clause of aliases_follow_spec_2014 through the general theorem (not a per-row evaluation)"),
    (_C + "aliases_close_2018", "same for 2018"),
    (_C + "derived_close_2018", "same for the 3 derived legacy constants of 2018"),
    # wave-5 extension: the definitions regenerated from context.py by harness/c02_src.py (Props/C02Src.lean, Lemmas/ConstantsSrc.lean)
    (_C + "source_translated", "the translator accepted context.py (otherwise a stub is generated and every source theorem below fails to build)"),
    (_C + "mangle_src_eq_model", "GENERAL, every string: str.translate with the table read from `_transtable = str.maketrans(...)` = the model's mangle (all 128 ASCII characters kernel-evaluated; other characters untouched by both because every table key is ASCII)"),
    (_C + "mangle_src_eq_model_ascii", "the same per character, for every ASCII character"),
    (_C + "renames_src_eq_model", "the rename dict of the source (2018 path, dict order) = the model's 26-entry renameMap; the 2014 path runs no rename loop"),
    (_C + "derived_src_eq_model", "the 3 tuples the 2018 path first assigns to `aliases` = the model's derived2018 (name, units, comment literally; expression trees equal after lower-casing constant names; pi literal of _get_pi inlined); none on the 2014 path"),
    (_C + "lowerPc_same_value", "GENERAL: lower-casing the constant names inside a definition never changes its Decimal (any table, any fuel)"),
    (_C + "extras_src_eq_model", "GENERAL in the table: the literal-key insertion of the source = the model's calorie-joule relationship (key, label, J, Decimal('4.184'), comment, no doi), both contexts"),
    (_C + "dataset_src_eq_model", "each context imports its own year's table (doi and constants from the same one); default argument and module singleton are CODATA2014"),
    (_C + "aliases_src_eq_spec_symbolic", "both sets: the 27 source tuples match the 27 specification entries in order by name/units/comment, and for 26 of them the normalised expression tree of the source IS the normalised tree of the documentation (lower-cased names, the two operands of each product in a fixed order, hartree2kJmol/cal2J inlined, calorie -> literal, legacy name -> 2018 name, derived constant -> its formula); no constant value involved; excluded: dipmom_au2debye"),
    (_C + "regrouped_differs", "the exclusion is necessary: for dipmom_au2debye the source tree (a*1.E21)/b differs from the documented a/(b*1.E-21) in both sets (value equality covers it)"),
    (_C + "sym_eq_same_value", "GENERAL, any table consistent with the normalisation environment: two definitions with equal normalised trees evaluate to the same Decimal whenever both evaluate"),
    (_C + "aliases_src_eq_spec_any_table", "GENERAL in the constant values: on every consistent table each of the 26 symbolically equal aliases gets the same Decimal from the code's arithmetic as from the documented formula"),
    (_C + "envOk_shipped", "both shipped contexts are consistent with their normalisation environment (non-vacuity of the general theorem; kernel)"),
    (_C + "aliases_src_eq_spec_value_2014", "2014, all 27 incl. the regrouped one: source expression evaluated on the table the code evaluates it on (before any alias is inserted) = documented formula on the finished context, digit for digit (kernel, regenerated tables)"),
    (_C + "aliases_src_eq_spec_value_2018", "same for 2018 (table = constants + calorie + 26 legacy names) and for the 3 derived constants against derived2018"),
    (_C + "context_src_eq_model_2014", "the whole pc built from the source-derived pieces in the code's staging = the model's pc (every key, order, label, units, Decimal, comment, doi), 2014"),
    (_C + "context_src_eq_model_2018", "same for 2018: all 30 tuples evaluated on the renamed table before any insertion = derived first, then documented formulas on the table holding them"),
    (_C + "ctx_src_eq_model_2014", "hence the whole context incl. attributes (source translate table) = the model's, 2014"),
    (_C + "ctx_src_eq_model_2018", "same for 2018"),
    (_C + "aliasSrc_roundings", "every source-derived definition (27 + 30) performs at most 3 rounded operations (kernel evaluation of the translated trees only)"),
    (_C + "aliases_src_stored_2014", "2014: every stored alias = its SOURCE expression in prec-28 decimal arithmetic digit for digit, also when re-evaluated on the finished context, with the tuple's label/units/comment and no doi"),
    (_C + "aliases_src_stored_2018", "same for the 30 tuples of 2018"),
    (_C + "aliases_src_close_2014", "aliases_close_2014 restated for the source-derived definitions: within 2e-27 relative of the exact rational value of the SOURCE formula, via the general theorem aliasClose_of_aliasOk"),
    (_C + "aliases_src_close_2018", "aliases_close_2018 + derived_close_2018 restated for the 30 source-derived definitions"),
    (_C + "aliases_src_exact_def_2014", "2014: each source-derived alias is within 2e-27 relative of the exact rational value of its DOCUMENTED definition (general rounding theorem on the source tree + kernel-checked identity in Q between the source formula and the documented one)"),
    (_C + "aliases_src_exact_def_2018", "same for 2018 and for the 3 derived constants"),
    (_C + "shipped_theorems_src_2014", "constants_retrievable / aliases_follow_spec / aliases_close / attrs_and_floats 2014 hold of the source-derived context"),
    (_C + "shipped_theorems_src_2018", "the 2018 ones incl. renames_2018, legacy_derived_2018, derived_close_2018 hold of the source-derived context"),
]
TRANSLATORS = [gen_codata.main, c02_src.gen_context_src]
TRUSTED_BASE = [
    "Lean 4.33 kernel (decide +kernel evaluation over the generated tables and the model's context construction; no native_decide); axioms audited per theorem",
    "tools/gen_codata.py: re-encodes nist_201{4,8}_codata.py (ast.literal_eval), codata-201{4,8}.txt (column slices only) and the SRD-121 JSON as packed naturals; cross-checked because the Lean driver reads the same generated tables and is compared with the running implementation on every key",
    "hand-written model Model/Constants.lean of context.py:72-245 and Model/Dec.lean of Python decimal (prec 28, ROUND_HALF_EVEN) + float(Decimal); tied by exhaustive correspondence (every key x 4 casings x 4 access paths x 3 contexts, key order, attribute set) and a random + structured decimal-arithmetic / float-conversion stream against CPython (structured classes: 28+ and 2000+ digit coefficients, exact ties at the 29th digit, carries to the next power of ten, exponent gaps around and far beyond the precision, results dropping below a power of ten, signed zeros, sticky-digit and exact quotients; their distribution is printed in the evidence under dec:*)",
    "that Model/Dec.lean IS CPython's decimal remains differential (the stream above); what is now PROVED about the model for all operands is that each of mul/div/add/sub is correctly rounded (<= 5e-28 relative), exact whenever the exact result has <= 28 significant digits, and that errors compose along the alias formulas as n*u/(1-n*u)",
    "Mathlib (ordered-field lemmas, Nat.log, Bernoulli's inequality, ring/linarith/nlinarith/field_simp/norm_num) in Lemmas/DecBounds.lean and Props/C02Dec.lean only; Model files stay core-only",
    "the alias specification (Model/Constants.lean aliasSpec) is a hand transcription of the documentation block context.py:247-271; the CODE's alias arithmetic, rename dict, derived constants, calorie insertion and translate table are no longer only tied to it differentially: they are regenerated from the source (next item) and proved equal to the model's",
    "harness/c02_src.py: reads context.py by `ast` (never imports it), executes __init__ symbolically per context string and emits Gen/ContextSrc.lean (expression trees over pc / Decimal literal / mul / div; anything else - +, -, **, floats, Decimal(float), upper-case or computed keys, other statements touching self.pc, another staging - is refused and breaks the obligations). Trusted for: the reading of Python's evaluation order (all tuples evaluated before the insertion loop), int operand -> Decimal conversion being exact, and the shape checks of the loops it does not translate (constant loop, rename-loop body, insertion loop, attribute loop are compared structurally with the statements the hand-written model transcribes). Cross-checked: the driver evaluates the generated trees and is compared three-way (source tree / source-built context / specification) with the running implementation on every computed entry, and the source translate table on every label, every ASCII character and random strings",
    "the oracle's own reading of the raw NIST tables and its own alias formulas in exact fractions",
    "CPython decimal / float(str) (checked digit-for-digit / bit-for-bit against the model on every value the run touches)",
]
ASSUMPTIONS = [
    "ASCII names only (str.lower/str.translate on non-ASCII are outside the model)",
    "default decimal context at import time (prec 28, ROUND_HALF_EVEN); exponent limits Emin/Emax not modelled (no overflow / subnormal / clamping: the Dec.*_rel_err theorems are about unbounded exponents), NaN/Infinity operands and signal traps are outside the model; float model valid for |decimal exponent| < ~2400",
    "float(Decimal) nearest-double is NOT proved for all decimals (Dec.toF64's log2 search is valid below 2^8192): kernel-checked per shipped entry and compared bit for bit with CPython on the stream",
    "pydantic Datum construction/validation is not modelled (only label, units, data, comment, doi are compared)",
    "construction sequences: single process, single thread; orders of up to 5 constructions per sequence (all earlier sequences' contexts remain part of the process history); a change of an earlier instance that leaves it conforming to the property is recorded in the evidence notes, not reported as a violation",
    "attribute access is modelled for the float attributes set by the constant loop only (pc, doi, name, year, raw_codata, _ureg excluded)",
    "source translation is AST-shaped: a rewrite of context.py that keeps every stored value but leaves the translated language (helper variables, +/-, another loop shape or staging) or re-associates a formula (other than swapping the two operands of a product, which normalisation absorbs) breaks an obligation of Props/C02Src.lean and is reported as `VIOLATION ... no-failing-input-found` naming that obligation, although the property still holds; the remedy is to extend the translator / the `regrouped` list (value equality then still has to hold), never the oracle",
]
RULE = (
    "exhaustive: for CODATA2014, CODATA2018 and the default singleton, every NIST row name (read by the oracle from raw_data/nist_data/codata-*.txt; a row on which that file departs from the reading pinned in harness/data/refpins.json.gz - tools/mk_refpins.py - is judged against the pin, so a consistent edit of raw file and shipped table is still reported), "
    "the calorie-joule relationship, all 27 aliases, the 26 legacy names and 3 derived constants (2018), plus every further key the implementation holds, "
    "x {exact, lower, upper, random mixed case} x {get, get(return_tuple), attribute (name mangled by the harness), pc[...]}; "
    "plus pc key order and attribute-name set per context, near-miss / foreign names (KeyError paths), and a seeded stream of random Decimal "
    "add/sub/mul/div and float(Decimal) cases against CPython; three-way source stream: for every computed entry (27 aliases, calorie, and in 2018 the 26 legacy names and 3 derived constants) of the three contexts the Decimal of "
    "(source tree evaluated by the driver | entry of the source-built context | entry of the specification-built context) against the implementation's stored Decimal, and the source translate table against "
    "str.translate(_transtable) on every label of every context, each of the 128 ASCII characters and random ASCII strings rich in the table's characters; followed by a structured decimal stream drawn uniformly from the classes "
    "long (28-90 digit coefficients), tie (exact result ends in 5/50/500.. right after the 28th digit, built as operand*1, n*f/f, c*10^k + half, products), "
    "carry (28 nines then >= half: the rounded coefficient reaches 10^28), expgap (add/sub, exponent gaps 0..3000 incl. 26-32), cross-down (10^k minus something tiny), "
    "zero (signed zeros of assorted exponents against zeros and long operands), huge (1999-3100 digit coefficients), div-sticky (inexact quotient whose truncated expansion ends in 0 or 5), "
    "div-exact (representable quotients, trailing-zero stripping); every D case is profiled from CPython's answer with exact fractions (dec:* keys of the distribution). "
    "Construction-sequence stream (runs last): fresh PhysicalConstantsContext objects are built inside this one process in varied orders - fixed orders first "
    "(2014 after 2018, 2018 after 2014, each set twice, 2018/default-arg/2018/2014), then random sequences of 2-5 constructions ('CODATA2014', 'CODATA2018', no argument) "
    "interleaved with uses of earlier instances, the singleton and the harness' own contexts (get in random case, get(return_tuple), attribute, pc[...], string_representation, "
    "Quantity, conversion_factor, ureg); after EVERY construction the new instance gets the full oracle sweep (every NIST row of its set, calorie, aliases, renames, derived x "
    "{get(return_tuple), get, attribute, pc[lower]}) plus key order / attribute set / every Datum against the model, and every instance built earlier (incl. singleton) is "
    "re-examined: its observable state (pc by value in order, float attributes, what attribute access resolves to) is compared with what it was when built and, if it differs, "
    "the full oracle is re-run on it. A finding's case carries the whole construction history (prior sequences' constructions + this sequence's steps) and replays it. "
    "Distinct = (context, mode, name as sent) resp. (prior constructions, sequence prefix); non-trivial = name is not the "
    "stored lower-case key spelled exactly, or the entry is computed (alias / legacy / derived), or an arithmetic case, or a construction in a sequence."
)
LEVEL_TEXT = (
    "REGENERATED FROM SOURCE (wave-5): the 27+30 alias tuples with their Decimal expression trees, the rename dict, the three derived constants, the calorie insertion, the translate table and the data-table / default-context choice are translated from context.py on every run; proved: translate table = mangle on every string; rename dict, derived constants, calorie insertion = the model's; 26 of 27 aliases symbolically equal to the documentation after normalisation (hence equal Decimals on ANY consistent table of constants), the regrouped dipmom_au2debye and all others digit for digit on the shipped tables; the whole context built from the source-derived pieces in the code's own staging equals the model's context, so every table theorem holds of it; each source-derived alias within 2e-27 of its documented exact rational definition through the general rounding theorem. Still hand-modelled and differential: the constant loop, the bodies of the rename / insertion / attribute loops (shape-checked by the translator), get, Datum. "
    "Otherwise: proof by kernel evaluation over the complete finite tables (shipped = NIST for both sets; context contents; aliases = spec; renames; floats nearest) "
    "+ general case-insensitivity lemma; the model is tied to context.py by exhaustive correspondence, the alias spec to the code digit-for-digit. "
    "The decimal model's error analysis is now proved in general (all operands, no table): each of Dec.mul/div/add/sub is correctly rounded (relative error <= 5e-28; only a zero divisor is excluded, and refused), "
    "exact whenever the exact result has <= 28 significant digits, every result fits 28 digits, and along any alias formula over ARBITRARY constant values the error is <= n*u/(1-n*u) (n = mul/div nodes, n <= 3 for all 30 shipped definitions), "
    "so the 2e-27 bound of every alias follows from the digit-for-digit clause by a general theorem (aliases_close_2014/2018, derived_close_2018); the per-row kernel check of the bound is kept as well. "
    "Instances are checked in construction SEQUENCES too (state leaking between instances - mutable defaults, class attributes, shared dicts - shows as an oracle finding on the instance it corrupts, with the construction order in the replay); the model is a pure function of the tables, so order-independence is a property of the model by construction and of the code by this differential stream only. "
    "Partial: that the model equals CPython's decimal is differential (random + structured stream incl. ties, carries, 2000+ digit coefficients), exponent limits Emin/Emax are not modelled, "
    "and float(Decimal) = nearest double is kernel-checked per shipped entry and compared with CPython on a stream, not proved for all decimals."
)
TECHNIQUE = "Lean 4 decide +kernel over translator-generated tables + general (Mathlib) error analysis of the executable Decimal model + exhaustive differential correspondence + fractions oracle"

MODES = ("get", "tuple", "attr", "item")

# ---- the oracle's own statement of the specification ---------------------------------------

RENAMES_OLD_TO_NEW = {  # 2014 NIST name -> 2018 NIST name (the 26 legacy renames of the property)
    "atomic unit of mom.um": "atomic unit of momentum",
    "Planck constant over 2 pi": "reduced Planck constant",
    "Planck constant over 2 pi in eV s": "reduced Planck constant in eV s",
    "Planck constant over 2 pi times c in MeV fm": "reduced Planck constant times c in MeV fm",
    "natural unit of mom.um": "natural unit of momentum",
    "natural unit of mom.um in MeV/c": "natural unit of momentum in MeV/c",
    "electron gyromag. ratio over 2 pi": "electron gyromag. ratio in MHz/T",
    "mag. constant": "vacuum mag. permeability",
    "{220} lattice spacing of silicon": "lattice spacing of ideal Si (220)",
    "Planck constant in eV s": "Planck constant in eV/Hz",
    "Bohr magneton in inverse meters per tesla": "Bohr magneton in inverse meter per tesla",
    "Boltzmann constant in inverse meters per kelvin": "Boltzmann constant in inverse meter per kelvin",
    "Cu x unit": "Copper x unit",
    "Mo x unit": "Molybdenum x unit",
    "proton gyromag. ratio over 2 pi": "proton gyromag. ratio in MHz/T",
    "shielded proton gyromag. ratio over 2 pi": "shielded proton gyromag. ratio in MHz/T",
    "proton Compton wavelength over 2 pi": "reduced proton Compton wavelength",
    "tau Compton wavelength over 2 pi": "reduced tau Compton wavelength",
    "tau mass energy equivalent in MeV": "tau energy equivalent",
    "neutron Compton wavelength over 2 pi": "reduced neutron Compton wavelength",
    "neutron gyromag. ratio over 2 pi": "neutron gyromag. ratio in MHz/T",
    "nuclear magneton in inverse meters per tesla": "nuclear magneton in inverse meter per tesla",
    "shielded helion gyromag. ratio over 2 pi": "shielded helion gyromag. ratio in MHz/T",
    "Compton wavelength over 2 pi": "reduced Compton wavelength",
    "electric constant": "vacuum electric permittivity",
    "muon Compton wavelength over 2 pi": "reduced muon Compton wavelength",
}
PI50 = Fraction("3.14159265358979323846264338327950288419716939937510")
ALIAS_NAMES = [
    "h", "hbar", "c", "kb", "R", "bohr2angstroms", "bohr2m", "bohr2cm", "amu2g", "amu2kg", "au2amu", "hartree2J", "hartree2aJ",
    "cal2J", "dipmom_au2si", "dipmom_au2debye", "dipmom_debye2si", "c_au", "hartree2ev", "hartree2wavenumbers", "hartree2kcalmol",
    "hartree2kJmol", "hartree2MHz", "na", "me", "kcalmol2wavenumbers", "e0",
]
DERIVED_NAMES = ["molar Planck constant times c", "Faraday constant for conventional electric current", "elementary charge over h"]
REL_TOL = Fraction(1, 10**26)  # three correctly rounded 28-digit operations stay far inside


REPINNED = []


def nist_table(year: int):
    """nist_table_raw(year) with every row on which the working tree's raw file departs from the pinned reading of NIST's published
    table (tools/mk_refpins.py, harness/data/refpins.json.gz) replaced by the PINNED row; a pinned row the raw file lost is re-inserted."""
    import gzip
    from pathlib import Path

    rows = nist_table_raw(year)
    p = Path(__file__).resolve().parent / "data/refpins.json.gz"
    if not p.exists():
        return rows
    pin = [tuple(r) for r in json.loads(gzip.open(p).read())["codata"][str(year)]]
    if rows != pin:
        have = {r[0]: r for r in rows}
        for r in pin:
            if have.get(r[0]) != r:
                REPINNED.append((year, r[0], have.get(r[0]), r))
        extra = [r for r in rows if r[0] not in {q[0] for q in pin}]
        rows = pin + extra
    return rows


def nist_table_raw(year: int):
    """Independent reading of the raw NIST ASCII table: [(name, value text, uncertainty, unit)]."""
    rows = []
    started = False
    for line in (common.REPO / f"raw_data/nist_data/codata-{year}.txt").read_text().splitlines():
        if line.startswith("-----"):
            started = True
            continue
        if not started or not line.strip():
            continue
        name, value, unc, unit = line[:60].strip(), line[60:85].strip(), line[85:110].strip(), line[110:].strip()
        if unc == "(exact)":
            value = value.replace("...", "")
        rows.append((name, value.replace(" ", ""), unc, unit))
    return rows


def derived_formulas(N):
    return {
        "molar Planck constant times c": N("molar Planck constant") * N("speed of light in vacuum"),
        "Faraday constant for conventional electric current": N("Faraday constant") / N("conventional value of coulomb-90"),
        "elementary charge over h": N("elementary charge over h-bar") / (2 * PI50),
    }


def alias_formulas(N):
    """The documented definitions (context.py docstring block) in exact rational arithmetic."""
    cal = Fraction("4.184")
    eh, na = N("Hartree energy"), N("Avogadro constant")
    return {
        "h": N("hertz-joule relationship"),
        "hbar": N("Planck constant over 2 pi"),
        "c": N("inverse meter-hertz relationship"),
        "kb": N("kelvin-joule relationship"),
        "R": N("molar gas constant"),
        "bohr2angstroms": N("Bohr radius") * 10**10,
        "bohr2m": N("Bohr radius"),
        "bohr2cm": N("Bohr radius") * 100,
        "amu2g": N("atomic mass constant") * 1000,
        "amu2kg": N("atomic mass constant"),
        "au2amu": N("electron mass in u"),
        "hartree2J": eh,
        "hartree2aJ": eh * 10**18,
        "cal2J": cal,
        "dipmom_au2si": N("atomic unit of electric dipole mom."),
        "dipmom_au2debye": N("atomic unit of electric dipole mom.") / (N("hertz-inverse meter relationship") * Fraction(1, 10**21)),
        "dipmom_debye2si": N("hertz-inverse meter relationship") * Fraction(1, 10**21),
        "c_au": N("inverse fine-structure constant"),
        "hartree2ev": N("Hartree energy in eV"),
        "hartree2wavenumbers": N("hartree-inverse meter relationship") / 100,
        "hartree2kcalmol": eh * na / 1000 / cal,
        "hartree2kJmol": eh * na / 1000,
        "hartree2MHz": N("hartree-hertz relationship") / 10**6,
        "na": na,
        "me": N("electron mass"),
        "kcalmol2wavenumbers": 10 * cal / N("molar Planck constant times c"),
        "e0": N("electric constant"),
    }


class Spec:
    """What the property demands of one context, computed from the raw NIST files only."""

    def __init__(self, year: int):
        self.year = year
        self.rows = nist_table(year)
        self.by_lower = {r[0].lower(): r for r in self.rows}
        self.exact = {}  # lower name -> Fraction (aliases / derived)
        if year == 2018:
            self.exact.update({k.lower(): v for k, v in derived_formulas(self.N).items()})
        self.exact.update({k.lower(): v for k, v in alias_formulas(self.N).items()})

    def N(self, name: str) -> Fraction:
        k = name.lower()
        if k in self.by_lower:
            return Fraction(self.by_lower[k][1])
        if self.year == 2018:
            if name in RENAMES_OLD_TO_NEW:
                return Fraction(self.by_lower[RENAMES_OLD_TO_NEW[name].lower()][1])
            if k in self.exact:
                return self.exact[k]
        raise KeyError(name)

    def names(self):
        """[(name as the property writes it, tag)]"""
        out = [(r[0], "nist") for r in self.rows]
        out.append(("calorie-joule relationship", "calorie"))
        if self.year == 2018:
            out += [(o, "rename") for o in RENAMES_OLD_TO_NEW]
            out += [(d, "derived") for d in DERIVED_NAMES]
        out += [(a, "alias") for a in ALIAS_NAMES]
        return out


def hexs(s: str) -> str:
    return s.encode("utf-8").hex()


def mangle(label: str) -> str:
    """the documented attribute spelling: blank, '-', '{' -> '_'; '/' -> 'p'; '.', ',', '(', ')', '}' dropped"""
    out = []
    for ch in label:
        if ch in " -{":
            out.append("_")
        elif ch == "/":
            out.append("p")
        elif ch in ".,()}":
            continue
        else:
            out.append(ch)
    return "".join(out)


def unbrace(u: str) -> str:
    return u.replace("{", "").replace("}", "")


def fbits(f: float) -> int:
    return struct.unpack(">Q", struct.pack(">d", f))[0]


def dec_triple(d: Decimal) -> str:
    t = d.as_tuple()
    if not isinstance(t.exponent, int):
        return "special " + str(d)
    return f"{t.sign} {int(''.join(map(str, t.digits)))} {t.exponent}"


def show_datum(q) -> str:
    data = q.data
    dt = dec_triple(data) if isinstance(data, Decimal) else f"NOT-DECIMAL {type(data).__name__} {data!r}"
    return "ok d " + "|".join([hexs(q.label), hexs(q.units), dt, hexs(q.comment), hexs(q.doi) if q.doi is not None else "N"])


def mixed(rng, s):
    return "".join(c.upper() if rng.random() < 0.5 else c.lower() for c in s)


def nearest_double_problem(f, d: Decimal):
    """None if f is the double nearest to d (exact rational check), else a description."""
    if not isinstance(f, float):
        return f"not a float: {type(f).__name__}"
    if f != float(str(d)):
        return f"{f!r} != float(str(decimal)) = {float(str(d))!r}"
    fr, dr = Fraction(f), Fraction(d)
    for nb in (math.nextafter(f, math.inf), math.nextafter(f, -math.inf)):
        if abs(Fraction(nb) - dr) < abs(fr - dr):
            return f"{nb!r} is closer to {d} than {f!r}"
    return None


# ---- structured decimal-arithmetic cases (wave-1 extension) --------------------------------
# Each class aims at one branch of Model/Dec.lean (`fix`, the sticky digit of `div`, `padTo`, the
# sign rules of `add`) that uniformly random operands reach rarely or never.

def _digits(rng, n: int) -> str:
    """a coefficient of exactly n digits (no leading zero)"""
    return str(rng.randrange(10 ** (n - 1), 10 ** n)) if n > 1 else str(rng.randrange(1, 10))


def _sci(rng, coeff: str, exp=None, neg=None) -> str:
    """spell coeff * 10^exp as decimal text (sign, optional point moved into the digits, exponent)"""
    if exp is None:
        exp = rng.randint(-60, 60)
    if neg is None:
        neg = rng.random() < 0.45
    if rng.random() < 0.4 and len(coeff) > 1:
        p = rng.randrange(1, len(coeff))
        exp += len(coeff) - p
        coeff = coeff[:p] + "." + coeff[p:]
    t = ("-" if neg else "") + coeff
    if exp != 0 or rng.random() < 0.3:
        t += rng.choice("eE") + (rng.choice(["", "+"]) if exp >= 0 else "") + str(exp)
    return t


DEC_CLASSES = ("long", "tie", "carry", "expgap", "zero", "huge", "div-sticky", "div-exact", "cross-down")


def structured_dec_case(rng):
    """-> (op, text a, text b, class)"""
    cls = rng.choice(DEC_CLASSES)
    if cls == "long":  # 28+ digit coefficients on both sides, any operation
        a = _sci(rng, _digits(rng, rng.choice([28, 29, 30, 31, 35, 40, 56, 57, 60, 90])))
        b = _sci(rng, _digits(rng, rng.choice([1, 5, 27, 28, 29, 30, 40, 57])))
        return rng.choice(["add", "sub", "mul", "div"]), a, b, cls
    if cls == "tie":  # the exact result ends in 5, 50, 500.. right after the 28th digit (half-even both ways)
        k = rng.choice([1, 1, 2, 3, 7])
        c = _digits(rng, 28)
        half = "5" + "0" * (k - 1)
        e = rng.randint(-40, 40)
        neg = rng.random() < 0.5
        how = rng.randrange(6)
        if how == 0:  # 29+-digit operand times one
            return "mul", _sci(rng, c + half, e, neg), rng.choice(["1", "-1", "1.0", "1E+3", "10"]), cls
        if how == 1:  # product of two factors: (c*10^k + half) = m * f with a small exact factor f
            f = rng.choice([2, 4, 5, 8, 16, 25, 125])
            n = int(c + half) * f
            return "div", _sci(rng, str(n), e, neg), rng.choice([str(f), "-" + str(f), str(f) + ".0"]), cls
        if how == 2:  # sum: c * 10^k  +  half
            sgn = "-" if neg else ""
            return "add", sgn + c + "0" * k + "E" + str(e), sgn + half + "E" + str(e), cls
        if how == 3:  # difference: c * 10^k  -  (-half)
            sgn = "-" if neg else ""
            osg = "" if neg else "-"
            return "sub", sgn + c + "0" * k + "E" + str(e), osg + half + "E" + str(e), cls
        if how == 4:  # product whose exact value is a tie: (c*10^k + half) = x * y with y | it
            n = int(c + half)
            for y in (5, 3, 7, 11, 13, 15, 25, 35, 45):
                if n % y == 0:
                    return "mul", _sci(rng, str(n // y), e, neg), str(y), cls
            return "mul", _sci(rng, str(n), e, neg), "1", cls
        return "div", _sci(rng, c + half, e, neg), "1", cls
    if cls == "carry":  # 999...9.5 -> 1000...0 : the rounded coefficient reaches 10^28
        tail = rng.choice(["5", "50", "51", "6", "9", "99", "999", "500000001", "4999", "49"])
        n = "9" * 28 + tail
        e = rng.randint(-40, 40)
        neg = rng.random() < 0.5
        how = rng.randrange(4)
        if how == 0:
            return "mul", _sci(rng, n, e, neg), rng.choice(["1", "-1", "1.00"]), cls
        if how == 1:
            return "div", _sci(rng, n, e, neg), rng.choice(["1", "-1", "1E-5"]), cls
        if how == 2:
            sgn = "-" if neg else ""
            return "add", sgn + "9" * 28 + "0" * len(tail) + "E" + str(e), sgn + tail + "E" + str(e), cls
        return "mul", _sci(rng, str(int(n) // 3 if int(n) % 3 == 0 else int(n)), e, neg), ("3" if int(n) % 3 == 0 else "1"), cls
    if cls == "expgap":  # add/sub with very different exponents (around the 28/29/30-digit window and far beyond)
        gap = rng.choice([0, 1, 5, 20, 26, 27, 28, 29, 30, 31, 32, 40, 57, 100, 400, 3000])
        ca, cb = _digits(rng, rng.choice([1, 3, 10, 27, 28, 29, 35])), _digits(rng, rng.choice([1, 2, 10, 28, 30]))
        e = rng.randint(-30, 30)
        a = _sci(rng, ca, e + gap)
        b = _sci(rng, cb, e)
        if rng.random() < 0.5:
            a, b = b, a
        return rng.choice(["add", "sub"]), a, b, cls
    if cls == "cross-down":  # 10^k minus something tiny: the result drops below a power of ten (99999...)
        k = rng.randint(0, 40)
        gap = rng.choice([1, 5, 27, 28, 29, 30, 31, 60, 500])
        tiny = _digits(rng, rng.choice([1, 1, 2, 5, 29]))
        big = "1" + "0" * rng.choice([0, 0, 3, 27, 28])
        a = big + "E" + str(k)
        b = tiny + "E" + str(k - gap)
        if rng.random() < 0.5:
            return "sub", a, b, cls
        return "add", ("-" + a if rng.random() < 0.5 else a), ("-" + b), cls
    if cls == "zero":  # zero operands with assorted signs / exponents (padTo and the sign rules of 0 + 0)
        z = rng.choice(["0", "-0", "0.000", "-0E-40", "0E+50", "0E-3000", "00.0e5"])
        o = rng.choice([z, _sci(rng, _digits(rng, rng.choice([1, 5, 28, 29, 33]))), "0E-7", "-0E+9"])
        if rng.random() < 0.5:
            z, o = o, z
        return rng.choice(["add", "sub", "mul", "div"]), z, o, cls
    if cls == "huge":  # coefficients far beyond the old 2000-digit fuel of `ndigits`
        a = _sci(rng, _digits(rng, rng.choice([1999, 2000, 2001, 2002, 2300, 3100])))
        b = _sci(rng, _digits(rng, rng.choice([1, 7, 28, 29, 2001, 2500])))
        if rng.random() < 0.5:
            a, b = b, a
        return rng.choice(["add", "sub", "mul", "div"]), a, b, cls
    if cls == "div-sticky":  # inexact quotient whose truncated 29/30-digit expansion ends in 0 or 5
        d = int(_digits(rng, rng.choice([2, 3, 9, 17, 28, 29])))
        q = int(_digits(rng, 28) + rng.choice(["0", "5", "00", "50", "05", "95"]))
        rem = rng.randrange(1, d) if d > 1 else 0
        n = q * d + rem
        return "div", _sci(rng, str(n)), _sci(rng, str(d)), cls
    if cls == "div-exact":  # exactly representable quotients (trailing-zero stripping towards the ideal exponent)
        d = int(_digits(rng, rng.choice([1, 2, 5, 14, 28])))
        q = int(_digits(rng, rng.choice([1, 3, 14, 27, 28]))) * 10 ** rng.choice([0, 0, 1, 2, 5])
        return "div", _sci(rng, str(q * d)), _sci(rng, str(d)), cls
    raise ValueError(cls)


def dec_case_profile(line: str, got: str):
    """Distribution keys of one `D` case, computed from CPython's answer and exact fractions only."""
    p = line.split(" ")
    op = p[1]
    keys = ["dec-op:" + op]
    try:
        x, y = Decimal(bytes.fromhex(p[2]).decode()), Decimal(bytes.fromhex(p[3]).decode())
    except Exception:  # noqa
        return keys + ["dec:unparsable-operand"]
    tx, ty = x.as_tuple(), y.as_tuple()
    nx, ny = len(tx.digits), len(ty.digits)
    if max(nx, ny) >= 28:
        keys.append("dec:operand-coefficient>=28-digits")
    if max(nx, ny) > 2000:
        keys.append("dec:operand-coefficient>2000-digits")
    if tx.sign or ty.sign:
        keys.append("dec:negative-operand")
    if not x or not y:
        keys.append("dec:zero-operand")
    if op in ("add", "sub") and x and y:
        gap = abs(x.adjusted() - y.adjusted())
        keys.append("dec:add-sub-exponent-gap:" + ("0-26" if gap < 27 else "27-31" if gap <= 31 else ">31"))
    if not got.startswith("ok"):
        return keys + ["dec:signal"]
    fx, fy = Fraction(x), Fraction(y)
    exact = {"add": lambda: fx + fy, "sub": lambda: fx - fy, "mul": lambda: fx * fy, "div": lambda: fx / fy}[op]()
    g = got.split(" ")
    rc, re_ = int(g[2]), int(g[3])
    res = Fraction(rc) * Fraction(10) ** re_ * (-1 if g[1] == "1" else 1)
    if exact == 0:
        return keys + ["dec:zero-result"]
    if res == exact:
        keys.append("dec:result-exact")
        return keys
    keys.append("dec:result-rounded")
    # position of the 28-digit grid around |exact|: ulp = 10^E with 10^27 <= |exact|/ulp < 10^28
    ax = abs(exact)
    E = int((ax.numerator.bit_length() - ax.denominator.bit_length()) * 0.30103) - 28  # estimate, corrected below
    while ax >= Fraction(10) ** (E + 28):
        E += 1
    while ax < Fraction(10) ** (E + 27):
        E -= 1
    t = ax / Fraction(10) ** E
    fl = t.numerator // t.denominator
    frac = t - fl
    if frac == Fraction(1, 2):
        keys.append("dec:tie-at-29th-digit:" + ("kept-even" if fl % 2 == 0 else "rounded-up-to-even"))
    if fl == 10 ** 28 - 1 and abs(res) == Fraction(10) ** (E + 28):
        keys.append("dec:rounding-carried-to-next-power-of-ten")
    if abs(res - exact) * 10 ** 28 > 5 * ax:
        keys.append("dec:CPYTHON-RESULT-OUTSIDE-HALF-ULP")  # would contradict Dec.*_rel_err; never expected
    return keys


class Env:
    def __init__(self):
        import qcelemental as qcel
        from qcelemental.physical_constants.context import PhysicalConstantsContext

        self.ctxs = {
            "2014": PhysicalConstantsContext("CODATA2014"),
            "2018": PhysicalConstantsContext("CODATA2018"),
            "default": qcel.constants,
        }
        self.specs = {"2014": Spec(2014), "2018": Spec(2018)}
        self.specs["default"] = self.specs["2014"]  # the documented default set is CODATA2014
        self.cls = PhysicalConstantsContext
        # construction-sequence stream: state of the sequences executed so far in this process
        self.seq_log = []  # set names ("2014"/"2018") of every context constructed by sequences, in order
        self.seqs = {}  # sequence id -> {"done": steps executed, "inst": [contexts], "sets": [...], "snaps": [...]}
        self.base_snaps = {k: snapshot(c) for k, c in self.ctxs.items()}

    # -- which context object / which specification a case is about
    def ctx_of(self, case):
        if "seq" in case:
            st = ensure_sequence(self, case["seq"], case["upto"])
            if "base" in case:  # the singleton / one of the harness' own contexts, looked at after the sequence's steps
                return self.ctxs[case["base"]]
            return st["inst"][case["target"]]
        return self.ctxs[case["ctx"]]

    def spec_of(self, case) -> "Spec":
        return self.specs[case.get("spec", case["ctx"])]


# ---- construction sequences (state leaking between PhysicalConstantsContext instances) -------
# The property quantifies over "both contexts and the default singleton"; it says nothing about the
# order in which contexts come into being, so it must hold for EVERY instance however many other
# instances were built, used or discarded before or after it in the same process.

SET_OF = {"2014": "2014", "2018": "2018", "default-arg": "2014"}  # constructor spelling -> CODATA set
for _b in ("2014", "2018"):
    for _v in ("copy", "deepcopy", "pickle"):
        SET_OF[f"{_b}:{_v}"] = _b


def call_get(c, sent, tup: bool):
    """get() through one of the call forms its documented signature get(physical_constant, return_tuple=False) allows — flag by keyword,
    flag positionally, everything by keyword, (float form: flag omitted) — chosen by a checksum of the name, so a replay takes the same form"""
    import zlib

    k = zlib.crc32(sent.encode("utf-8", "replace")) % 3
    if k == 0:
        return c.get(sent, return_tuple=True) if tup else c.get(sent)
    if k == 1:
        return c.get(sent, True) if tup else c.get(sent, False)
    return c.get(physical_constant=sent, return_tuple=tup)


def _derive(c, via: str):
    """the same context taken through the object protocol an application may well use: copy.copy / copy.deepcopy / a pickle round trip"""
    import copy
    import pickle

    if via == "copy":
        return copy.copy(c)
    if via == "deepcopy":
        return copy.deepcopy(c)
    if via == "pickle":
        return pickle.loads(pickle.dumps(c))
    raise ValueError(via)


def construct(env, how: str):
    if ":" in how:  # "2018:deepcopy": a fresh context of that set, taken through the object protocol before anything else touches it
        base, via = how.split(":")
        return _derive(construct(env, base), via)
    if how == "default-arg":
        return env.cls()  # PhysicalConstantsContext() -- documented default CODATA2014
    return env.cls("CODATA" + how)


def construct_on_dead(env, how: str, dead: str, tries: int = 150):
    """A context of set `how` that lives at the ADDRESS of a discarded, fully used context of set `dead`: build the other one,
    look every name up on it the way the sweep does (get / get(return_tuple=True) / attribute / pc[...]), drop it, collect, build
    the wanted one; repeat until the allocator hands the freed block out again (usual within a few tries, not certain: after
    `tries` attempts the last one is used as it is).  Nothing remembered about a dead instance may be served to a live one."""
    import gc

    names = [n for n, _ in env.specs[SET_OF[dead]].names()]
    c = None
    for _ in range(tries):
        d = construct(env, dead)
        for n in names:
            for f in (lambda: d.get(n), lambda: d.get(n, return_tuple=True), lambda: getattr(d, mangle(n)), lambda: d.pc[n.lower()]):
                try:
                    f()
                except Exception:  # noqa
                    pass
        addr = id(d)
        del d, f
        gc.collect()
        c = construct(env, how)
        if id(c) == addr:
            env.dead_reuse = getattr(env, "dead_reuse", 0) + 1
            return c
        del c
        c = None
    return construct(env, how)


def snapshot(c):
    """Everything the property looks at on one instance, by value: pc in order + the float attributes."""
    if c is None:
        return None
    pcs = []
    for k, q in c.pc.items():
        d = q.data
        pcs.append((k, q.label, q.units, dec_triple(d) if isinstance(d, Decimal) else repr(d), q.comment, q.doi))
    attrs = tuple((a, fbits(v)) for a, v in vars(c).items() if isinstance(v, float))
    # what attribute access resolves to (instance OR class level) for every label the context holds
    seen = []
    for q in c.pc.values():
        v = getattr(c, mangle(q.label), None)
        seen.append(fbits(v) if isinstance(v, float) else repr(type(v)))
    return (tuple(pcs), attrs, tuple(seen))


def do_use(env, st, step):
    """an interleaved use of an earlier instance (or the singleton / the harness' own contexts); never asserts"""
    on = step["on"]
    what, arg = step["what"], step.get("arg")
    if what == "forget":
        # the caller drops its last reference to an instance built by this sequence: the object is freed, and a context constructed
        # later may well live at the same address — nothing remembered about the dead instance may be served to the new one
        import gc

        if isinstance(on, int) and on < len(st["inst"]):
            st["inst"][on] = None
            st["snaps"][on] = None
            gc.collect()
        return "ok"
    c = env.ctxs[on] if isinstance(on, str) else st["inst"][on]
    if c is None:
        return "skipped"
    try:
        if what == "get":
            c.get(arg)
        elif what == "tuple":
            c.get(arg, return_tuple=True)
        elif what == "attr":
            getattr(c, arg)
        elif what == "item":
            c.pc[arg]
        elif what == "conv":
            c.conversion_factor(*arg)
        elif what == "ureg":
            c.ureg  # noqa: B018  (lazily builds the pint registry of this context)
        elif what == "repr":
            c.string_representation()
            str(c)
        elif what == "quantity":
            c.Quantity(arg)
        elif what == "aux":
            import sideeffects

            sideeffects.exercise()
        elif what == "siblings":
            # the library's other table objects share helpers (datum.print_variables, Datum) with the constants
            import qcelemental as qcel

            qcel.covalentradii.string_representation()
            qcel.vdwradii.string_representation()
            qcel.periodictable.to_mass("kr84", return_decimal=True)
            qcel.covalentradii.get("C", return_tuple=True).to_units("bohr")
        return "ok"
    except Exception as e:  # noqa
        return "raised:" + type(e).__name__


def ensure_sequence(env, seq, upto: int):
    """Execute the sequence's steps 0..upto (once).  On a fresh process (replay) first re-create the
    contexts that earlier sequences had constructed (`prior`), so that a replay sees the same history."""
    sid = seq["id"]
    st = env.seqs.get(sid)
    if st is None:
        prior = seq.get("prior", [])
        while len(env.seq_log) < len(prior):
            how = prior[len(env.seq_log)]
            construct(env, how)
            env.seq_log.append(how)
        st = env.seqs[sid] = {"done": 0, "inst": [], "sets": [], "snaps": [], "uses": []}
    while st["done"] <= upto:
        step = seq["steps"][st["done"]]
        if step["do"] == "new":
            try:
                c = construct_on_dead(env, step["how"], step["dead"]) if step.get("dead") else construct(env, step["how"])
            except Exception as e:  # noqa  -- a context that cannot be built: nothing is retrievable from it
                c = None
                st.setdefault("errors", {})[len(st["inst"])] = type(e).__name__
            env.seq_log.append(step["how"])
            st["inst"].append(c)
            st["sets"].append(SET_OF[step["how"]])
            st["snaps"].append(snapshot(c))
        else:
            st["uses"].append(do_use(env, st, step))
        st["done"] += 1
    return st


def describe_history(seq, upto: int) -> str:
    steps = []
    for i, stp in enumerate(seq["steps"][: upto + 1]):
        if stp["do"] == "new":
            steps.append(f"#{i} construct PhysicalConstantsContext({'' if stp['how'] == 'default-arg' else repr('CODATA' + stp['how'].split(':')[0])})"
                         + (f" and take it through {stp['how'].split(':')[1]}" if ":" in stp["how"] else "")
                         + (f" at the address of a discarded, fully used CODATA{stp['dead']} context" if stp.get("dead") else ""))
        else:
            steps.append(f"#{i} {stp['what']}({stp.get('arg')!r}) on {stp['on'] if isinstance(stp['on'], str) else 'instance ' + str(stp['on'])}")
    return (
        "process history: import qcelemental (singleton = CODATA2014); harness contexts CODATA2014 then CODATA2018; "
        + f"{len(seq.get('prior', []))} contexts built by earlier sequences ({' '.join(seq.get('prior', [])) or 'none'}); then " + "; ".join(steps)
    )


def sweep_cases(env, seq, upto: int, target: int, cset: str, why: str):
    """The FULL oracle sweep of one instance: every name the property lists for its set x
    {get(return_tuple), get, attribute, pc[lower]} (exact spelling)."""
    out = []
    for name, tag in env.specs[cset].names():
        for mode in MODES:
            if mode == "attr" and tag not in ("nist", "calorie", "alias"):
                continue
            sent = mangle(name) if mode == "attr" else (name.lower() if mode == "item" else name)
            out.append({"ctx": f"seq{seq['id']}.{target}", "spec": cset, "mode": mode, "name": name, "tag": tag,
                        "roles": ["exact", "lower"] if mode == "item" else ["exact"], "sent": sent,
                        "seq": seq, "upto": upto, "target": target, "why": why})
    return out


def make_sequences(rng, ctx: Ctx):
    """[steps]: fixed regression orders first (2014 after 2018 is the seeded mutable-default leak), then random ones"""
    N = lambda how: {"do": "new", "how": how}  # noqa: E731
    U = lambda on, what: {"do": "use", "on": on, "what": what, "arg": None}  # noqa: E731
    fixed = [
        [N("2018"), N("2014")],
        [N("2014"), N("2018")],
        [N("2014"), N("2014")],
        [N("2018"), N("2018")],
        [N("2018"), N("default-arg"), N("2018"), N("2014")],
        # other public calls on existing objects, THEN fresh contexts: whatever those calls leave behind in the process (thread-level
        # decimal context, module-level tables, caches) must not reach the constants of contexts constructed afterwards
        [N("2014"), U(0, "repr"), N("2014"), N("2018")],
        [U("default", "repr"), N("2018"), U("2018", "repr"), N("default-arg")],
        [U("default", "siblings"), N("2014"), N("2018")],
        [N("2018"), U(0, "ureg"), U(0, "conv"), N("2018"), U("default", "aux"), N("2014"), N("2018")],
    ] + [
        # contexts taken through the object protocol (copy / deepcopy / pickle round trip of a fresh context): still a context of that set
        [N("2018:deepcopy"), N("2014:pickle"), N("2018:pickle"), N("2018:copy"), N("2014:deepcopy"), N("2014:copy")],
    ] + [
        # a context built at the address of a discarded, fully used context of the OTHER set (see construct_on_dead)
        [{"do": "new", "how": "2018", "dead": "2014"}, {"do": "new", "how": "2014", "dead": "2018"}, {"do": "new", "how": "default-arg", "dead": "2018"}],
    ] + [
        # build, look everything up, drop, build the OTHER set (address reuse after garbage collection is likely, not certain: repeated)
        [N("2014"), U(0, "forget"), N("2018"), U(1, "forget"), N("2014"), U(2, "forget"), N("2018")] for _ in range(3)
    ]
    names14 = ["Hartree energy", "molar Planck constant times c", "hartree2kcalmol", "Bohr radius", "electric constant", "calorie-joule relationship"]
    convs = [("bohr", "angstrom"), ("hartree", "kcal/mol"), ("hartree", "wavenumber")]

    def rand_use(n_inst):
        on = rng.choice(["default", "2014", "2018"] + list(range(n_inst)) * 2)
        what = rng.choice(["get", "get", "tuple", "attr", "item", "repr", "repr", "siblings", "quantity", "conv", "ureg"])
        nm = rng.choice(names14)
        arg = {"get": mixed(rng, nm), "tuple": nm.upper(), "attr": mangle(nm), "item": nm.lower(), "quantity": "1.5 bohr",
               "conv": list(rng.choice(convs))}.get(what)
        return {"do": "use", "on": on, "what": what, "arg": arg}

    seqs = list(fixed)
    for _ in range(ctx.scale(5, 40)):
        steps, n_inst = [], 0
        for _ in range(rng.randint(2, 5)):
            steps.append(N(rng.choice(["2014", "2018", "2014", "2018", "default-arg"])))
            n_inst += 1
            for _ in range(rng.randint(0, 2)):
                steps.append(rand_use(n_inst))
        seqs.append(steps)
    return seqs


def sequence_cases(env, rng, ctx: Ctx):
    """Cases of the construction-sequence stream, in execution order.  After every construction: the
    key order / attribute set of the new instance (model diff), its full oracle sweep, and a `watch`
    case that re-examines every instance built earlier (incl. the singleton and the harness' own two
    contexts) and re-runs the full oracle on each one whose observable state changed."""
    cases, prior = [], []
    for sid, steps in enumerate(make_sequences(rng, ctx)):
        seq = {"id": sid, "steps": steps, "prior": list(prior)}
        target = -1
        for i, stp in enumerate(steps):
            if stp["do"] != "new":
                cases.append({"seqop": "use", "seq": seq, "upto": i})
                continue
            target += 1
            cset = SET_OF[stp["how"]]
            cases.append({"seqop": "keys", "seq": seq, "upto": i, "target": target, "spec": cset})
            cases.append({"seqop": "attrs", "seq": seq, "upto": i, "target": target, "spec": cset})
            cases += sweep_cases(env, seq, i, target, cset, "fresh instance")
            cases.append({"seqop": "watch", "seq": seq, "upto": i, "target": target})
            prior.append(stp["how"])
        # uses after the last construction may also disturb instances
        cases.append({"seqop": "watch", "seq": seq, "upto": len(steps) - 1, "target": target})
    return cases


def watch_changed(env, case):
    """-> [(label, sweep cases)] for every earlier instance whose observable state differs from when it was built"""
    seq, upto = case["seq"], case["upto"]
    st = ensure_sequence(env, seq, upto)
    changed = []
    for j, (c, snap) in enumerate(zip(st["inst"], st["snaps"])):
        now = snapshot(c)
        if now != snap:
            st["snaps"][j] = now  # report each change once
            changed.append((f"seq{seq['id']}.{j}", sweep_cases(env, seq, upto, j, st["sets"][j], "instance re-examined after later steps")))
    for k, c in env.ctxs.items():
        now = snapshot(c)
        if now != env.base_snaps[k]:
            env.base_snaps[k] = now
            sw = sweep_cases(env, seq, upto, 0, k, "re-examined after sequence steps")
            changed.append((k, [dict(cs, ctx=k, base=k) for cs in sw]))
    return changed


def line_of(case):
    """the model's input line for this case, or None when the case has no model counterpart"""
    if "line" in case:
        return case["line"]
    if "seqop" in case:
        return {"keys": "K ", "attrs": "A "}[case["seqop"]] + case["spec"] if case["seqop"] in ("keys", "attrs") else None
    return f"G {case.get('spec', case['ctx'])} {case['mode']} {hexs(case['sent'])}"


def impl_of(env: Env, case) -> str:
    """Run the real code on one case and render it in the driver's output format."""
    if "line" in case:
        return impl_line(env, case["line"])
    if "seqop" in case:
        st = ensure_sequence(env, case["seq"], case["upto"])
        if case["seqop"] in ("keys", "attrs") and st["inst"][case["target"]] is None:
            return "err construction:" + st["errors"][case["target"]]
        if case["seqop"] == "keys":
            return "ok " + ",".join(hexs(k) for k in st["inst"][case["target"]].pc)
        if case["seqop"] == "attrs":
            return "ok " + ",".join(hexs(a) for a, v in vars(st["inst"][case["target"]]).items() if isinstance(v, float))
        if case["seqop"] == "use":
            return "use " + st["uses"][-1] if st["uses"] else "use none"
        return "watch"
    c = env.ctx_of(case)
    if c is None:
        return "err other:construction-raised-" + env.seqs[case["seq"]["id"]]["errors"].get(case.get("target"), "?")
    mode, sent = case["mode"], case["sent"]
    try:
        if mode == "get":
            v = call_get(c, sent, False)
            return f"ok f {fbits(v)}" if isinstance(v, float) else f"ok NOT-FLOAT {v!r}"
        if mode == "tuple":
            return show_datum(call_get(c, sent, True))
        if mode == "item":
            return show_datum(c.pc[sent])
        if mode == "attr":
            v = getattr(c, sent)
            return f"ok f {fbits(v)}" if isinstance(v, float) else f"ok NOT-FLOAT {v!r}"
    except KeyError:
        return "err KeyError"
    except AttributeError:
        return "err AttributeError"
    except Exception as e:  # noqa
        return "err other:" + type(e).__name__
    raise ValueError(mode)


def impl_line(env: Env, line: str) -> str:
    import decimal

    p = line.split(" ")
    if p[0] == "K":
        return "ok " + ",".join(hexs(k) for k in env.ctxs[p[1]].pc)
    if p[0] == "A":
        return "ok " + ",".join(hexs(a) for a, v in vars(env.ctxs[p[1]]).items() if isinstance(v, float))
    if p[0] == "S":
        name = bytes.fromhex(p[2]).decode()
        q = env.ctxs[p[1]].pc.get(name.lower())
        t = "none" if q is None else (dec_triple(q.data) if isinstance(q.data, Decimal) else f"NOT-DECIMAL {type(q.data).__name__} {q.data!r}")
        is_tuple = name in ALIAS_NAMES or (env.specs[p[1]].year == 2018 and name in DERIVED_NAMES)
        return f"ok e {t if is_tuple else 'none'} | s {t} | m {t}"
    if p[0] == "M":
        t = bytes.fromhex(p[1]).decode()
        h = hexs(t.translate(env.cls._transtable))
        return f"ok {h} {h}"
    if p[0] == "D":
        a, b = bytes.fromhex(p[2]).decode(), bytes.fromhex(p[3]).decode()
        try:
            with decimal.localcontext(decimal.Context(prec=28, rounding=decimal.ROUND_HALF_EVEN)):
                x, y = Decimal(a), Decimal(b)
                r = {"add": lambda: x + y, "sub": lambda: x - y, "mul": lambda: x * y, "div": lambda: x / y}[p[1]]()
            return "ok " + dec_triple(r)
        except decimal.DecimalException:
            return "err"
    if p[0] == "F":
        a = bytes.fromhex(p[1]).decode()
        try:
            x = Decimal(a)
            return f"ok {dec_triple(x)} {fbits(float(x))}"
        except decimal.DecimalException:
            return "err"
    raise ValueError(line)


def oracle(env: Env, case, got: str):
    """The property stated directly on the implementation's behaviour for this one case (no model)."""
    if "line" in case or "seqop" in case:
        return []
    tag, roles, mode, name = case["tag"], case["roles"], case["mode"], case["name"]
    variant = "/".join(roles)
    if tag in ("extra", "outside"):
        return []
    spec: Spec = env.spec_of(case)
    c = env.ctx_of(case)
    finds = []
    where = ""
    if "seq" in case:
        who = f"context {case['base']!r}" if "base" in case else f"instance #{case['target']} (CODATA{case['spec']}) of construction sequence {case['seq']['id']}"
        where = f" [{who}, {case.get('why', '')}; " + describe_history(case["seq"], case["upto"]) + "]"

    def bad(kind, observed, expected, detail):
        finds.append(Finding(kind, case, observed=observed, expected=expected, detail=detail + where))

    # which accesses the property requires to succeed
    must = mode in ("get", "tuple") or (mode == "item" and "lower" in roles) or (mode == "attr" and "exact" in roles and tag in ("nist", "calorie", "alias"))
    if not must:
        return []
    if got.startswith("err"):
        kind = "oracle:attribute_missing" if mode == "attr" else "oracle:not_retrievable"
        bad(kind, got, "a value", f"{tag} constant {name!r} must be reachable via {mode} with the {variant}-case spelling")
        return finds
    # fetch the objects again (the rendered line is for the model diff; the oracle looks at the objects)
    if mode in ("tuple", "item"):
        q = call_get(c, case["sent"], True) if mode == "tuple" else c.pc[case["sent"]]
        d = q.data
        if not isinstance(d, Decimal):
            bad("oracle:not_decimal", repr(d), "decimal.Decimal", "Datum.data of a physical constant must be a Decimal")
            return finds
        if tag == "nist":
            nm, val, unc, unit = spec.by_lower[name.lower()]
            if d.as_tuple() != Decimal(val).as_tuple():
                bad("oracle:nist_value", str(d), val, f"Decimal differs from NIST's published value of {nm!r}")
            if q.label != nm:
                bad("oracle:nist_label", q.label, nm, "label is not the NIST name")
            if unbrace(q.units) != unbrace(unit):
                bad("oracle:nist_unit", q.units, unit, "unit differs from NIST's (beyond {} exponent markup)")
            if q.comment != "uncertainty=" + unc:
                bad("oracle:nist_uncertainty", q.comment, "uncertainty=" + unc, "uncertainty string differs from NIST's")
        elif tag == "calorie":
            if d.as_tuple() != Decimal("4.184").as_tuple() or q.units != "J":
                bad("oracle:calorie", f"{d} {q.units}", "4.184 J", "calorie-joule relationship")
        elif tag == "rename":
            nm, val, unc, unit = spec.by_lower[RENAMES_OLD_TO_NEW[name].lower()]
            if d.as_tuple() != Decimal(val).as_tuple() or unbrace(q.units) != unbrace(unit):
                bad("oracle:rename_2018", f"{d} {q.units}", f"{val} {unit}", f"2014 name {name!r} must carry the 2018 value of {nm!r}")
        elif tag in ("alias", "derived"):
            want = spec.exact[name.lower()]
            if abs(Fraction(d) - want) > REL_TOL * abs(want):
                kind = "oracle:alias_definition" if tag == "alias" else "oracle:legacy_derived"
                bad(kind, str(d), f"{float(want)!r} (exact {want.numerator}/{want.denominator})", f"{name} differs from its documented definition evaluated on the {spec.year} NIST values by more than 1e-26 relative")
    else:
        f = call_get(c, case["sent"], False) if mode == "get" else getattr(c, case["sent"])
        q = c.pc.get(name.lower())
        if q is not None and isinstance(q.data, Decimal):
            prob = nearest_double_problem(f, q.data)
            if prob:
                bad("oracle:float_nearest", repr(f), str(q.data), f"float form of {name!r} via {mode}: {prob}")
    return finds


def build_cases(env: Env, rng, ctx: Ctx):
    cases = []
    for cn in ("2014", "2018", "default"):
        spec, c = env.specs[cn], env.ctxs[cn]
        named = spec.names()
        seen = {n.lower() for n, _ in named}
        named += [(q.label, "extra") for k, q in c.pc.items() if k not in seen]  # whatever else the implementation holds
        for name, tag in named:
            spellings = {}  # spelling -> roles it plays
            for role, v in (("exact", name), ("lower", name.lower()), ("upper", name.upper()), ("random", mixed(rng, name))):
                spellings.setdefault(v, []).append(role)
            for v, roles in spellings.items():
                for mode in MODES:
                    cases.append({"ctx": cn, "mode": mode, "name": name, "tag": tag, "roles": roles, "sent": mangle(v) if mode == "attr" else v})
        # names outside the table: KeyError / AttributeError paths (model diff only)
        keys = list(c.pc)
        outside = ["", " ", "hartree", "Hartree energy ", " hartree energy", "hartree  energy", "speed of light", "planck", "pi", "H", "HBAR ", "cal2j ", "bohr2angstrom"]
        other = env.ctxs["2018" if cn != "2018" else "2014"]
        outside += [q.label for k, q in other.pc.items() if k not in c.pc]
        for _ in range(ctx.scale(150, 1500)):
            k = rng.choice(keys)
            i = rng.randrange(len(k))
            outside.append(rng.choice([k[:i] + k[i + 1:], k[:i] + rng.choice("abcxyz _-.") + k[i:], k + rng.choice(" .s"), k[:i] + k[i].swapcase() + k[i + 1:]]))
        for o in outside:
            for mode in MODES:
                cases.append({"ctx": cn, "mode": mode, "name": o, "tag": "outside", "roles": ["exact"], "sent": mangle(o) if mode == "attr" else o})
        cases.append({"line": f"K {cn}"})
        cases.append({"line": f"A {cn}"})
    # three-way source stream: source tree | source-built context | specification-built context  vs  the implementation
    for cn in ("2014", "2018", "default"):
        for name, tag in env.specs[cn].names():
            if tag != "nist":
                cases.append({"line": f"S {cn} {hexs(name)}", "tag": tag})
    labels = sorted({q.label for c in env.ctxs.values() for q in c.pc.values()})
    texts = labels + [chr(i) for i in range(128)]
    alphabet = " -/{.,()}" * 3 + "abcXYZ019_^pP[]|\\~"
    for _ in range(ctx.scale(300, 3000)):
        texts.append("".join(rng.choice(alphabet) for _ in range(rng.randint(1, 24))))
    for t in texts:
        cases.append({"line": f"M {hexs(t)}"})
    # decimal arithmetic / float conversion stream (ties Model/Dec.lean to CPython)
    def rdec():
        n = rng.choice([1, 2, 3, 5, 9, 10, 14, 20, 27, 28, 29, 30, 36, 40])
        s = str(rng.randrange(10 ** n))
        if rng.random() < 0.15:
            s = rng.choice(["0", "00", "5" + "0" * rng.randint(1, 30), "9" * rng.randint(27, 30), "1" + "0" * 27 + "5", "25", "1"])
        if rng.random() < 0.5:
            p = rng.randrange(len(s) + 1)
            s = s[:p] + "." + s[p:]
            if s == ".":
                s = "0."
        if rng.random() < 0.4:
            s = "-" + s
        if rng.random() < 0.6:
            s += rng.choice("eE") + rng.choice(["", "+", "-"]) + str(rng.randint(0, 40))
        return s

    for _ in range(ctx.scale(4000, 60000)):
        a, b = rdec(), rdec()
        r = rng.random()
        if r < 0.08:
            b = a
        elif r < 0.14:
            b = a[1:] if a.startswith("-") else "-" + a
        cases.append({"line": f"D {rng.choice(['add', 'sub', 'mul', 'div'])} {hexs(a)} {hexs(b)}"})
    for _ in range(ctx.scale(3500, 50000)):
        op, a, b, _cls = structured_dec_case(rng)
        cases.append({"line": f"D {op} {hexs(a)} {hexs(b)}"})
    for _ in range(ctx.scale(3000, 40000)):
        a = rdec()
        if rng.random() < 0.35:
            a = a.split("e")[0].split("E")[0] + "e" + str(rng.randint(-345, 310))
        cases.append({"line": f"F {hexs(a)}"})
    # construction-sequence stream (runs last: it creates many further contexts in this process)
    cases += sequence_cases(env, rng, ctx)
    return cases


def run(ctx: Ctx) -> Outcome:
    out = Outcome()
    import sideeffects

    sideeffects.exercise(out)  # header writers / printers / comparison reports before anything is built or looked up
    REPINNED.clear()
    env = Env()
    out.distribution["reference:codata_rows_judged_against_the_pin_instead_of_the_working_tree_raw_file"] = len(REPINNED)
    import decimal

    dc = decimal.getcontext()
    if dc.prec != 28 or dc.rounding != decimal.ROUND_HALF_EVEN:
        out.notes.append(f"WARNING: ambient decimal context is {dc}")
    cases = build_cases(env, ctx.rng, ctx)
    lines = [line_of(c) for c in cases]
    sent = [ln for ln in lines if ln is not None]
    answers = iter(ctx.run_model(DRIVER, sent) if ctx.model_available else [None] * len(sent))
    model = [next(answers) if ln is not None else None for ln in lines]
    lines = [ln if ln is not None else "(no model line)" for ln in lines]
    for i, (case, ml) in enumerate(zip(cases, model)):
        got = impl_of(env, case)
        out.evaluations += 1
        if "seqop" in case:
            out.count("stream:construction-sequence:" + case["seqop"])
            if case["seqop"] == "keys":
                hist = [SET_OF[s_["how"]] for s_ in case["seq"]["steps"][: case["upto"]] if s_["do"] == "new"]
                if case["seq"]["steps"][case["upto"]].get("dead"):
                    out.count("seq:built-at-dead-address:attempted")
                    out.distribution["seq:built-at-dead-address:address-reused"] = getattr(env, "dead_reuse", 0)
                out.count("seq:built-" + case["spec"] + "-after-" + ("nothing" if not hist else "+".join(sorted(set(hist)))))
                out.nontrivial(("seq", tuple(case["seq"]["prior"]), tuple(s_.get("how", s_.get("what")) for s_ in case["seq"]["steps"][: case["upto"] + 1])))
            elif case["seqop"] == "use":
                out.count("seq:use-" + got.split(" ")[1].split(":")[0])
            elif case["seqop"] == "watch":
                changed = watch_changed(env, case)
                out.count("seq:watch-earlier-instances-" + ("changed" if changed else "unchanged"))
                for label, sweep in changed:
                    nf = 0
                    for sc in sweep:
                        fs = oracle(env, sc, impl_of(env, sc))
                        nf += len(fs)
                        out.violations += fs
                    out.count("seq:changed-instance-" + ("violates" if nf else "still-conforms"))
                    out.notes.append(f"observable state of {label} changed during construction sequence {case['seq']['id']} (step {case['upto']}); full oracle re-run on it: {nf} findings")
        elif "seq" in case:
            out.count("stream:construction-sequence:oracle-sweep")
            out.count("seq-sweep-mode:" + case["mode"])
        elif "line" in case:
            kindc = case["line"].split(" ")[0]
            out.count("stream:" + {"K": "key-order", "A": "attribute-set", "D": "decimal-op", "F": "float-conversion",
                                   "S": "source-three-way", "M": "source-translate-table"}[kindc])
            if kindc == "S":
                out.count("src-entry:" + case.get("tag", "?"))
                out.nontrivial(case["line"])
                if ml is not None and ml != got and ml.startswith("ok e ") and got.startswith("ok e "):
                    mv = dict(x.split(" ", 1) for x in ml[3:].split(" | "))
                    gv = dict(x.split(" ", 1) for x in got[3:].split(" | "))
                    for k_, what in (("e", "source-tree"), ("s", "source-built-context"), ("m", "specification-built-context")):
                        if mv.get(k_) != gv.get(k_):
                            out.count("src-disagrees:" + what)
            if kindc == "M":
                out.nontrivial(case["line"])
                t_ = bytes.fromhex(case["line"].split(" ")[1]).decode()
                out.count("translate:" + ("single-ascii-char" if len(t_) == 1 else "changed" if mangle(t_) != t_ else "unchanged"))
            if kindc in "DF":
                out.count("outcome:" + ("arith-ok" if got.startswith("ok") else "arith-error"))
                out.nontrivial(case["line"])
            if kindc == "D":
                for k in dec_case_profile(case["line"], got):
                    out.count(k)
        else:
            out.count("tag:" + case["tag"])
            out.count("mode:" + case["mode"])
            out.count("outcome:" + (got.split(" ")[0] + (":" + got.split(" ")[1] if got.startswith("err") else "")))
            if case["tag"] != "nist" or case["sent"] != case["name"].lower() or case["mode"] == "attr":
                out.nontrivial((case["ctx"], case["mode"], case["sent"]))
        if i % 2503 == 7 and "seq" not in case:
            out.sample({"case": {k: v for k, v in case.items()}, "line": lines[i][:160], "impl": got[:200], "model": (ml or "")[:200]})
        for f in oracle(env, case, got):
            out.violations.append(f)
        if ml is not None and ml != got:
            out.mismatches.append(Finding("mismatch", case, observed=got[:2000], expected=ml[:2000], detail="implementation vs Lean model (" + lines[i][:120] + ")"))
    # whole-context oracle clauses: nothing the property names may be missing from a context
    for cn in ("2014", "2018", "default"):
        missing = [n for n, _ in env.specs[cn].names() if n.lower() not in env.ctxs[cn].pc]
        for n in missing[:5]:
            out.violations.append(Finding("oracle:not_retrievable", {"ctx": cn, "mode": "item", "name": n, "tag": "nist", "roles": ["lower"], "sent": n.lower()}, observed="absent", expected="present"))
    out.exhaustive = True
    out.notes.append(
        "exhaustive over " + ", ".join(f"{cn}: {len(env.ctxs[cn].pc)} keys" for cn in env.ctxs)
        + "; NIST rows read by the oracle: 2014=%d, 2018=%d" % (len(env.specs["2014"].rows), len(env.specs["2018"].rows))
    )
    out.notes.append("translator cross-check: the Lean driver built both contexts from the generated tables and was compared with the implementation on every key, in key order")
    out.notes.append("source translator cross-check (harness/c02_src.py -> Gen/ContextSrc.lean): every computed entry three-way (source tree | source-built context | specification-built context) "
                     "against the implementation's stored Decimal; source translate table against str.translate(_transtable)")
    return out


def replay(ctx: Ctx, case) -> Outcome:
    out = Outcome()
    import sideeffects

    sideeffects.exercise()
    env = Env()
    got = impl_of(env, case)
    line = line_of(case)
    ml = ctx.run_model(DRIVER, [line])[0] if ctx.model_available and line is not None else None
    out.evaluations = 1
    out.sample({"line": line, "impl": got[:300], "model": (ml or "")[:300]})
    out.violations += oracle(env, case, got)
    if ml is not None and ml != got:
        out.mismatches.append(Finding("mismatch", case, observed=got[:2000], expected=ml[:2000]))
    return out
