"""C12 translator: qcelemental/molutil/align.py -> lean/QcelVerif/Gen/KabschSrc.lean and lean/QcelVerif/Gen/B787Src.lean

Re-reads align.py with Python's `ast` on every run of the check and writes, as terms of the small ASTs of
lean/QcelVerif/Model/KabschAst.lean and lean/QcelVerif/Model/B787Ast.lean:

  * kabsch_quaternion: `cov = <A>.dot(<B>.T)`, every assignment `F[i, j] = <expr>` (chained targets are expanded left to
    right) and `U[i, j] = <expr>` in source order (`SE`: cov[i, j], q[i], integer literals, unary minus, + - *, ** 2); the
    statements `F = np.zeros((4, 4))`, `ew, ev = np.linalg.eigh(F)`, `q = ev[:, -1]`, `U = np.zeros((3, 3))`, `return U` are
    demanded verbatim (eigh stays opaque: its eigenvector is captured and certified per call).
  * kabsch_align (weight=None path): symbolic execution of the straight-line body - the head-off guard and what it returns,
    the two centroids `X.sum(axis=0) / N`, `np.subtract`, the (3, n) arguments handed to kabsch_quaternion (`.T.T` cancelled
    HERE, in the translator), `TT`, `C.dot(RR)`, the matrix inside `np.linalg.norm(...)` of the RMSD and the returned tuple.
    `R *= np.sqrt(w[:, None])` with `w = np.ones(...)` is accepted verbatim as the identity (sqrt(1.0) = 1.0, x * 1.0 = x).
  * _plausible_atom_orderings.filter_permutative: the two distance chains, the permutation loop, the allclose arguments, the
    yielded value.
  * B787: the two `if temp_rmsd < best_rmsd:` blocks of the trial loop (comparison operator and operands, the assignments in
    order, the break condition), the `mirror=` flags of the two AlignmentMill constructions and the guard of the mirror trial.

Anything not matched explicitly raises Unsupported (the check then reports a broken obligation). Never guesses.
"""
from __future__ import annotations

import ast
from pathlib import Path

import common

FILE = "qcelemental/molutil/align.py"
SRC = ("qcelemental", "molutil", "align.py")
OUT_K = ("QcelVerif", "Gen", "KabschSrc.lean")
OUT_B = ("QcelVerif", "Gen", "B787Src.lean")


class Unsupported(Exception):
    pass


def u(node) -> str:
    return ast.unparse(node)


def fail(node, msg):
    src = ""
    try:
        src = ast.unparse(node)[:140]
    except Exception:  # noqa
        pass
    raise Unsupported(f"Unsupported: {FILE}:{getattr(node, 'lineno', '?')}: {msg}: {src}")


def body_wo_doc(fn):
    b = list(fn.body)
    if b and isinstance(b[0], ast.Expr) and isinstance(b[0].value, ast.Constant) and isinstance(b[0].value.value, str):
        b = b[1:]
    return b


def nat_const(node, hi=None):
    if isinstance(node, ast.Constant) and isinstance(node.value, int) and not isinstance(node.value, bool) and node.value >= 0:
        if hi is None or node.value < hi:
            return node.value
    fail(node, "expected a small non-negative integer literal")


# ---------------------------------------------------------------------------------------------------------------------
# kabsch_quaternion
# ---------------------------------------------------------------------------------------------------------------------


def se(node) -> str:
    """scalar expression -> SE term"""
    if isinstance(node, ast.Subscript) and isinstance(node.value, ast.Name):
        if node.value.id == "cov" and isinstance(node.slice, ast.Tuple) and len(node.slice.elts) == 2:
            return f"(.cov {nat_const(node.slice.elts[0], 3)} {nat_const(node.slice.elts[1], 3)})"
        if node.value.id == "q" and not isinstance(node.slice, (ast.Tuple, ast.Slice)):
            return f"(.q {nat_const(node.slice, 4)})"
        fail(node, "subscript other than cov[i, j] / q[i]")
    if isinstance(node, ast.Constant):
        return f"(.lit {nat_const(node)})"
    if isinstance(node, ast.UnaryOp) and isinstance(node.op, ast.USub):
        return f"(.neg {se(node.operand)})"
    if isinstance(node, ast.BinOp):
        if isinstance(node.op, ast.Pow):
            if not (isinstance(node.right, ast.Constant) and node.right.value == 2 and isinstance(node.right.value, int)):
                fail(node, "power other than ** 2")
            return f"(.sq {se(node.left)})"
        op = {ast.Add: ".add", ast.Sub: ".sub", ast.Mult: ".mul"}.get(type(node.op))
        if op is None:
            fail(node, "operator other than + - * **")
        return f"({op} {se(node.left)} {se(node.right)})"
    fail(node, "unsupported scalar expression")


def entry_target(node, name, dim):
    if not (isinstance(node, ast.Subscript) and isinstance(node.value, ast.Name) and node.value.id == name
            and isinstance(node.slice, ast.Tuple) and len(node.slice.elts) == 2):
        fail(node, f"expected a target {name}[i, j]")
    return nat_const(node.slice.elts[0], dim), nat_const(node.slice.elts[1], dim)


def translate_quaternion(fn):
    if [a.arg for a in fn.args.args] != ["P", "Q"] or fn.args.defaults or fn.args.kwonlyargs or fn.args.vararg or fn.args.kwarg:
        fail(fn, "kabsch_quaternion signature")
    b = body_wo_doc(fn)
    i = 0

    def expect(text):
        nonlocal i
        if i >= len(b) or u(b[i]) != text:
            fail(b[i] if i < len(b) else fn, f"expected `{text}`")
        i += 1

    # cov = <A>.dot(<B>.T)
    st = b[i]
    ok = (isinstance(st, ast.Assign) and u(st.targets[0]) == "cov" and len(st.targets) == 1 and isinstance(st.value, ast.Call)
          and isinstance(st.value.func, ast.Attribute) and st.value.func.attr == "dot" and isinstance(st.value.func.value, ast.Name)
          and len(st.value.args) == 1 and not st.value.keywords and isinstance(st.value.args[0], ast.Attribute)
          and st.value.args[0].attr == "T" and isinstance(st.value.args[0].value, ast.Name))
    if not ok:
        fail(st, "expected cov = <A>.dot(<B>.T)")
    cov_left, cov_right = st.value.func.value.id, st.value.args[0].value.id
    if {cov_left, cov_right} - {"P", "Q"}:
        fail(st, "cov must be formed from the arguments P, Q")
    i += 1
    expect("F = np.zeros((4, 4))")

    def entries(name, dim):
        nonlocal i
        out = []
        while i < len(b) and isinstance(b[i], ast.Assign) and isinstance(b[i].targets[0], ast.Subscript):
            st = b[i]
            term = se(st.value)
            for t in st.targets:  # chained assignment: left to right, one evaluation of the value
                r, c = entry_target(t, name, dim)
                out.append(f"({r}, {c}, {term})")
            i += 1
        return out

    fs = entries("F", 4)
    expect("ew, ev = np.linalg.eigh(F)")
    expect("q = ev[:, -1]")
    expect("U = np.zeros((3, 3))")
    us = entries("U", 3)
    expect("return U")
    if i != len(b):
        fail(b[i], "statement after return")
    if not fs or not us:
        fail(fn, "no F / U assignments found")
    return cov_left, cov_right, fs, us


# ---------------------------------------------------------------------------------------------------------------------
# kabsch_align
# ---------------------------------------------------------------------------------------------------------------------


class G:  # (nat, 3) value
    def __init__(self, lean, arg=None):
        self.lean, self.arg = lean, arg


class GT:  # (3, nat) value = transposed G
    def __init__(self, g):
        self.g = g


class Vv:
    def __init__(self, lean):
        self.lean = lean


class Mm:
    def __init__(self, lean):
        self.lean = lean


class LenOf:
    def __init__(self, arg):
        self.arg = arg


W_BRANCH = "w = np.ones(rgeom.shape[0])"


class AlignTx:
    def __init__(self, fn, cov_left, cov_right):
        self.fn = fn
        self.cov_names = (cov_left, cov_right)
        self.env = {"rgeom": G("(.arg .R)", "R"), "cgeom": G("(.arg .C)", "C")}
        self.prog = {}
        self.w_is_ones = False

    def ev(self, node):
        if isinstance(node, ast.Name):
            if node.id not in self.env:
                fail(node, "unknown name")
            return self.env[node.id]
        if isinstance(node, ast.Attribute) and node.attr == "T":
            v = self.ev(node.value)
            if isinstance(v, G):
                return GT(v)
            if isinstance(v, GT):
                return v.g
            if isinstance(v, Mm):
                return Mm(f"(.tr {v.lean})")
            fail(node, ".T of a non-matrix")
        if isinstance(node, ast.BinOp) and isinstance(node.op, ast.Sub):
            return self.sub(node, self.ev(node.left), self.ev(node.right))
        if isinstance(node, ast.BinOp) and isinstance(node.op, ast.Div):
            # X.sum(axis=0) / N
            l = node.left
            if (isinstance(l, ast.Call) and isinstance(l.func, ast.Attribute) and l.func.attr == "sum" and not l.args
                    and len(l.keywords) == 1 and l.keywords[0].arg == "axis" and u(l.keywords[0].value) == "0"):
                g = self.ev(l.func.value)
                n = self.ev(node.right)
                if isinstance(g, G) and g.arg is not None and isinstance(n, LenOf):
                    return ("centdef", f"{{ sumOf := .{g.arg}, lenOf := .{n.arg} }}")
            fail(node, "division other than <argument>.sum(axis=0) / <argument>.shape[0]")
        if isinstance(node, ast.Subscript) and u(node.slice) == "0" and isinstance(node.value, ast.Attribute) and node.value.attr == "shape":
            g = self.ev(node.value.value)
            if isinstance(g, G) and g.arg is not None:
                return LenOf(g.arg)
            fail(node, ".shape[0] of something that is not an argument")
        if isinstance(node, ast.Call):
            f = node.func
            if u(f) == "np.subtract" and len(node.args) == 2 and not node.keywords:
                return self.sub(node, self.ev(node.args[0]), self.ev(node.args[1]))
            if u(f) == "np.identity" and u(node) == "np.identity(3)":
                return Mm(".ident")
            if u(node) == "np.zeros(3)":
                return Vv(".zero3")
            if isinstance(f, ast.Attribute) and f.attr == "dot" and len(node.args) == 1 and not node.keywords:
                a, b = self.ev(f.value), self.ev(node.args[0])
                if isinstance(a, G) and isinstance(b, Mm):
                    return G(f"(.dot {a.lean} {b.lean})")
                if isinstance(a, Mm) and isinstance(b, Vv):
                    return Vv(f"(.matVec {a.lean} {b.lean})")
                if isinstance(a, Vv) and isinstance(b, Mm):
                    return Vv(f"(.vecMat {a.lean} {b.lean})")
                fail(node, "unsupported .dot operand shapes")
            if u(f) == "kabsch_quaternion" and len(node.args) == 2 and not node.keywords:
                p, q = self.ev(node.args[0]), self.ev(node.args[1])
                if not (isinstance(p, GT) and isinstance(q, GT)):
                    fail(node, "kabsch_quaternion must be handed two (3, nat) arrays (<geom>.T)")
                val = {"P": p.g, "Q": q.g}
                # cov = <L>.dot(<R>.T): L is (3, nat) = val[L]^T, R.T is (nat, 3) = val[R]
                self.prog["covL"] = val[self.cov_names[0]].lean
                self.prog["covR"] = val[self.cov_names[1]].lean
                return Mm(".rr")
        fail(node, "unsupported expression in kabsch_align")

    def sub(self, node, a, b):
        if isinstance(a, G) and isinstance(b, Vv):
            return G(f"(.subRow {a.lean} {b.lean})")
        if isinstance(a, G) and isinstance(b, G):
            return G(f"(.sub {a.lean} {b.lean})")
        if isinstance(a, Vv) and isinstance(b, Vv):
            return Vv(f"(.sub {a.lean} {b.lean})")
        fail(node, "unsupported subtraction operand shapes")

    def run(self):
        fn = self.fn
        a = fn.args
        if [x.arg for x in a.args] != ["rgeom", "cgeom", "weight"] or [u(d) for d in a.defaults] != ["None"] or a.kwonlyargs or a.vararg or a.kwarg:
            fail(fn, "kabsch_align signature")
        for st in body_wo_doc(fn):
            self.stmt(st)
        need = {"guardL", "guardR", "shortU", "shortT", "rcent", "ccent", "covL", "covR", "tt", "resid", "retU"}
        if set(self.prog) != need:
            fail(fn, f"kabsch_align: missing pieces {sorted(need - set(self.prog))}")
        return self.prog

    def stmt(self, st):
        if "retU" in self.prog:
            fail(st, "statement after return")
        if isinstance(st, ast.If) and u(st.test) == "weight is None":
            if len(st.body) != 1 or u(st.body[0]) != W_BRANCH:
                fail(st, f"weight=None branch must be `{W_BRANCH}`")
            self.w_is_ones = True
            return
        if isinstance(st, ast.If):
            t = st.test
            if not (isinstance(t, ast.Call) and u(t.func) == "np.array_equal" and len(t.args) == 2 and not t.keywords and not st.orelse
                    and len(st.body) == 1 and isinstance(st.body[0], ast.Return) and isinstance(st.body[0].value, ast.Tuple)
                    and len(st.body[0].value.elts) == 3):
                fail(st, "unsupported if-statement")
            l, r = self.ev(t.args[0]), self.ev(t.args[1])
            if not (isinstance(l, G) and isinstance(r, G) and l.arg and r.arg):
                fail(st, "array_equal operands must be the two arguments")
            e0, e1, e2 = st.body[0].value.elts
            if not (isinstance(e0, ast.Constant) and isinstance(e0.value, float) and e0.value == 0.0):
                fail(e0, "head-off must return the RMSD literal 0.0")
            mu, vt = self.ev(e1), self.ev(e2)
            if not (isinstance(mu, Mm) and isinstance(vt, Vv)):
                fail(st, "head-off return shapes")
            self.prog.update(guardL=f".{l.arg}", guardR=f".{r.arg}", shortU=mu.lean, shortT=vt.lean)
            return
        if isinstance(st, ast.AugAssign):
            if self.w_is_ones and u(st) in ("R *= np.sqrt(w[:, None])", "C *= np.sqrt(w[:, None])"):
                return  # multiplication by sqrt(1.0) = 1.0: identity on the values
            fail(st, "unsupported augmented assignment")
        if isinstance(st, ast.Return):
            if not (isinstance(st.value, ast.Tuple) and len(st.value.elts) == 3):
                fail(st, "return of something other than a 3-tuple")
            e0, e1, e2 = st.value.elts
            if u(e0) != "rmsd" or "resid" not in self.prog:
                fail(st, "first returned item must be the name rmsd")
            mu, vt = self.ev(e1), self.ev(e2)
            if not (isinstance(mu, Mm) and isinstance(vt, Vv)):
                fail(st, "return shapes")
            self.prog.update(retU=mu.lean, tt=vt.lean)
            return
        if isinstance(st, ast.Assign) and len(st.targets) == 1 and isinstance(st.targets[0], ast.Name):
            name = st.targets[0].id
            if name == "rmsd":
                # np.linalg.norm(<X>) * constants.bohr2angstroms / np.sqrt(np.sum(w))
                v = st.value
                ok = (isinstance(v, ast.BinOp) and isinstance(v.op, ast.Div) and u(v.right) == "np.sqrt(np.sum(w))"
                      and isinstance(v.left, ast.BinOp) and isinstance(v.left.op, ast.Mult) and u(v.left.right) == "constants.bohr2angstroms"
                      and isinstance(v.left.left, ast.Call) and u(v.left.left.func) == "np.linalg.norm" and len(v.left.left.args) == 1
                      and not v.left.left.keywords and self.w_is_ones)
                if not ok:
                    fail(st, "rmsd must be np.linalg.norm(<X>) * constants.bohr2angstroms / np.sqrt(np.sum(w))")
                x = self.ev(v.left.left.args[0])
                if not isinstance(x, G):
                    fail(st, "norm of a non-geometry")
                self.prog["resid"] = x.lean
                return
            val = self.ev(st.value)
            if isinstance(val, tuple) and val[0] == "centdef":
                key = {"Rcentroid": ("rcent", ".rcent"), "Ccentroid": ("ccent", ".ccent")}.get(name)
                if key is None or key[0] in self.prog:
                    fail(st, "centroid names must be Rcentroid / Ccentroid, each defined once")
                self.prog[key[0]] = val[1]
                self.env[name] = Vv(key[1])
                return
            if name in ("Rcentroid", "Ccentroid"):
                fail(st, "centroid must be <argument>.sum(axis=0) / <argument>.shape[0]")
            self.env[name] = val
            return
        fail(st, "unsupported statement in kabsch_align")


def gen_kabsch_text(mod) -> str:
    fns = {nd.name: nd for nd in mod.body if isinstance(nd, ast.FunctionDef)}
    for need in ("kabsch_quaternion", "kabsch_align"):
        if need not in fns:
            raise Unsupported(f"Unsupported: {FILE}: function {need} not found")
    cl, cr, fs, us = translate_quaternion(fns["kabsch_quaternion"])
    prog = AlignTx(fns["kabsch_align"], cl, cr).run()
    kq, ka = fns["kabsch_quaternion"], fns["kabsch_align"]
    out = [
        "import QcelVerif.Model.KabschAst",
        "/-! GENERATED by harness/c12_src.py from qcelemental/molutil/align.py on every run of the check — do not edit. -/",
        "namespace QcelVerif.Gen.KabschSrc",
        "open QcelVerif.KabschAst",
        "",
        f"/-- align.py:{kq.lineno}-{kq.end_lineno} `kabsch_quaternion`: the assignments `F[i, j] = …` in source order -/",
        "def F : List (Nat × Nat × SE) :=\n  [" + ",\n   ".join(fs) + "]\n",
        f"/-- align.py:{kq.lineno}-{kq.end_lineno} `kabsch_quaternion`: the assignments `U[i, j] = …` in source order -/",
        "def U : List (Nat × Nat × SE) :=\n  [" + ",\n   ".join(us) + "]\n",
        f"/-- align.py:{ka.lineno}-{ka.end_lineno} `kabsch_align` (weight=None) -/",
        "def prog : Prog :=\n  { " + ",\n    ".join(f"{k} := {prog[k]}" for k in
                                                   ["guardL", "guardR", "shortU", "shortT", "rcent", "ccent", "covL", "covR", "tt", "resid", "retU"]) + " }\n",
        "end QcelVerif.Gen.KabschSrc\n",
    ]
    return "\n".join(out)


# ---------------------------------------------------------------------------------------------------------------------
# filter_permutative and the B787 trial loop
# ---------------------------------------------------------------------------------------------------------------------


def find_fn(body, name):
    for nd in body:
        if isinstance(nd, ast.FunctionDef) and nd.name == name:
            return nd
    return None


def seq_e(node, names) -> str:
    if isinstance(node, ast.Name) and node.id in names:
        return f".{node.id}"
    if isinstance(node, ast.Subscript) and isinstance(node.slice, ast.Slice) and node.slice.upper is None and node.slice.step is None \
            and isinstance(node.slice.lower, ast.Constant) and node.slice.lower.value == 1 and isinstance(node.slice.lower.value, int):
        return f"(.tail {seq_e(node.value, names)})"
    fail(node, "sequence expression other than a name or <seq>[1:]")


def chain_e(node, names) -> str:
    """[<mat>[first, second] for first, second in zip(<a>, <b>)]"""
    ok = (isinstance(node, ast.ListComp) and len(node.generators) == 1 and not node.generators[0].ifs and not node.generators[0].is_async
          and isinstance(node.generators[0].target, ast.Tuple) and len(node.generators[0].target.elts) == 2
          and all(isinstance(e, ast.Name) for e in node.generators[0].target.elts)
          and isinstance(node.generators[0].iter, ast.Call) and u(node.generators[0].iter.func) == "zip"
          and len(node.generators[0].iter.args) == 2 and not node.generators[0].iter.keywords
          and isinstance(node.elt, ast.Subscript) and isinstance(node.elt.value, ast.Name) and isinstance(node.elt.slice, ast.Tuple)
          and len(node.elt.slice.elts) == 2 and all(isinstance(e, ast.Name) for e in node.elt.slice.elts))
    if not ok:
        fail(node, "expected [<mat>[a, b] for a, b in zip(<s>, <t>)]")
    a, b = (e.id for e in node.generators[0].target.elts)
    if a == b:
        fail(node, "loop variables must differ")
    ia, ib = (e.id for e in node.elt.slice.elts)
    if {ia, ib} != {a, b}:
        fail(node, "index must use exactly the two loop variables")
    mat = {"rrdistmat": ".rr", "ccdistmat": ".cc"}.get(node.elt.value.id)
    if mat is None:
        fail(node, "matrix must be rrdistmat / ccdistmat")
    s0, s1 = (seq_e(x, names) for x in node.generators[0].iter.args)
    if (ia, ib) == (b, a):  # mat[second, first]: swap the roles
        s0, s1 = s1, s0
    return f"{{ mat := {mat}, fst := {s0}, snd := {s1} }}"


def translate_filter(fn):
    if [a.arg for a in fn.args.args] != ["rgp", "cgp"] or fn.args.defaults:
        fail(fn, "filter_permutative signature")
    b = [st for st in body_wo_doc(fn) if not is_verbose_print(st)]
    if len(b) != 2:
        fail(fn, "filter_permutative: expected `bnbn = …` and one for-loop")
    s0, loop = b
    if not (isinstance(s0, ast.Assign) and u(s0.targets[0]) == "bnbn" and len(s0.targets) == 1):
        fail(s0, "expected bnbn = …")
    bn = chain_e(s0.value, {"rgp", "cgp"})
    if not (isinstance(loop, ast.For) and u(loop.target) == "pm" and not loop.orelse and isinstance(loop.iter, ast.Call)
            and u(loop.iter.func) == "itertools.permutations" and len(loop.iter.args) == 1 and not loop.iter.keywords):
        fail(loop, "expected for pm in itertools.permutations(<seq>)")
    perm_of = seq_e(loop.iter.args[0], {"rgp", "cgp"})
    lb = [st for st in loop.body if not is_verbose_print(st)]
    if len(lb) != 2 or not (isinstance(lb[0], ast.Assign) and u(lb[0].targets[0]) == "cncn" and len(lb[0].targets) == 1):
        fail(loop, "loop body must be `cncn = …` and one if")
    cn = chain_e(lb[0].value, {"rgp", "cgp", "pm"})
    cond = lb[1]
    if not (isinstance(cond, ast.If) and not cond.orelse and isinstance(cond.test, ast.Call) and u(cond.test.func) == "np.allclose"
            and len(cond.test.args) == 2 and [k.arg for k in cond.test.keywords] == ["atol"]):
        fail(cond, "expected if np.allclose(<a>, <b>, atol=…)")
    names = {"bnbn": ".bnbn", "cncn": ".cncn"}
    ca, cb = (names.get(u(x)) for x in cond.test.args)
    if ca is None or cb is None:
        fail(cond, "allclose operands must be bnbn / cncn")
    ib = [st for st in cond.body if not is_verbose_print(st)]
    if len(ib) != 1 or not (isinstance(ib[0], ast.Expr) and isinstance(ib[0].value, ast.Yield) and ib[0].value.value is not None):
        fail(cond, "if-body must be one yield")
    yl = seq_e(ib[0].value.value, {"rgp", "cgp", "pm"})
    return f"{{ bnbn := {bn}, permOf := {perm_of}, cncn := {cn}, closeA := {ca}, closeB := {cb}, yields := {yl} }}"


def is_verbose_print(st) -> bool:
    """`if verbose >= k: print(...)` (any number of prints), no else"""
    return (isinstance(st, ast.If) and not st.orelse and isinstance(st.test, ast.Compare) and u(st.test.left) == "verbose"
            and all(isinstance(x, ast.Expr) and isinstance(x.value, ast.Call) and u(x.value.func) == "print" for x in st.body))


VARS = {"temp_rmsd": ".tempRmsd", "best_rmsd": ".bestRmsd", "hold_solution": ".holdSolution", "temp_solution": ".tempSolution",
        "a_convergence": ".aConvergence"}
CMPS = {ast.Lt: ".lt", ast.LtE: ".le", ast.Gt: ".gt", ast.GtE: ".ge"}


def cmp_e(node) -> str:
    if not (isinstance(node, ast.Compare) and len(node.ops) == 1 and type(node.ops[0]) in CMPS and u(node.left) in VARS
            and u(node.comparators[0]) in VARS):
        fail(node, "expected a comparison of two loop variables")
    return f"{{ op := {CMPS[type(node.ops[0])]}, lhs := {VARS[u(node.left)]}, rhs := {VARS[u(node.comparators[0])]} }}"


def translate_update(st) -> str:
    """if temp_rmsd < best_rmsd: <assigns>; [verbose print]; if not run_to_completion and <cmp>: break  else: [verbose print]"""
    if not isinstance(st, ast.If):
        fail(st, "expected the best-so-far if-block")
    test = cmp_e(st.test)
    if any(not is_verbose_print(x) for x in st.orelse):
        fail(st, "else-branch may only print")
    assigns, brk = [], None
    for x in st.body:
        if is_verbose_print(x):
            continue
        if brk is not None:
            fail(x, "statement after the break test")
        if isinstance(x, ast.Assign) and len(x.targets) == 1 and u(x.targets[0]) in VARS and u(x.value) in VARS:
            assigns.append(f"({VARS[u(x.targets[0])]}, {VARS[u(x.value)]})")
            continue
        if isinstance(x, ast.If) and not x.orelse and len(x.body) == 1 and isinstance(x.body[0], ast.Break) \
                and isinstance(x.test, ast.BoolOp) and isinstance(x.test.op, ast.And) and len(x.test.values) == 2:
            flag, c = x.test.values
            if u(flag) != "not run_to_completion":
                fail(x, "break test must start with `not run_to_completion`")
            brk = cmp_e(c)
            continue
        fail(x, "unsupported statement in the best-so-far block")
    b = f"some {brk}" if brk else "none"
    return f"{{ test := {test}, assigns := [{', '.join(assigns)}], brk := {b} }}"


def mill_mirror_flag(st) -> str:
    v = st.value
    if not (isinstance(v, ast.Call) and u(v.func) == "AlignmentMill" and not v.args):
        fail(st, "expected temp_solution = AlignmentMill(...)")
    kw = {k.arg: u(k.value) for k in v.keywords}
    if kw.get("shift") != "TT" or kw.get("rotation") != "RR" or kw.get("atommap") != "npordd" or kw.get("mirror") not in ("True", "False") or len(kw) != 4:
        fail(st, "AlignmentMill(shift=TT, rotation=RR, atommap=npordd, mirror=<literal>) expected")
    return kw["mirror"].lower()


def translate_loop(fn):
    loops = [st for st in fn.body if isinstance(st, ast.For) and isinstance(st.iter, ast.Call)
             and u(st.iter.func) == "_plausible_atom_orderings_wrapper"]
    if len(loops) != 1:
        fail(fn, "expected exactly one trial loop over _plausible_atom_orderings_wrapper(...)")
    loop = loops[0]
    if loop.orelse or u(loop.target) != "ordering":
        fail(loop, "trial loop shape")

    def block(stmts):
        """(mirror flag of the AlignmentMill built, update block) of a run of statements; other statements are not interpreted"""
        mills = [x for x in stmts if isinstance(x, ast.Assign) and u(x.targets[0]) == "temp_solution"]
        ifs = [x for x in stmts if isinstance(x, ast.If) and not is_verbose_print(x)]
        if len(mills) != 1 or len(ifs) == 0:
            fail(loop, "each trial must build one AlignmentMill and have one best-so-far block")
        return mill_mirror_flag(mills[0]), ifs

    top = list(loop.body)
    flag0, ifs0 = block(top)
    if len(ifs0) != 2:
        fail(loop, "trial loop must contain the best-so-far block and the mirror-trial block")
    upd0, mir = ifs0
    if top.index(upd0) > top.index(mir) or top[-1] is not mir:
        fail(loop, "order of blocks")
    if u(mir.test) != "run_mirror and (not superimposable)" or mir.orelse:
        fail(mir, "mirror trial guard must be `run_mirror and not superimposable`")
    flag1, ifs1 = block(mir.body)
    if len(ifs1) != 1 or mir.body[-1] is not ifs1[0]:
        fail(mir, "mirror trial must end with its best-so-far block")
    return (f"{{ plainMirror := {flag0}, plain := {translate_update(upd0)},\n    mirMirror := {flag1}, mir := {translate_update(ifs1[0])} }}")


def gen_b787_text(mod) -> str:
    fns = {nd.name: nd for nd in mod.body if isinstance(nd, ast.FunctionDef)}
    for need in ("B787", "_plausible_atom_orderings"):
        if need not in fns:
            raise Unsupported(f"Unsupported: {FILE}: function {need} not found")
    fp = find_fn(fns["_plausible_atom_orderings"].body, "filter_permutative")
    if fp is None:
        raise Unsupported(f"Unsupported: {FILE}: filter_permutative not found")
    filt = translate_filter(fp)
    lp = translate_loop(fns["B787"])
    out = [
        "import QcelVerif.Model.B787Ast",
        "/-! GENERATED by harness/c12_src.py from qcelemental/molutil/align.py on every run of the check — do not edit. -/",
        "namespace QcelVerif.Gen.B787Src",
        "open QcelVerif.B787Ast",
        "",
        f"/-- align.py:{fp.lineno}-{fp.end_lineno} `filter_permutative` -/",
        f"def filter : PermFilter :=\n  {filt}\n",
        f"/-- align.py:{fns['B787'].lineno}-{fns['B787'].end_lineno} `B787`: the trial loop's two best-so-far blocks -/",
        f"def loopBody : LoopBody :=\n  {lp}\n",
        "end QcelVerif.Gen.B787Src\n",
    ]
    return "\n".join(out)


# ---------------------------------------------------------------------------------------------------------------------


def _write(rel, body):
    f = common.LEAN.joinpath(*rel)
    f.parent.mkdir(exist_ok=True)
    if not f.exists() or f.read_text() != body:
        f.write_text(body)


def gen_align_src(ctx=None) -> None:
    """lean/QcelVerif/Gen/KabschSrc.lean, lean/QcelVerif/Gen/B787Src.lean <- qcelemental/molutil/align.py"""
    mod = ast.parse(common.REPO.joinpath(*SRC).read_text())
    _write(OUT_K, gen_kabsch_text(mod))
    _write(OUT_B, gen_b787_text(mod))


if __name__ == "__main__":
    import sys

    root = Path(sys.argv[1] if len(sys.argv) > 1 else "/repo")
    m = ast.parse(root.joinpath(*SRC).read_text())
    print(gen_kabsch_text(m))
    print(gen_b787_text(m))
