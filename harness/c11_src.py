"""C11 — source translator for the code regions the hand model Model/Hash.lean follows.

Reads by python `ast` (never by importing):
  qcelemental/models/molecule.py        float_prep (whole body), Molecule.hash_fields, Molecule.get_hash (whole body),
                                        Molecule.__eq__ (whole body), Molecule.__init__ (`geometry_noise = kwargs.pop(...)`
                                        and the `if orient: ... elif validate or geometry_prep: values["geometry"] = float_prep(...)` chain)
  qcelemental/molparse/from_arrays.py   the `if connectivity is not None:` block of validate_and_fill_units
and emits each as a term of the small syntax of lean/QcelVerif/Model/HashAst.lean into lean/QcelVerif/Gen/HashSrc.lean.
Props/C11Src.lean proves that the generic evaluator at these terms equals the hand model for ALL inputs.

Only the syntax tree is read (whitespace, comments, docstrings, quote style are immaterial).  STATEMENT ORDER, BRANCH ORDER and
every sub-expression of the regions ARE translated; a shape outside the small syntax raises HashSrcError (reported by run.py as a
broken obligation) and leaves an inert Gen/HashSrc.lean with `translationOk := false`, which also breaks Props/C11Src.lean.
"""
from __future__ import annotations

import ast as A

FIELDS = ["symbols", "masses", "molecular_charge", "molecular_multiplicity", "real", "geometry", "fragments", "fragment_charges",
          "fragment_multiplicities", "connectivity"]
NOISE = ["GEOMETRY_NOISE", "MASS_NOISE", "CHARGE_NOISE"]


class HashSrcError(ValueError):
    pass


def _fail(where, node=None, why=""):
    src = ""
    if node is not None:
        try:
            src = A.unparse(node)
        except Exception:  # noqa
            src = A.dump(node)
        src = f" at line {getattr(node, 'lineno', '?')}: `{src[:160]}`"
    raise HashSrcError(f"{where}: shape outside the translated syntax{src}" + (f" ({why})" if why else ""))


def _body(fn):
    """statements of a function without its docstring"""
    b = list(fn.body)
    if b and isinstance(b[0], A.Expr) and isinstance(b[0].value, A.Constant) and isinstance(b[0].value.value, str):
        b = b[1:]
    return b


def _is_name(n, name=None):
    return isinstance(n, A.Name) and (name is None or n.id == name)


def _int_lit(n):
    if isinstance(n, A.Constant) and type(n.value) is int:
        return n.value
    if isinstance(n, A.UnaryOp) and isinstance(n.op, A.USub) and isinstance(n.operand, A.Constant) and type(n.operand.value) is int:
        return -n.operand.value
    return None


def _lean_int(v: int) -> str:
    return str(v) if v >= 0 else f"({v})"


def _module_int_consts(tree):
    out = {}
    for node in tree.body:
        if isinstance(node, A.Assign) and len(node.targets) == 1 and _is_name(node.targets[0]) and _int_lit(node.value) is not None:
            out[node.targets[0].id] = _int_lit(node.value)
        elif isinstance(node, A.AnnAssign) and _is_name(node.target) and node.value is not None and _int_lit(node.value) is not None:
            out[node.target.id] = _int_lit(node.value)
    return out


def _noise_const(node, consts, where):
    if not (_is_name(node) and node.id in NOISE):
        _fail(where, node, "expected one of GEOMETRY_NOISE / MASS_NOISE / CHARGE_NOISE")
    if node.id not in consts or consts[node.id] < 0:
        _fail(where, node, "not a module-level non-negative int literal")
    return node.id, consts[node.id]


def _isinstance_of(test, var, where):
    """isinstance(var, C) / isinstance(var, (C1, C2)) -> list of class expressions"""
    if not (isinstance(test, A.Call) and _is_name(test.func, "isinstance") and len(test.args) == 2 and not test.keywords and _is_name(test.args[0], var)):
        _fail(where, test, f"expected isinstance({var}, ...)")
    c = test.args[1]
    return list(c.elts) if isinstance(c, A.Tuple) else [c]


def _is_raise_of(st, exc):
    if not (isinstance(st, A.Raise) and st.exc is not None):
        return False
    e = st.exc.func if isinstance(st.exc, A.Call) else st.exc
    return _is_name(e, exc)


# ---------------------------------------------------------------------------------------------- float_prep


def _np_attr(f, names):
    return isinstance(f, A.Attribute) and f.attr in names and _is_name(f.value) and f.value.id in ("np", "numpy")


def _int_expr(n, around, where):
    v = _int_lit(n)
    if v is not None:
        return f"(.lit {_lean_int(v)})"
    if _is_name(n, around):
        return ".around"
    if isinstance(n, A.UnaryOp) and isinstance(n.op, A.USub):
        return f"(.neg {_int_expr(n.operand, around, where)})"
    if isinstance(n, A.UnaryOp) and isinstance(n.op, A.UAdd):
        return _int_expr(n.operand, around, where)
    if isinstance(n, A.BinOp) and isinstance(n.op, (A.Add, A.Sub, A.Mult)):
        op = {A.Add: "add", A.Sub: "sub", A.Mult: "mul"}[type(n.op)]
        return f"(.{op} {_int_expr(n.left, around, where)} {_int_expr(n.right, around, where)})"
    _fail(where, n, "integer expression over `around` expected")


def _thr_expr(n, around, where):
    if isinstance(n, A.BinOp) and isinstance(n.op, A.Pow):
        b = _int_lit(n.left)
        if b is None or b < 2:
            _fail(where, n.left, "base of the threshold must be an int literal >= 2")
        return f"(.pow {b} {_int_expr(n.right, around, where)})"
    if isinstance(n, A.BinOp) and isinstance(n.op, A.Mult):
        for c, t in ((n.left, n.right), (n.right, n.left)):
            if not any(isinstance(x, A.BinOp) and isinstance(x.op, A.Pow) for x in A.walk(c)):
                return f"(.scale {_int_expr(c, around, where)} {_thr_expr(t, around, where)})"
    _fail(where, n, "threshold must be <int> ** <expr> or <int expr> * <threshold>")


def _zero_lit(n, where):
    """0 / 0.0 / -0.0 -> True when the literal is the float -0.0"""
    neg = False
    while isinstance(n, A.UnaryOp) and isinstance(n.op, (A.USub, A.UAdd)):
        if isinstance(n.op, A.USub):
            neg = not neg
        n = n.operand
    if not (isinstance(n, A.Constant) and type(n.value) in (int, float) and n.value == 0):
        _fail(where, n, "a literal zero expected")
    return neg and type(n.value) is float


def _prep_stmts(stmts, arr, around):
    where = "float_prep"
    out = []
    for st in stmts:
        if isinstance(st, A.Assign) and len(st.targets) == 1 and _is_name(st.targets[0], arr) and isinstance(st.value, A.Call):
            c = st.value
            args_ok = len(c.args) == 2 and not c.keywords and _is_name(c.args[0], arr) and _is_name(c.args[1], around)
            if _np_attr(c.func, ("around", "round", "round_")) and args_ok:
                out.append(".npAround")
                continue
            if _is_name(c.func, "round") and args_ok:
                out.append(".pyRound")
                continue
            _fail(where, st, "expected np.around(array, around) or round(array, around)")
        if isinstance(st, A.Assign) and len(st.targets) == 1 and isinstance(st.targets[0], A.Subscript):
            sub = st.targets[0]
            cmp_ = sub.slice
            if not (_is_name(sub.value, arr) and isinstance(cmp_, A.Compare) and len(cmp_.ops) == 1 and isinstance(cmp_.ops[0], A.Lt)):
                _fail(where, st, "expected array[np.abs(array) < thr] = 0")
            lhs = cmp_.left
            if not (isinstance(lhs, A.Call) and len(lhs.args) == 1 and not lhs.keywords and _is_name(lhs.args[0], arr)
                    and (_np_attr(lhs.func, ("abs", "absolute", "fabs")) or _is_name(lhs.func, "abs"))):
                _fail(where, lhs, "expected np.abs(array)")
            out.append(f".zeroBelow {_thr_expr(cmp_.comparators[0], around, where)} {'true' if _zero_lit(st.value, where) else 'false'}")
            continue
        if isinstance(st, A.If) and not st.orelse and len(st.body) == 1:
            t = st.test
            b = st.body[0]
            if (isinstance(t, A.Compare) and len(t.ops) == 1 and isinstance(t.ops[0], A.Eq) and _is_name(t.left, arr)
                    and isinstance(b, A.Assign) and len(b.targets) == 1 and _is_name(b.targets[0], arr)):
                _zero_lit(t.comparators[0], where)
                out.append(f".ifEqZeroSet {'true' if _zero_lit(b.value, where) else 'false'}")
                continue
        _fail(where, st)
    return out


def tr_float_prep(tree):
    fps = [n for n in tree.body if isinstance(n, A.FunctionDef) and n.name == "float_prep"]
    if len(fps) != 1:
        _fail("float_prep", why="module-level def float_prep not found exactly once")
    fp = fps[0]
    a = fp.args
    if len(a.args) != 2 or a.vararg or a.kwarg or a.kwonlyargs or a.defaults:
        _fail("float_prep", why="signature is not (array, around)")
    arr, around = a.args[0].arg, a.args[1].arg
    body = _body(fp)
    if not (len(body) == 2 and isinstance(body[0], A.If) and isinstance(body[1], A.Return) and _is_name(body[1].value, arr)):
        _fail("float_prep", fp, "body is not `if/elif/else` followed by `return array`")
    classes = {"list": ".list", "float": ".float", "int": ".int"}
    branches = []
    node = body[0]
    while True:
        cls = []
        for c in _isinstance_of(node.test, arr, "float_prep"):
            if _is_name(c) and c.id in classes:
                cls.append(classes[c.id])
            elif _np_attr(c, ("ndarray",)):
                cls.append(".ndarray")
            else:
                _fail("float_prep", c, "class outside list / np.ndarray / float / int")
        branches.append((cls, _prep_stmts(node.body, arr, around)))
        if len(node.orelse) == 1 and isinstance(node.orelse[0], A.If):
            node = node.orelse[0]
            continue
        if not (len(node.orelse) == 1 and _is_raise_of(node.orelse[0], "TypeError")):
            _fail("float_prep", node, "the final else must be a single `raise TypeError(...)`")
        break
    rows = ["      { classes := [" + ", ".join(cls) + "],\n        body := [" + ", ".join(b) + "] }" for cls, b in branches]
    return "  { branches := [\n" + ",\n".join(rows) + " ] }"


# ---------------------------------------------------------------------------------------------- get_hash


def _molecule_class(tree):
    cls = [n for n in tree.body if isinstance(n, A.ClassDef) and n.name == "Molecule"]
    if len(cls) != 1:
        _fail("Molecule", why="class Molecule not found exactly once")
    return cls[0]


def _method(cls, name):
    ms = [n for n in cls.body if isinstance(n, A.FunctionDef) and n.name == name]
    if len(ms) != 1:
        _fail(f"Molecule.{name}", why="method not found exactly once")
    return ms[0]


def _field_enum(s, where):
    if s not in FIELDS:
        _fail(where, why=f"field name {s!r} outside the ten attributes the model knows")
    return "." + s


def _str_list(node):
    if isinstance(node, (A.List, A.Tuple)) and all(isinstance(e, A.Constant) and isinstance(e.value, str) for e in node.elts):
        return [e.value for e in node.elts]
    return None


def tr_get_hash(tree, consts):
    cls = _molecule_class(tree)
    hf = _method(cls, "hash_fields")
    hb = _body(hf)
    if not (len(hb) == 1 and isinstance(hb[0], A.Return) and _str_list(hb[0].value) is not None):
        _fail("Molecule.hash_fields", hf, "body is not `return [<string literals>]`")
    fields = _str_list(hb[0].value)
    if len(set(fields)) != len(fields):
        _fail("Molecule.hash_fields", hb[0], "duplicate field")
    gh = _method(cls, "get_hash")
    where = "Molecule.get_hash"
    if [x.arg for x in gh.args.args] != ["self"] or gh.args.vararg or gh.args.kwarg or gh.args.kwonlyargs:
        _fail(where, why="signature is not (self)")
    b = _body(gh)
    if len(b) != 5:
        _fail(where, gh, "expected exactly: m = hashlib.sha1(); concat = ''; for ...; m.update(...); return m.hexdigest()")
    s0, s1, loop, s3, s4 = b
    # m = hashlib.sha1()
    if not (isinstance(s0, A.Assign) and len(s0.targets) == 1 and _is_name(s0.targets[0]) and isinstance(s0.value, A.Call)
            and not s0.value.args and not s0.value.keywords and isinstance(s0.value.func, A.Attribute) and _is_name(s0.value.func.value, "hashlib")):
        _fail(where, s0, "expected m = hashlib.<algo>()")
    mvar = s0.targets[0].id
    sha1 = s0.value.func.attr == "sha1"
    # concat = ""
    if not (isinstance(s1, A.Assign) and len(s1.targets) == 1 and _is_name(s1.targets[0]) and isinstance(s1.value, A.Constant) and s1.value.value == ""):
        _fail(where, s1, 'expected concat = ""')
    cvar = s1.targets[0].id
    # for field in self.hash_fields:
    if not (isinstance(loop, A.For) and _is_name(loop.target) and not loop.orelse and isinstance(loop.iter, A.Attribute) and loop.iter.attr == "hash_fields"
            and _is_name(loop.iter.value, "self")):
        _fail(where, loop, "expected for <field> in self.hash_fields")
    fvar = loop.target.id
    lb = loop.body
    if len(lb) not in (2, 3):
        _fail(where, loop, "loop body is not: data = getattr(self, field); [if/elif chain]; concat += json.dumps(data, ...)")
    g = lb[0]
    if not (isinstance(g, A.Assign) and len(g.targets) == 1 and _is_name(g.targets[0]) and isinstance(g.value, A.Call) and _is_name(g.value.func, "getattr")
            and len(g.value.args) == 2 and not g.value.keywords and _is_name(g.value.args[0], "self") and _is_name(g.value.args[1], fvar)):
        _fail(where, g, "expected data = getattr(self, field)")
    dvar = g.targets[0].id
    chain = []
    if len(lb) == 3:
        node = lb[1]
        if not isinstance(node, A.If):
            _fail(where, node, "expected the if/elif chain")
        while True:
            t = node.test
            test = None
            if isinstance(t, A.Compare) and len(t.ops) == 1 and _is_name(t.left, fvar):
                r = t.comparators[0]
                if isinstance(t.ops[0], A.Eq) and isinstance(r, A.Constant) and isinstance(r.value, str):
                    test = f".eq {_field_enum(r.value, where)}"
                elif isinstance(t.ops[0], A.In) and _str_list(r) is not None:
                    test = ".isIn [" + ", ".join(_field_enum(x, where) for x in _str_list(r)) + "]"
            if test is None:
                _fail(where, t, 'expected field == "<name>" or field in (<names>)')
            if len(node.body) != 1:
                _fail(where, node, "branch body is not the single statement data = float_prep(data, CONST)")
            st = node.body[0]
            if not (isinstance(st, A.Assign) and len(st.targets) == 1 and _is_name(st.targets[0], dvar) and isinstance(st.value, A.Call)
                    and _is_name(st.value.func, "float_prep") and len(st.value.args) == 2 and not st.value.keywords and _is_name(st.value.args[0], dvar)):
                _fail(where, st, "expected data = float_prep(data, CONST)")
            cname, k = _noise_const(st.value.args[1], consts, where)
            chain.append(f"      {{ test := {test}, const := .{cname}, decimals := {k} }}")
            if len(node.orelse) == 1 and isinstance(node.orelse[0], A.If):
                node = node.orelse[0]
                continue
            if node.orelse:
                _fail(where, node, "an `else` branch in the rounding chain")
            break
    # concat += json.dumps(data, default=lambda x: x.ravel().tolist())
    d = lb[-1]
    if not (isinstance(d, A.AugAssign) and isinstance(d.op, A.Add) and _is_name(d.target, cvar) and isinstance(d.value, A.Call)
            and isinstance(d.value.func, A.Attribute) and d.value.func.attr == "dumps" and _is_name(d.value.func.value, "json")
            and len(d.value.args) == 1 and _is_name(d.value.args[0], dvar)):
        _fail(where, d, "expected concat += json.dumps(data, ...)")
    sort_keys, default = False, False
    for kw in d.value.keywords:
        if kw.arg == "sort_keys" and isinstance(kw.value, A.Constant) and type(kw.value.value) is bool:
            sort_keys = kw.value.value
        elif kw.arg == "default":
            lam = kw.value
            ok = (isinstance(lam, A.Lambda) and len(lam.args.args) == 1 and not lam.args.defaults and isinstance(lam.body, A.Call)
                  and not lam.body.args and not lam.body.keywords and isinstance(lam.body.func, A.Attribute) and lam.body.func.attr == "tolist")
            if ok:
                inner = lam.body.func.value
                ok = (isinstance(inner, A.Call) and not inner.args and not inner.keywords and isinstance(inner.func, A.Attribute)
                      and inner.func.attr in ("ravel", "flatten") and _is_name(inner.func.value, lam.args.args[0].arg))
            if not ok:
                _fail(where, kw.value, "expected default=lambda x: x.ravel().tolist()")
            default = True
        else:
            _fail(where, d, f"json.dumps keyword {kw.arg!r} is outside the translated syntax")
    # m.update(concat.encode("utf-8"))
    utf8 = False
    ok = (isinstance(s3, A.Expr) and isinstance(s3.value, A.Call) and isinstance(s3.value.func, A.Attribute) and s3.value.func.attr == "update"
          and _is_name(s3.value.func.value, mvar) and len(s3.value.args) == 1 and not s3.value.keywords)
    if ok:
        e = s3.value.args[0]
        ok = (isinstance(e, A.Call) and isinstance(e.func, A.Attribute) and e.func.attr == "encode" and _is_name(e.func.value, cvar) and not e.keywords
              and len(e.args) <= 1 and all(isinstance(x, A.Constant) and isinstance(x.value, str) for x in e.args))
        if ok:
            utf8 = (not e.args) or e.args[0].value.lower().replace("_", "-") in ("utf-8", "utf8")
    if not ok:
        _fail(where, s3, 'expected m.update(concat.encode("utf-8"))')
    # return m.hexdigest()
    if not (isinstance(s4, A.Return) and isinstance(s4.value, A.Call) and not s4.value.args and not s4.value.keywords
            and isinstance(s4.value.func, A.Attribute) and _is_name(s4.value.func.value, mvar)):
        _fail(where, s4, "expected return m.hexdigest()")
    hexd = s4.value.func.attr == "hexdigest"
    b2 = lambda x: "true" if x else "false"  # noqa
    return ("  { fields := [" + ", ".join(_field_enum(f, "Molecule.hash_fields") for f in fields) + "],\n"
            "    chain := [\n" + ",\n".join(chain) + " ],\n"
            f"    dumps := {{ sortKeys := {b2(sort_keys)}, defaultRavelTolist := {b2(default)} }},\n"
            f"    encodingUtf8 := {b2(utf8)},\n"
            f"    digestSha1Hex := {b2(sha1 and hexd)} }}")


# ---------------------------------------------------------------------------------------------- __eq__


def tr_eq(tree):
    cls = _molecule_class(tree)
    eq = _method(cls, "__eq__")
    where = "Molecule.__eq__"
    if len(eq.args.args) != 2 or eq.args.args[0].arg != "self" or eq.args.vararg or eq.args.kwarg or eq.args.kwonlyargs or eq.args.defaults:
        _fail(where, why="signature is not (self, other)")
    other = eq.args.args[1].arg
    b = _body(eq)
    if not (len(b) == 2 and isinstance(b[0], A.If) and isinstance(b[1], A.Return)):
        _fail(where, eq, "body is not an isinstance chain followed by a return")
    accepts_dict = accepts_mol = False
    node = b[0]
    while True:
        cs = _isinstance_of(node.test, other, where)
        if len(cs) != 1 or not _is_name(cs[0]) or cs[0].id not in ("dict", "Molecule"):
            _fail(where, node.test, "expected isinstance(other, dict) / isinstance(other, Molecule)")
        if cs[0].id == "dict":
            st = node.body[0] if len(node.body) == 1 else None
            ok = (isinstance(st, A.Assign) and len(st.targets) == 1 and _is_name(st.targets[0], other) and isinstance(st.value, A.Call)
                  and _is_name(st.value.func, "Molecule") and not st.value.args and len(st.value.keywords) == 2)
            if ok:
                kws = {k.arg: k.value for k in st.value.keywords}
                ok = ("orient" in kws and isinstance(kws["orient"], A.Constant) and kws["orient"].value is False and None in kws and _is_name(kws[None], other))
            if not ok:
                _fail(where, node, "expected other = Molecule(orient=False, **other)")
            accepts_dict = True
        else:
            if not (len(node.body) == 1 and isinstance(node.body[0], A.Pass)):
                _fail(where, node, "expected `pass` for a Molecule operand")
            accepts_mol = True
        if len(node.orelse) == 1 and isinstance(node.orelse[0], A.If):
            node = node.orelse[0]
            continue
        if not (len(node.orelse) == 1 and _is_raise_of(node.orelse[0], "TypeError")):
            _fail(where, node, "the final else must be a single `raise TypeError(...)`")
        break
    r = b[1].value
    if not (isinstance(r, A.Compare) and len(r.ops) == 1 and isinstance(r.ops[0], A.Eq)):
        _fail(where, b[1], "expected return <x>.get_hash() == <y>.get_hash()")

    def side(e):
        if not (isinstance(e, A.Call) and not e.args and not e.keywords and isinstance(e.func, A.Attribute) and _is_name(e.func.value)
                and e.func.value.id in ("self", other)):
            _fail(where, e, "expected self.<method>() or other.<method>()")
        return (".self" if e.func.value.id == "self" else ".other"), ("true" if e.func.attr == "get_hash" else "false")

    (l, lm), (rr, rm) = side(r.left), side(r.comparators[0])
    b2 = lambda x: "true" if x else "false"  # noqa
    return f"  {{ acceptsDict := {b2(accepts_dict)}, acceptsMolecule := {b2(accepts_mol)}, lhs := {l}, lhsGetHash := {lm}, rhs := {rr}, rhsGetHash := {rm} }}"


# ---------------------------------------------------------------------------------------------- __init__ (construction-time rounding)


def tr_cons(tree, consts):
    cls = _molecule_class(tree)
    init = _method(cls, "__init__")
    where = "Molecule.__init__"
    pops = []
    for n in A.walk(init):
        if isinstance(n, A.Assign) and len(n.targets) == 1 and _is_name(n.targets[0]) and isinstance(n.value, A.Call) and isinstance(n.value.func, A.Attribute) \
                and n.value.func.attr == "pop" and _is_name(n.value.func.value, "kwargs") and n.value.args and isinstance(n.value.args[0], A.Constant) \
                and n.value.args[0].value == "geometry_noise":
            pops.append(n)
    if len(pops) != 1 or len(pops[0].value.args) != 2 or pops[0].value.keywords:
        _fail(where, pops[0] if pops else None, 'expected exactly one <var> = kwargs.pop("geometry_noise", CONST)')
    nvar = pops[0].targets[0].id
    cname, k = _noise_const(pops[0].value.args[1], consts, where)
    others = [n for n in A.walk(init) if isinstance(n, (A.Assign, A.AugAssign, A.AnnAssign)) and n is not pops[0]
              and any(_is_name(t, nvar) for t in (n.targets if isinstance(n, A.Assign) else [n.target]))]
    if others:
        _fail(where, others[0], f"`{nvar}` is assigned a second time")

    def geom_prep(st, orient_branch):
        """values["geometry"] = float_prep(<arg>, nvar)"""
        if not (isinstance(st, A.Assign) and len(st.targets) == 1 and isinstance(st.targets[0], A.Subscript) and _is_name(st.targets[0].value, "values")
                and isinstance(st.targets[0].slice, A.Constant) and st.targets[0].slice.value == "geometry" and isinstance(st.value, A.Call)
                and _is_name(st.value.func, "float_prep") and len(st.value.args) == 2 and not st.value.keywords and _is_name(st.value.args[1], nvar)):
            return False
        a0 = st.value.args[0]
        if orient_branch:
            return isinstance(a0, A.Call) and isinstance(a0.func, A.Attribute) and a0.func.attr == "_orient_molecule_internal" and _is_name(a0.func.value, "self")
        return isinstance(a0, A.Subscript) and _is_name(a0.value, "values") and isinstance(a0.slice, A.Constant) and a0.slice.value == "geometry"

    calls = [c for c in A.walk(init) if isinstance(c, A.Call) and _is_name(c.func, "float_prep")]
    chains = [n for n in A.walk(init) if isinstance(n, A.If) and _is_name(n.test, "orient")]
    if len(chains) != 1:
        _fail(where, why="expected exactly one `if orient:` chain")
    ch = chains[0]
    if not (len(ch.body) == 1 and geom_prep(ch.body[0], True)):
        _fail(where, ch, 'expected values["geometry"] = float_prep(self._orient_molecule_internal(), geometry_noise) under `if orient:`')
    if not (len(ch.orelse) == 1 and isinstance(ch.orelse[0], A.If) and not ch.orelse[0].orelse):
        _fail(where, ch, "expected a single `elif <names or-ed>:` after `if orient:`")
    el = ch.orelse[0]
    if _is_name(el.test):
        names = [el.test.id]
    elif isinstance(el.test, A.BoolOp) and isinstance(el.test.op, A.Or) and all(_is_name(v) for v in el.test.values):
        names = [v.id for v in el.test.values]
    else:
        _fail(where, el.test, "expected a disjunction of names")
    if not (len(el.body) == 1 and geom_prep(el.body[0], False)):
        _fail(where, el, 'expected values["geometry"] = float_prep(values["geometry"], geometry_noise)')
    if len(calls) != 2:
        _fail(where, why=f"expected exactly two float_prep calls in __init__, found {len(calls)}")
    return f"  {{ defaultConst := .{cname}, defaultNoise := {k}, prepOnValidate := {'true' if 'validate' in names else 'false'} }}"


# ---------------------------------------------------------------------------------------------- from_arrays connectivity block


def tr_conn(tree):
    where = "from_arrays connectivity block"
    blocks = []
    for n in A.walk(tree):
        if isinstance(n, A.If) and isinstance(n.test, A.Compare) and _is_name(n.test.left, "connectivity") and len(n.test.ops) == 1 \
                and isinstance(n.test.ops[0], A.IsNot) and isinstance(n.test.comparators[0], A.Constant) and n.test.comparators[0].value is None:
            blocks.append(n)
    if len(blocks) != 1 or blocks[0].orelse:
        _fail(where, why="expected exactly one `if connectivity is not None:` without else")
    blk = blocks[0].body
    if not (len(blk) == 2 and isinstance(blk[0], A.Assign) and len(blk[0].targets) == 1 and _is_name(blk[0].targets[0]) and isinstance(blk[0].value, A.List)
            and not blk[0].value.elts and isinstance(blk[1], A.Try)):
        _fail(where, blocks[0], "expected conn = [] followed by try:")
    conn = blk[0].targets[0].id
    tr = blk[1]
    if tr.orelse or tr.finalbody or len(tr.handlers) != 1 or not _is_name(tr.handlers[0].type, "ValueError") \
            or not (len(tr.handlers[0].body) == 1 and _is_raise_of(tr.handlers[0].body[0], "ValidationError")):
        _fail(where, tr, "expected try: ... except ValueError: raise ValidationError(...)")
    tb = tr.body
    if len(tb) != 3 or not isinstance(tb[0], A.For):
        _fail(where, tr, 'expected: for ...; conn.sort(...); molinit["connectivity"] = conn')
    loop, srt, store = tb
    if not (isinstance(loop.target, A.Tuple) and len(loop.target.elts) == 3 and all(_is_name(e) for e in loop.target.elts) and _is_name(loop.iter, "connectivity")
            and not loop.orelse):
        _fail(where, loop, "expected for at1, at2, bondorder in connectivity")
    v1, v2, vo = (e.id for e in loop.target.elts)

    def idx_expr(e):
        if _is_name(e, v1):
            return ".at1"
        if _is_name(e, v2):
            return ".at2"
        if isinstance(e, A.Call) and _is_name(e.func) and not e.keywords:
            if e.func.id in ("min", "max") and len(e.args) == 2:
                return f"(.{e.func.id} {idx_expr(e.args[0])} {idx_expr(e.args[1])})"
            if e.func.id == "int" and len(e.args) == 1:
                return f"(.int {idx_expr(e.args[0])})"
        _fail(where, e, "index expression outside at1 / at2 / min / max / int")

    def ord_expr(e):
        if _is_name(e, vo):
            return ".order"
        if isinstance(e, A.Call) and _is_name(e.func, "float") and len(e.args) == 1 and not e.keywords:
            return f"(.float {ord_expr(e.args[0])})"
        _fail(where, e, "bond-order expression outside bondorder / float(...)")

    checks = []
    for st in loop.body[:-1]:
        if not (isinstance(st, A.If) and not st.orelse and len(st.body) == 1 and _is_raise_of(st.body[0], "ValidationError")
                and isinstance(st.test, A.BoolOp) and isinstance(st.test.op, A.Or) and len(st.test.values) == 2):
            _fail(where, st, "expected `if <a> or <b>: raise ValidationError(...)`")
        x, y = st.test.values
        # not (float(v)).is_integer() or v < 0
        if isinstance(x, A.UnaryOp) and isinstance(x.op, A.Not):
            c = x.operand
            ok = (isinstance(c, A.Call) and not c.args and not c.keywords and isinstance(c.func, A.Attribute) and c.func.attr == "is_integer"
                  and isinstance(c.func.value, A.Call) and _is_name(c.func.value.func, "float") and len(c.func.value.args) == 1
                  and _is_name(c.func.value.args[0]) and c.func.value.args[0].id in (v1, v2))
            v = c.func.value.args[0].id if ok else None
            ok = ok and isinstance(y, A.Compare) and len(y.ops) == 1 and isinstance(y.ops[0], A.Lt) and _is_name(y.left, v) and _int_lit(y.comparators[0]) == 0
            if not ok:
                _fail(where, st.test, "expected not float(atN).is_integer() or atN < 0")
            checks.append(f".idxBad {'true' if v == v1 else 'false'}")
            continue
        # bondorder < lo or bondorder > hi
        ok = (isinstance(x, A.Compare) and len(x.ops) == 1 and isinstance(x.ops[0], A.Lt) and _is_name(x.left, vo) and _int_lit(x.comparators[0]) is not None
              and isinstance(y, A.Compare) and len(y.ops) == 1 and isinstance(y.ops[0], A.Gt) and _is_name(y.left, vo) and _int_lit(y.comparators[0]) is not None)
        if not ok:
            _fail(where, st.test, "expected bondorder < <int> or bondorder > <int>")
        checks.append(f".orderOutside {_lean_int(_int_lit(x.comparators[0]))} {_lean_int(_int_lit(y.comparators[0]))}")
    ap = loop.body[-1] if loop.body else None
    if not (isinstance(ap, A.Expr) and isinstance(ap.value, A.Call) and isinstance(ap.value.func, A.Attribute) and ap.value.func.attr == "append"
            and _is_name(ap.value.func.value, conn) and len(ap.value.args) == 1 and not ap.value.keywords and isinstance(ap.value.args[0], A.Tuple)
            and len(ap.value.args[0].elts) == 3):
        _fail(where, ap, "expected conn.append((<e1>, <e2>, <e3>)) as the last statement of the loop")
    e1, e2, e3 = ap.value.args[0].elts
    t1, t2, t3 = idx_expr(e1), idx_expr(e2), ord_expr(e3)
    # conn.sort(...)
    if not (isinstance(srt, A.Expr) and isinstance(srt.value, A.Call) and isinstance(srt.value.func, A.Attribute) and srt.value.func.attr == "sort"
            and _is_name(srt.value.func.value, conn) and not srt.value.args):
        _fail(where, srt, "expected conn.sort(...)")
    key, rev = "none", "false"
    for kw in srt.value.keywords:
        if kw.arg == "reverse" and isinstance(kw.value, A.Constant) and type(kw.value.value) is bool:
            rev = "true" if kw.value.value else "false"
        elif kw.arg == "key" and isinstance(kw.value, A.Constant) and kw.value.value is None:
            key = "none"
        elif kw.arg == "key" and isinstance(kw.value, A.Lambda) and len(kw.value.args.args) == 1 and isinstance(kw.value.body, A.Subscript) \
                and _is_name(kw.value.body.value, kw.value.args.args[0].arg) and _int_lit(kw.value.body.slice) is not None and 0 <= _int_lit(kw.value.body.slice) <= 2:
            key = f"(some {_int_lit(kw.value.body.slice)})"
        else:
            _fail(where, srt, "sort keyword outside key=lambda x: x[i] / reverse=<bool>")
    if not (isinstance(store, A.Assign) and len(store.targets) == 1 and isinstance(store.targets[0], A.Subscript) and _is_name(store.targets[0].value, "molinit")
            and isinstance(store.targets[0].slice, A.Constant) and store.targets[0].slice.value == "connectivity" and _is_name(store.value, conn)):
        _fail(where, store, 'expected molinit["connectivity"] = conn')
    return ("  { checks := [" + ", ".join(checks) + "],\n"
            f"    t1 := {t1},\n    t2 := {t2},\n    t3 := {t3},\n"
            f"    sort := {{ key := {key}, reverse := {rev} }} }}")


# ---------------------------------------------------------------------------------------------- emit

HEADER = ("import QcelVerif.Model.HashAst\n"
          "/-! GENERATED by harness/c11_src.py:gen_hash_src from qcelemental/models/molecule.py and qcelemental/molparse/from_arrays.py "
          "(read by `ast`) — do not edit -/\n"
          "namespace QcelVerif.Hash.Gen\nopen QcelVerif.Hash.Src\n\n")

INERT = {
    "floatPrep": ("PrepFn", "  { branches := [] }"),
    "getHash": ("GetHashFn", "  { fields := [], chain := [], dumps := { sortKeys := false, defaultRavelTolist := false }, encodingUtf8 := false, digestSha1Hex := false }"),
    "eqFn": ("EqFn", "  { acceptsDict := false, acceptsMolecule := false, lhs := .self, lhsGetHash := false, rhs := .self, rhsGetHash := false }"),
    "connFn": ("ConnFn", "  { checks := [], t1 := .at1, t2 := .at1, t3 := .order, sort := { key := none, reverse := false } }"),
    "consFn": ("ConsFn", "  { defaultConst := .GEOMETRY_NOISE, defaultNoise := 0, prepOnValidate := false }"),
}
DOC = {
    "floatPrep": "`float_prep(array, around)` (molecule.py)",
    "getHash": "`Molecule.get_hash` + `Molecule.hash_fields` (molecule.py)",
    "eqFn": "`Molecule.__eq__` (molecule.py)",
    "connFn": "the `if connectivity is not None:` block of from_arrays.py",
    "consFn": "`Molecule.__init__`: the `geometry_noise` default and the rounding branch (molecule.py)",
}


def translate(repo) -> dict:
    mol = A.parse((repo / "qcelemental" / "models" / "molecule.py").read_text())
    fa = A.parse((repo / "qcelemental" / "molparse" / "from_arrays.py").read_text())
    consts = _module_int_consts(mol)
    return {
        "floatPrep": tr_float_prep(mol),
        "getHash": tr_get_hash(mol, consts),
        "eqFn": tr_eq(mol),
        "connFn": tr_conn(fa),
        "consFn": tr_cons(mol, consts),
    }


def render(terms: dict, ok: bool, note: str = "") -> str:
    out = [HEADER]
    if note:
        out.append("/- the source could NOT be translated:\n" + note.replace("-/", "- /") + "\n-/\n\n")
    out.append("/-- the translator recognised every region -/\n" + f"def translationOk : Bool := {'true' if ok else 'false'}\n\n")
    for name in ("floatPrep", "getHash", "eqFn", "connFn", "consFn"):
        ty = INERT[name][0]
        out.append(f"/-- {DOC[name]} -/\ndef {name} : {ty} :=\n{terms[name]}\n\n")
    out.append("end QcelVerif.Hash.Gen\n")
    return "".join(out)


def gen_hash_src(ctx=None) -> None:
    import common

    gen = common.LEAN / "QcelVerif" / "Gen"
    gen.mkdir(exist_ok=True)
    f = gen / "HashSrc.lean"
    try:
        body = render(translate(common.REPO), True)
    except Exception as e:
        # never leave a stale term behind that could still satisfy Props/C11Src.lean: inert terms of the right types (the driver still
        # builds and reports `src-untranslated`), `translationOk := false` breaks the obligations together with the translator
        f.write_text(render({k: v[1] for k, v in INERT.items()}, False, f"{type(e).__name__}: {e}"))
        raise
    if not f.exists() or f.read_text() != body:
        f.write_text(body)
