"""C18 translator: qcelemental/util/misc.py + qcelemental/molutil/connectivity.py  ->  lean/QcelVerif/Gen/MeasureSrc.lean

Reads the two files with `ast` on every run and re-expresses
  * the bodies of compute_distance / compute_angle / compute_dihedral (helper calls such as `_norm` are inlined from THEIR
    source) as terms of the per-row numeric-expression AST of lean/QcelVerif/Model/MeasureAst.lean (SE scalar / VE vector);
  * guess_connectivity's pair loop (loop bounds, slice offsets, the comparison operator, the distance and cutoff
    expressions, the order of the appended pair) as a `ConnSpec`.
Anything outside the recognised fragment raises `Untranslatable` (the harness reports a broken translator: the check cannot
pass).  No numpy semantics are guessed: each recognised call is listed in `CALLS` below with the exact argument shape required.
"""
from __future__ import annotations

import ast
from pathlib import Path

import common

MISC = ("qcelemental", "util", "misc.py")
CONN = ("qcelemental", "molutil", "connectivity.py")
OUT = ("QcelVerif", "Gen", "MeasureSrc.lean")
EINSUM_ROWDOT = "ij,ij->i"


class Untranslatable(Exception):
    pass


def fail(node, msg):
    ln = getattr(node, "lineno", "?")
    try:
        src = ast.unparse(node)
    except Exception:  # noqa
        src = "<?>"
    raise Untranslatable(f"line {ln}: {msg}: `{src[:120]}`")


# a translated value: (kind, lean) with kind in
#   'V'  (n,3) array, one Vec per row        'S'  (n,) array or Python scalar, one scalar per row
#   'SB' an 'S' subscripted with [:, None] (broadcasts against the rows of a 'V')       'L' Python numeric literal (an 'S')
def is_np(node, name):
    return isinstance(node, ast.Attribute) and isinstance(node.value, ast.Name) and node.value.id == "np" and node.attr == name


def is_np_linalg_norm(node):
    return (isinstance(node, ast.Attribute) and node.attr == "norm" and isinstance(node.value, ast.Attribute)
            and node.value.attr == "linalg" and isinstance(node.value.value, ast.Name) and node.value.value.id == "np")


def lit_of(node):
    """integral Python literal (int, or float with integral value), optional leading minus -> int, else None"""
    if isinstance(node, ast.Constant) and type(node.value) in (int, float) and float(node.value).is_integer():
        return int(node.value)
    if isinstance(node, ast.UnaryOp) and isinstance(node.op, ast.USub):
        v = lit_of(node.operand)
        return None if v is None else -v
    return None


def lean_int(i: int) -> str:
    return f"(.lit ({i}))" if i < 0 else f"(.lit {i})"


class FnTranslator:
    """symbolic execution of one straight-line numeric function body"""

    def __init__(self, module: ast.Module, depth=0):
        self.module = module
        self.funcs = {n.name: n for n in module.body if isinstance(n, ast.FunctionDef)}
        self.depth = depth
        self.trace = []  # (lineno, source, kind, lean) of every assignment, for the comments of the generated file

    # ---- expressions
    def expr(self, node, env):
        k = lit_of(node)
        if k is not None:
            return ("L", lean_int(k))
        if isinstance(node, ast.Name):
            if node.id not in env:
                fail(node, "unknown name")
            return env[node.id]
        if is_np(node, "pi"):
            return ("S", ".pi")
        if isinstance(node, ast.UnaryOp) and isinstance(node.op, ast.USub):
            k, a = self.expr(node.operand, env)
            if k in ("S", "L"):
                return ("S", f"(.neg {a})")
            fail(node, "unary minus on a non-scalar")
        if isinstance(node, ast.BinOp):
            return self.binop(node, env)
        if isinstance(node, ast.Subscript):
            # e[:, None]  on a per-row scalar
            sl = node.slice
            if (isinstance(sl, ast.Tuple) and len(sl.elts) == 2 and isinstance(sl.elts[0], ast.Slice)
                    and sl.elts[0].lower is None and sl.elts[0].upper is None and sl.elts[0].step is None
                    and isinstance(sl.elts[1], ast.Constant) and sl.elts[1].value is None):
                k, a = self.expr(node.value, env)
                if k != "S":
                    fail(node, "[:, None] on something that is not a per-row scalar")
                return ("SB", a)
            fail(node, "unrecognised subscript")
        if isinstance(node, ast.Call):
            return self.call(node, env)
        fail(node, "unrecognised expression")

    def binop(self, node, env):
        ka, a = self.expr(node.left, env)
        kb, b = self.expr(node.right, env)
        sc = ("S", "L")
        if isinstance(node.op, (ast.Add, ast.Sub)):
            c = "add" if isinstance(node.op, ast.Add) else "sub"
            if ka == "V" and kb == "V":
                return ("V", f"(.{c} {a} {b})")
            if ka in sc and kb in sc:
                return ("S", f"(.{c} {a} {b})")
            fail(node, f"+/- between kinds {ka} and {kb}")
        if isinstance(node.op, ast.Mult):
            if ka in sc and kb in sc:
                return ("S", f"(.mul {a} {b})")
            if ka in ("L", "SB") and kb == "V":  # Python scalar * array, or per-row scalar[:, None] * array
                return ("V", f"(.scale {a} {b})")
            fail(node, f"* between kinds {ka} and {kb} (a per-row scalar must carry [:, None] to multiply rows)")
        if isinstance(node.op, ast.Div):
            if ka in sc and kb in sc:
                return ("S", f"(.div {a} {b})")
            if ka == "V" and kb == "SB":
                return ("V", f"(.divS {a} {b})")
            fail(node, f"/ between kinds {ka} and {kb}")
        fail(node, "unrecognised operator")

    def args(self, node, env, n, kinds, kw=()):
        if len(node.args) != n or sorted(k.arg for k in node.keywords) != sorted(kw):
            fail(node, f"expected {n} positional arguments and keywords {list(kw)}")
        out = []
        for a, want in zip(node.args, kinds):
            k, v = self.expr(a, env)
            if k == "L" and want == "S":
                k = "S"
            if k != want:
                fail(a, f"argument of kind {k}, expected {want}")
            out.append(v)
        return out

    def call(self, node, env):
        f = node.func
        if is_np(f, "einsum"):
            if not (len(node.args) == 3 and not node.keywords and isinstance(node.args[0], ast.Constant) and node.args[0].value == EINSUM_ROWDOT):
                fail(node, f"only np.einsum({EINSUM_ROWDOT!r}, a, b) is recognised")
            vs = []
            for a in node.args[1:]:
                k, v = self.expr(a, env)
                if k != "V":
                    fail(a, "einsum operand is not an (n,3) array")
                vs.append(v)
            return ("S", f"(.dot {vs[0]} {vs[1]})")
        if is_np(f, "cross"):
            a, b = self.args(node, env, 2, "VV")
            return ("V", f"(.cross {a} {b})")
        if is_np_linalg_norm(f):
            if not (len(node.keywords) == 1 and node.keywords[0].arg == "axis" and lit_of(node.keywords[0].value) == 1):
                fail(node, "only np.linalg.norm(v, axis=1) is recognised")
            (a,) = self.args(node, env, 1, "V", kw=("axis",))
            return ("S", f"(.sqrt (.dot {a} {a}))")
        if is_np(f, "atleast_2d"):
            # per row this is the identity on an (n,3) array; the leading axis is handled outside the AST
            (a,) = self.args(node, env, 1, "V")
            return ("V", a)
        for name, n in (("sqrt", 1), ("arccos", 1), ("degrees", 1)):
            if is_np(f, name):
                (a,) = self.args(node, env, n, "S")
                return ("S", f"(.{name} {a})")
        if is_np(f, "clip"):
            a, lo, hi = self.args(node, env, 3, "SSS")
            return ("S", f"(.clip {a} {lo} {hi})")
        if is_np(f, "arctan2"):
            y, x = self.args(node, env, 2, "SS")  # numpy: arctan2(x1 = y-coordinate, x2 = x-coordinate)
            return ("S", f"(.arctan2 {y} {x})")
        if isinstance(f, ast.Name) and f.id in self.funcs:
            if self.depth > 4:
                fail(node, "helper nesting too deep")
            fn = self.funcs[f.id]
            if node.keywords or len(node.args) != len(fn.args.args) or fn.args.kwonlyargs or fn.args.vararg or fn.args.kwarg:
                fail(node, "helper call with keywords / wrong arity")
            sub = FnTranslator(self.module, self.depth + 1)
            env2 = {p.arg: self.expr(a, env) for p, a in zip(fn.args.args, node.args)}
            return sub.body(fn, env2)
        fail(node, "unrecognised call")

    # ---- statements
    def body(self, fn: ast.FunctionDef, env):
        stmts = list(fn.body)
        if stmts and isinstance(stmts[0], ast.Expr) and isinstance(stmts[0].value, ast.Constant) and isinstance(stmts[0].value.value, str):
            stmts = stmts[1:]
        for i, st in enumerate(stmts):
            if isinstance(st, ast.Assign):
                if len(st.targets) != 1 or not isinstance(st.targets[0], ast.Name):
                    fail(st, "only `name = expr` assignments are recognised")
                val = self.expr(st.value, env)
                env[st.targets[0].id] = val
                self.trace.append((st.lineno, ast.unparse(st), val[0]))
                continue
            if isinstance(st, ast.Return):
                if i != len(stmts) - 1 or st.value is None:
                    fail(st, "return must be the last statement")
                self.trace.append((st.lineno, ast.unparse(st), "S"))
                return self.ret(st.value, env)
            if isinstance(st, ast.If):
                # if degrees: return A  else: return B      (must be last)
                if not (i == len(stmts) - 1 and isinstance(st.test, ast.Name) and env.get(st.test.id) == ("FLAG", "degrees")
                        and len(st.body) == 1 and len(st.orelse) == 1 and isinstance(st.body[0], ast.Return) and isinstance(st.orelse[0], ast.Return)):
                    fail(st, "only a final `if degrees: return A else: return B` is recognised")
                kt, t = self.ret(st.body[0].value, env)
                ke, e = self.ret(st.orelse[0].value, env)
                self.trace.append((st.lineno, "if degrees: return " + ast.unparse(st.body[0].value) + " else: return " + ast.unparse(st.orelse[0].value), "S"))
                return ("S", f"(.ifDegrees {t} {e})")
            fail(st, "unrecognised statement")
        fail(fn, "function body does not end in a return")

    def ret(self, node, env):
        k, v = self.expr(node, env)
        if k == "L":
            k = "S"
        if k not in ("S", "V"):
            fail(node, "returned value is neither a per-row scalar nor an (n,3) array")
        return (k, v)


def translate_measure(module: ast.Module, name: str, npts: int):
    fn = next((n for n in module.body if isinstance(n, ast.FunctionDef) and n.name == name), None)
    if fn is None:
        raise Untranslatable(f"function {name} not found")
    a = fn.args
    if a.vararg or a.kwarg or len(a.args) != npts or a.posonlyargs:
        fail(fn, f"expected exactly {npts} positional point parameters")
    kwo = [k.arg for k in a.kwonlyargs]
    if kwo not in ([], ["degrees"]):
        fail(fn, "only the keyword-only parameter `degrees` is recognised")
    if kwo and not (isinstance(a.kw_defaults[0], ast.Constant) and a.kw_defaults[0].value is False):
        fail(fn, "degrees must default to False")
    tr = FnTranslator(module)
    # the point parameters are arbitrary array-likes; they become (n,3) arrays only through np.atleast_2d (scalar-vs-array un-wrapping)
    env = {p.arg: ("RAW", i) for i, p in enumerate(a.args)}
    if kwo:
        env["degrees"] = ("FLAG", "degrees")
    stmts = list(fn.body)
    if stmts and isinstance(stmts[0], ast.Expr) and isinstance(stmts[0].value, ast.Constant):
        stmts = stmts[1:]
    wrapped = []
    k = 0
    for st in stmts:
        # pK = np.atleast_2d(pK)
        if (isinstance(st, ast.Assign) and len(st.targets) == 1 and isinstance(st.targets[0], ast.Name) and isinstance(st.value, ast.Call)
                and is_np(st.value.func, "atleast_2d") and len(st.value.args) == 1 and not st.value.keywords
                and isinstance(st.value.args[0], ast.Name) and st.value.args[0].id == st.targets[0].id
                and env.get(st.targets[0].id, ("", 0))[0] == "RAW"):
            nm = st.targets[0].id
            env[nm] = ("V", f"(.pt {env[nm][1]})")
            wrapped.append(nm)
            k += 1
        else:
            break
    if len(wrapped) != npts:
        fail(fn, "every point parameter must first be passed through np.atleast_2d")
    import copy

    rest = copy.copy(fn)
    rest.body = stmts[k:]
    kind, term = tr.body(rest, env)
    if kind != "S":
        fail(fn, "result is not a per-row scalar")
    return fn.lineno, term, tr.trace


# ---- guess_connectivity's pair loop ------------------------------------------------------------

CMP = {ast.Lt: "lt", ast.LtE: "le", ast.Gt: "gt", ast.GtE: "ge"}


def idx_offset(node, var):
    """`x` -> 0, `x + k` -> k (k a non-negative int literal)"""
    if isinstance(node, ast.Name) and node.id == var:
        return 0
    if (isinstance(node, ast.BinOp) and isinstance(node.op, ast.Add) and isinstance(node.left, ast.Name) and node.left.id == var
            and isinstance(node.right, ast.Constant) and type(node.right.value) is int and node.right.value >= 0):
        return node.right.value
    fail(node, f"expected `{var}` or `{var} + k`")


class ConnRewriter(ast.NodeTransformer):
    """geometry[x] -> __g0, geometry[x+k:] -> __g1 (k recorded), radii[x] -> __r0, radii[x+k:] -> __r1"""

    def __init__(self, var):
        self.var = var
        self.off = {}

    def visit_Subscript(self, node):
        if isinstance(node.value, ast.Name) and node.value.id in ("geometry", "radii"):
            tag = "g" if node.value.id == "geometry" else "r"
            sl = node.slice
            if isinstance(sl, ast.Slice):
                if sl.upper is not None or sl.step is not None or sl.lower is None:
                    fail(node, "only the open slice [x + k :] is recognised")
                k = idx_offset(sl.lower, self.var)
                if self.off.setdefault(tag, k) != k:
                    fail(node, "two different slice offsets for the same array")
                return ast.copy_location(ast.Name(id=f"__{tag}1", ctx=ast.Load()), node)
            if isinstance(sl, ast.Name) and sl.id == self.var:
                return ast.copy_location(ast.Name(id=f"__{tag}0", ctx=ast.Load()), node)
            fail(node, "unrecognised index into geometry / radii")
        return self.generic_visit(node)


def translate_conn(module: ast.Module):
    fn = next((n for n in module.body if isinstance(n, ast.FunctionDef) and n.name == "guess_connectivity"), None)
    if fn is None:
        raise Untranslatable("guess_connectivity not found")
    params = [a.arg for a in fn.args.args]
    if params[:3] != ["symbols", "geometry", "threshold"]:
        fail(fn, "unexpected parameters")
    loops = [s for s in fn.body if isinstance(s, ast.For)]
    loop = next((s for s in loops if isinstance(s.iter, ast.Call) and isinstance(s.iter.func, ast.Name) and s.iter.func.id == "range"), None)
    if loop is None:
        fail(fn, "no `for x in range(...)` loop")
    pre = fn.body[: fn.body.index(loop)]
    if not any(isinstance(s, ast.Assign) and ast.unparse(s) == "con = []" for s in pre):
        fail(fn, "`con = []` before the loop not found")
    if not (isinstance(fn.body[-1], ast.Return) and ast.unparse(fn.body[-1]) == "return con"):
        fail(fn, "`return con` not found")
    it = loop.iter
    if not (len(it.args) == 1 and not it.keywords and ast.unparse(it.args[0]) == "geometry.shape[0]" and isinstance(loop.target, ast.Name) and not loop.orelse):
        fail(loop, "only `for x in range(geometry.shape[0])` is recognised")
    x = loop.target.id
    rw = ConnRewriter(x)
    tr = FnTranslator(module)
    env = {"__g0": ("V", "(.pt 0)"), "__g1": ("V", "(.pt 1)"), "__r0": ("S", "(.svar 0)"), "__r1": ("S", "(.svar 1)"), "threshold": ("S", "(.svar 2)")}
    spec = {}
    trace = []
    body = list(loop.body)
    i = 0
    while i < len(body):
        st = body[i]
        src = ast.unparse(st)
        # np.sqrt(dists, out=dists)
        if (isinstance(st, ast.Expr) and isinstance(st.value, ast.Call) and is_np(st.value.func, "sqrt") and len(st.value.args) == 1
                and isinstance(st.value.args[0], ast.Name) and len(st.value.keywords) == 1 and st.value.keywords[0].arg == "out"
                and isinstance(st.value.keywords[0].value, ast.Name) and st.value.keywords[0].value.id == st.value.args[0].id):
            nm = st.value.args[0].id
            k, v = env.get(nm, (None, None))
            if k != "S":
                fail(st, "in-place sqrt of something that is not a per-row scalar")
            env[nm] = ("S", f"(.sqrt {v})")
            trace.append((st.lineno, src))
        # where = np.where(A <cmp> B)[0]
        elif (isinstance(st, ast.Assign) and isinstance(st.value, ast.Subscript) and isinstance(st.value.value, ast.Call)
              and is_np(st.value.value.func, "where")):
            c = st.value.value
            if not (lit_of(st.value.slice) == 0 and len(c.args) == 1 and not c.keywords and isinstance(c.args[0], ast.Compare)
                    and len(c.args[0].ops) == 1 and type(c.args[0].ops[0]) in CMP and len(st.targets) == 1 and isinstance(st.targets[0], ast.Name)):
                fail(st, "only `name = np.where(a <cmp> b)[0]` is recognised")
            if "cmp" in spec:
                fail(st, "second np.where")
            cmpn = c.args[0]
            ka, a = tr.expr(rw.visit(cmpn.left), env)
            kb, b = tr.expr(rw.visit(cmpn.comparators[0]), env)
            if ka != "S" or kb != "S":
                fail(st, "comparison operands are not per-row scalars")
            spec.update(cmp=CMP[type(cmpn.ops[0])], dist=a, cutoff=b, where=st.targets[0].id)
            trace.append((st.lineno, src))
        # where += x + k
        elif isinstance(st, ast.AugAssign) and isinstance(st.op, ast.Add) and isinstance(st.target, ast.Name) and st.target.id == spec.get("where"):
            if "whereOff" in spec:
                fail(st, "second index shift")
            spec["whereOff"] = idx_offset(st.value, x)
            trace.append((st.lineno, src))
        # for atom2 in where: con.append((x, atom2))
        elif isinstance(st, ast.For):
            if not (isinstance(st.iter, ast.Name) and st.iter.id == spec.get("where") and isinstance(st.target, ast.Name) and len(st.body) == 1 and not st.orelse):
                fail(st, "only `for a in where: con.append((x, a))` is recognised")
            a2 = st.target.id
            s = ast.unparse(st.body[0])
            if s == f"con.append(({x}, {a2}))":
                spec["pairFirstIsX"] = True
            elif s == f"con.append(({a2}, {x}))":
                spec["pairFirstIsX"] = False
            else:
                fail(st.body[0], "unrecognised append")
            if i != len(body) - 1:
                fail(st, "statements after the append loop")
            trace.append((st.lineno, src.replace("\n", " ")))
        elif isinstance(st, ast.Assign) and len(st.targets) == 1 and isinstance(st.targets[0], ast.Name):
            val = tr.expr(rw.visit(st.value), env)
            env[st.targets[0].id] = val
            trace.append((st.lineno, src))
        else:
            fail(st, "unrecognised statement in the pair loop")
        i += 1
    for k in ("cmp", "dist", "cutoff", "pairFirstIsX"):
        if k not in spec:
            raise Untranslatable(f"guess_connectivity: loop has no {k}")
    spec.setdefault("whereOff", 0)
    if "g" not in rw.off or "r" not in rw.off:
        raise Untranslatable("guess_connectivity: slices geometry[x+k:] / radii[x+k:] not found")
    spec["geomOff"], spec["radOff"] = rw.off["g"], rw.off["r"]
    return loop.lineno, spec, trace


def _c(s: str) -> str:
    return s.replace("/-", "/ -").replace("-/", "- /")


def translate_sources(misc_text: str, conn_text: str) -> str:
    misc = ast.parse(misc_text)
    conn = ast.parse(conn_text)
    out = ["import QcelVerif.Model.MeasureAst",
           "/-! GENERATED by harness/c18_src.py from qcelemental/util/misc.py (compute_distance, compute_angle, compute_dihedral, with the",
           "helper `_norm` inlined from its own source) and qcelemental/molutil/connectivity.py (guess_connectivity's pair loop) — do not edit.",
           "`.pt i` is the i-th point parameter after `np.atleast_2d` (every point parameter is checked to be wrapped that way first);",
           "terms are per row. -/",
           "namespace QcelVerif.Gen.MeasureSrc",
           "open QcelVerif.MeasureAst",
           ""]
    for name, npts in (("compute_distance", 2), ("compute_angle", 3), ("compute_dihedral", 4)):
        ln, term, trace = translate_measure(misc, name, npts)
        doc = "\n".join(f"  misc.py:{l}  `{_c(s)}`" for l, s, _k in trace)
        out.append(f"/-- misc.py:{ln}  `{name}`, one row.  Statements translated (after the np.atleast_2d wrapping of all {npts} point parameters):\n{doc} -/")
        out.append(f"def {name} : SE :=\n  {term}\n")
    ln, spec, trace = translate_conn(conn)
    doc = "\n".join(f"  connectivity.py:{l}  `{_c(s)}`" for l, s in trace)
    out.append(f"/-- connectivity.py:{ln}  the pair loop of `guess_connectivity`:\n{doc} -/")
    out.append("def connSpec : ConnSpec where")
    out.append(f"  geomOff := {spec['geomOff']}\n  radOff := {spec['radOff']}\n  whereOff := {spec['whereOff']}\n  cmp := .{spec['cmp']}")
    out.append(f"  dist := {spec['dist']}\n  cutoff := {spec['cutoff']}\n  pairFirstIsX := {'true' if spec['pairFirstIsX'] else 'false'}")
    out.append("\nend QcelVerif.Gen.MeasureSrc\n")
    return "\n".join(out)


def gen_measure_src(ctx=None) -> None:
    """lean/QcelVerif/Gen/MeasureSrc.lean <- qcelemental/util/misc.py, qcelemental/molutil/connectivity.py"""
    body = translate_sources(common.REPO.joinpath(*MISC).read_text(), common.REPO.joinpath(*CONN).read_text())
    f = common.LEAN.joinpath(*OUT)
    f.parent.mkdir(exist_ok=True)
    if not f.exists() or f.read_text() != body:
        f.write_text(body)


if __name__ == "__main__":
    import sys

    root = Path(sys.argv[1] if len(sys.argv) > 1 else "/repo")
    print(translate_sources(root.joinpath(*MISC).read_text(), root.joinpath(*CONN).read_text()))
