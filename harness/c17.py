"""C17 — radii lookups: translators + exhaustive correspondence (model vs implementation) + independent oracle.

Streams
  A  every element row x alias forms (int Z, str Z, symbol, name, nuclide labels incl. D/T, integer
     spellings int() accepts) x cases x units x missing x return_tuple, both radius sets
  B  special labels (exact, and spellings that are NOT labels)
  C  non-elements (by construction) and random ASCII (expectation unknown: diff + error-class only)
  D  Datum.to_units over unit pairs and float / Decimal / array payloads
  E  Datum validation (must_be_numerical) kinds
  K  key set and order of both tables (translator cross-check)
"""
from __future__ import annotations

import itertools
import math
import sys
from decimal import Decimal
from fractions import Fraction

import numpy as np

import common
from common import Ctx, Finding, Outcome, err_class

sys.path.insert(0, str(common.VERIF / "tools"))
import gen_periodic  # noqa: E402
import gen_radii  # noqa: E402

PROPERTY = "C17"
LEAN_TARGETS = ["QcelVerif.Props.C17", "QcelVerif.Props.C17Units", "QcelVerif.Driver.C17"]
DRIVER = "QcelVerif/Driver/C17.lean"
THEOREMS = [
    ("QcelVerif.Radii.radius_alias_invariant", "ANY periodic table, ANY radius table: if to_E(a) = E and a is not itself a different exact label, get(a, ...) = lookup-by-key(E, ...) for every return_tuple/missing/unit factor"),
    ("QcelVerif.Radii.shipped_alias_invariant", "shipped tables, both sets: to_E(a) = E -> get(a, ...) = lookup-by-key(E, ...) unconditionally (every exact label that is also an identifier resolves to itself) [decide +kernel over the generated tables]"),
    ("QcelVerif.Radii.shipped_case_insensitive", "shipped tables: two ASCII texts equal after lower-casing, one of which resolves to an element, give the same get result (all 2^|s| casings; uses C01 resolve_case_insensitive)"),
    ("QcelVerif.Radii.shipped_aliases_agree", "for all 118 element rows x {int Z, str Z, symbol, name}: get = lookup-by-key(symbol), both sets (uses C01 aliases_agree)"),
    ("QcelVerif.Radii.shipped_nuclides_agree", "for all nuclide labels of the table (H2, D, Kr84, ...) in ANY letter case: get = lookup-by-key(element symbol), both sets (uses C01 nuclides_resolve + case-insensitivity)"),
    ("QcelVerif.Radii.label_own_entry", "ANY tables: an exact label returns its own entry (last assignment under that key), no periodic-table lookup involved"),
    ("QcelVerif.Radii.shipped_rows_own_entry", "every row of both data files is returned under its label as Datum(label, native units, Decimal digits of the file, comment, doi) [decide +kernel]"),
    ("QcelVerif.Radii.generic_is_largest", "covalent set: the elements with E_<variant> rows are exactly C, Mn, Fe, Co and the entry under E carries the maximum of its variants' values, in angstrom [decide +kernel]"),
    ("QcelVerif.Radii.value_is_factor_times_native", "ANY tables: with a tabulated entry d and unit factor f, get(..., return_tuple=False) = fl(f * float(d.data)) — the unit enters only through the factor (linearity), whatever `missing` is"),
    ("QcelVerif.Radii.default_is_bohr", "omitting `units` is asking for 'bohr' (signature default, part of the model and of the correspondence)"),
    ("QcelVerif.Radii.default_value", "ANY tables: the default result is fl(factor(entry unit -> bohr) * float(tabulated decimal))"),
    ("QcelVerif.Radii.native_unit_exact", "shipped tables: with factor 1 every tabulated entry is returned as float(Decimal) itself, and that float is the nearest double (ties-to-even) to the tabulated decimal [decide +kernel over all rows]"),
    ("QcelVerif.Radii.native_unit_exact_any", "ANY table, ANY decimal: with factor 1 the answer is float(Decimal) itself (a double times 1.0 is that double; from rnd64_idem)"),
    ("QcelVerif.Radii.unit_value_accuracy", "for EVERY factor f and decimal v: |fl(f * float(v)) - f*v| <= (2u + u^2) |f*v|, u = 2^-53 — the converted value is the factor times the tabulated decimal up to the code's two roundings"),
    ("QcelVerif.Radii.units_linear_pow2", "fl((2^k f) * x) = 2^k fl(f * x): scaling the unit factor by a power of two scales the result exactly"),
    ("QcelVerif.Radii.rnd64_err", "rounding model: |fl(q) - q| <= 2^-53 |q| for every rational q (ilog2 proved to be floor(log2))"),
    ("QcelVerif.Radii.rnd64_idem", "rounding model: fl(fl(q)) = fl(q) for every rational q"),
    ("QcelVerif.Radii.datum_native", "ANY tables: return_tuple=True returns the stored Datum unchanged (no conversion, units/missing irrelevant)"),
    ("QcelVerif.Radii.shipped_datums_native", "every stored Datum of both shipped sets is a Decimal in the data file's native unit [decide +kernel]"),
    ("QcelVerif.Radii.missing_contract", "ANY tables: identifier resolved but no entry -> DataUnavailableError when missing is None or return_tuple, else exactly the caller's fallback"),
    ("QcelVerif.Radii.not_element", "ANY tables: not an exact label and to_E fails -> NotAnElementError (never another species' radius, never the fallback)"),
    ("QcelVerif.Radii.error_kinds", "ANY tables: get fails only as NotAnElement (nothing identifies the argument), DataUnavailable (identifier without entry) or by a failing unit conversion"),
]
TRANSLATORS = [gen_periodic.main, gen_radii.main]
TRUSTED_BASE = [
    "Lean 4.33 kernel (decide +kernel over the generated radius tables and C01's generated periodic table); axioms audited per theorem",
    "tools/gen_radii.py and tools/gen_periodic.py: re-encode the data files as byte lists / packed naturals without normalisation; cross-checked by the exhaustive correspondence (keys, every Datum field, every value)",
    "hand-written models Model/Radii.lean (covalent_radii.py:42-141, vanderwaals_radii.py:41-125, datum.py:51-105) and C01's Model/PeriodicTable.lean, tied by exhaustive differential correspondence",
    "Model/RadiiF64.lean: doubles as exact rationals, `rnd64` = round-to-nearest-even to 53 bits (exponent range not modelled); checked bit-for-bit against CPython on every value of every run",
    "the unit factor is a PARAMETER of the model: constants.conversion_factor (pint; C03's territory) is called once per unit pair on the implementation and its double is handed to the model; the oracle separately bounds it against exact decimal scales (pm 100, nm 1/10, m 1e-10, bohr 1/bohr2angstroms) to 1e-14 relative",
    "CPython float(Decimal) and int/int true division assumed correctly rounded (the former re-checked against the exact decimal on every value)",
    "the oracle's own re-reading of the two data files and of the periodic table arrays",
]
ASSUMPTIONS = [
    "atom is an int or an ASCII str (documented Union[int, str]); return_tuple is a bool; missing is None or a finite float",
    "units in {bohr, angstrom, pm, nm, m} or omitted; other pint expressions are C03's",
    "results are in the normal binary64 range (no overflow/subnormals), true of all radii in all five units",
    "Datum payloads: finite float, finite Decimal, 1-d float64 array",
]
RULE = (
    "exhaustive: every element row (Z=0..117, tabulated or not) x alias forms {int Z, str Z, symbol, name, nuclide labels of the "
    "element (all in thorough, 8 sampled per element in quick), int()-accepted spellings} x cases {as-is, lower, upper, random mixed} "
    "x units {omitted, bohr, angstrom, pm, nm, m} x missing {None, float} x return_tuple {False, True} x both sets; every special "
    "label exactly and in non-label spellings; non-elements by construction; random ASCII; Datum.to_units over all ordered unit "
    "pairs (and None) x float/Decimal/array payloads; Datum validation kinds. A case is distinct by (set, argument, return_tuple, "
    "units, missing) and non-trivial when the argument is not the canonical table key or the outcome is an error or the fallback."
)
LEVEL_TEXT = (
    "proof about the model for all inputs (alias invariance, missing/not-element contract, unit algebra as exact rounding identities) "
    "plus kernel evaluation of the whole generated tables; the model is tied to the code by exhaustive correspondence over the "
    "periodic table x alias forms x units; the unit factor itself is taken from the implementation (partial: C03 owns it)"
)
TECHNIQUE = "Lean 4 proof (structural + decide +kernel over generated tables) + translator + exhaustive differential correspondence + independent oracle"

UNITS = ["bohr", "angstrom", "pm", "nm", "m"]
EXACT_SCALE = {"angstrom": Fraction(1), "pm": Fraction(100), "nm": Fraction(1, 10), "m": Fraction(1, 10**10)}
SETS = ("c", "v")


# ---------------------------------------------------------------------------------------
# helpers


def hexs(s: str) -> str:
    return s.encode("utf-8").hex()


def xhex(s) -> str:
    return "N" if s is None else "x" + hexs(s)


def frac_s(fr: Fraction) -> str:
    return str(fr.numerator) if fr.denominator == 1 else f"{fr.numerator}/{fr.denominator}"


def fl_s(x) -> str:
    x = float(x)
    if not math.isfinite(x):
        return repr(x)
    return frac_s(Fraction(x))


def fmul_exact(a: float, b: float) -> float:
    """correctly rounded product of two doubles, computed in exact rationals (int/int true division rounds correctly)"""
    p = Fraction(a) * Fraction(b)
    return p.numerator / p.denominator


def nearest_double_ok(x: float, exact: Fraction) -> bool:
    fx = Fraction(x)
    for nb in (math.nextafter(x, math.inf), math.nextafter(x, -math.inf)):
        if abs(Fraction(nb) - exact) < abs(fx - exact):
            return False
    return True


def mixed(rng, s):
    return "".join(c.upper() if rng.random() < 0.5 else c.lower() for c in s)


class Impl:
    """The real objects, plus the factors obtained from the implementation once per unit pair."""

    def __init__(self):
        import qcelemental as qcel
        from qcelemental.physical_constants import constants

        self.qcel = qcel
        self.constants = constants
        self.obj = {"c": qcel.covalentradii, "v": qcel.vdwradii}
        self.tab = {"c": qcel.covalentradii.cr, "v": qcel.vdwradii.vdwr}
        self._f = {}
        self._cf = {}
        self.ref = {}

    def factor(self, src: str, dst: str):
        k = (src, dst)
        if k not in self._f:
            try:
                self._f[k] = float(self.constants.conversion_factor(src, dst))
            except Exception:  # noqa
                self._f[k] = None
        return self._f[k]

    def conv_field(self, setname: str, units) -> str:
        if (setname, units) in self._cf:
            return self._cf[(setname, units)]
        dst = "bohr" if units is None else units
        srcs = sorted({str(d.units) for d in self.tab[setname].values()})
        items = []
        for s in srcs:
            f = self.factor(s, dst)
            if f is not None and math.isfinite(f):
                items.append(f"{hexs(s)}={fl_s(f)}")
        self._cf[(setname, units)] = ";".join(items) if items else "-"
        return self._cf[(setname, units)]

    def get(self, setname, arg, rt, units, missing):
        kw = {"return_tuple": rt, "missing": missing}
        if units is not None:
            kw["units"] = units
        try:
            return ("ok", self.obj[setname].get(arg, **kw))
        except Exception as e:  # noqa
            return ("err", err_class(e))


def canon_payload(v) -> str:
    if isinstance(v, Decimal):
        t = v.as_tuple()
        if not isinstance(t.exponent, int):
            return "d:special"
        return f"d:{t.sign}:{int(''.join(map(str, t.digits)) or '0')}:{t.exponent}"
    if isinstance(v, np.ndarray):
        return "a:" + ",".join(fl_s(x) for x in v.ravel())
    if isinstance(v, (float, np.floating)):
        return "f:" + fl_s(v)
    return "?:" + type(v).__name__


def canon(res) -> str:
    if res[0] == "err":
        return "err " + res[1]
    r = res[1]
    if isinstance(r, np.ndarray):
        return "ok values " + ",".join(fl_s(x) for x in r.ravel())
    if isinstance(r, (float, np.floating, int)) and not isinstance(r, bool):
        return "ok value " + fl_s(r)
    if type(r).__name__ == "Datum":
        comment = r.comment if "comment" in r.__fields_set__ else None
        return f"ok datum {xhex(r.label)} {xhex(r.units)} {canon_payload(r.data)} {xhex(comment)} {xhex(r.doi)}"
    return "ok other:" + type(r).__name__


# ---------------------------------------------------------------------------------------
# the oracle's own reading of the data


class Expect:
    def __init__(self):
        cov, vdw = gen_radii.read_sets(common.REPO)
        self.native = {"c": cov["units"], "v": vdw["units"]}
        self.rows = {"c": {r[0]: r[1] for r in cov["covalent_radii"]}, "v": {r[0]: r[1] for r in vdw["vanderwaals_radii"]}}
        d = gen_periodic.literal_assign(common.REPO / "qcelemental/data/nist_2011_atomic_weights.py", "nist_2011_atomic_weights")
        self.elements = list(zip(d["Z"], d["E"], d["name"]))
        self.symbols = [e for _, e, _ in self.elements]
        self.nuclides = {}  # E -> labels
        for ea, ee in zip(d["EA"], d["_EE"]):
            self.nuclides.setdefault(ee, []).append(ea)
        self.all_labels_lower = {x.lower() for x in d["EA"]} | {n.lower() for n in d["name"]}

    def variants(self, setname, sym):
        return {k: v for k, v in self.rows[setname].items() if k.startswith(sym + "_")}

    def element_text(self, setname, sym):
        """tabulated decimal text for a bare element: its own row, else the largest of its variants, else None"""
        rows = self.rows[setname]
        if sym in rows:
            return rows[sym]
        var = self.variants(setname, sym)
        if var:
            return max(var.values(), key=Decimal)
        return None

    def is_special(self, setname, label):
        return label in self.rows[setname] and label not in self.symbols


# ---------------------------------------------------------------------------------------
# oracle for one `get` call


def oracle_get(impl: Impl, ex: Expect, case, res):
    """case: dict(set, arg, rt, units, missing, expect=[kind, key]); returns list of (kind, message)."""
    setname, rt, units, missing = case["set"], case["rt"], case["units"], case["missing"]
    kind, key = case["expect"]
    bad = []
    if res[0] == "err" and res[1] not in ("NotAnElement", "DataUnavailable"):
        return [("oracle:error_class", f"raised {res[1]}; only NotAnElementError / DataUnavailableError are documented")]
    if kind == "unknown":
        return bad
    if kind == "nonelement":
        if res != ("err", "NotAnElement"):
            bad.append(("oracle:not_element", f"a non-element must raise NotAnElementError, got {canon(res)}"))
        return bad
    text = ex.element_text(setname, key) if kind == "element" else ex.rows[setname].get(key)
    if kind == "label" and text is None:
        raise AssertionError("label expectation without a row")
    if text is None:
        # valid element, nothing tabulated
        if missing is None:
            if res != ("err", "DataUnavailable"):
                bad.append(("oracle:missing_contract", f"no tabulated radius and missing=None must raise DataUnavailableError, got {canon(res)}"))
        elif not rt:
            if not (res[0] == "ok" and res[1] is missing):
                bad.append(("oracle:missing_contract", f"no tabulated radius: the caller's fallback {missing!r} must be returned as is, got {canon(res)}"))
        else:
            if not (res == ("err", "DataUnavailable") or (res[0] == "ok" and res[1] is missing)):
                bad.append(("oracle:missing_contract", f"no tabulated radius: DataUnavailableError or the fallback expected, got {canon(res)}"))
        return bad
    # tabulated
    dec = Decimal(text)
    if res[0] != "ok":
        bad.append(("oracle:tabulated_value", f"{key} has a tabulated radius {text} but the lookup raised {res[1]}"))
        return bad
    r = res[1]
    native = ex.native[setname]
    if rt:
        if type(r).__name__ != "Datum":
            return [("oracle:datum_native", f"return_tuple=True returned {type(r).__name__}")]
        if not isinstance(r.data, Decimal) or r.data.as_tuple() != dec.as_tuple():
            bad.append(("oracle:datum_native", f"Datum.data is {r.data!r}, the tabulated value is {text}"))
        if r.units != native:
            bad.append(("oracle:datum_native", f"Datum.units is {r.units!r}, the native unit is {native!r}"))
        return bad
    if not isinstance(r, float):
        return [("oracle:tabulated_value", f"return_tuple=False returned {type(r).__name__}")]
    x = float(dec)
    if not nearest_double_ok(x, Fraction(dec)):
        bad.append(("oracle:float_of_decimal", f"float(Decimal({text})) is not the nearest double"))
    dst = "bohr" if units is None else units
    if dst == native:
        if Fraction(r) != Fraction(x):
            gross = abs(Fraction(r) - Fraction(x)) > abs(Fraction(x)) * Fraction(1, 10**12)
            bad.append(("oracle:tabulated_value" if gross else "oracle:native_exact", f"native unit must return the tabulated number {x!r} exactly, got {r!r}"))
        return bad
    f = impl.factor(native, dst)
    if f is None:
        bad.append(("oracle:units", f"no conversion factor {native}->{dst}"))
        return bad
    want = fmul_exact(f, x)
    if units is None and Fraction(r) == Fraction(x) and Fraction(want) != Fraction(x):
        bad.append(("oracle:default_is_bohr", f"units omitted: expected the value in bohr {want!r}, got the native number {r!r}"))
    elif Fraction(r) != Fraction(want):
        gross = want == 0 or abs(Fraction(r) - Fraction(want)) > abs(Fraction(want)) * Fraction(1, 10**12)
        bad.append(("oracle:tabulated_value" if gross else "oracle:unit_product",
                    f"expected factor({native}->{dst})={f!r} times the tabulated {x!r} = {want!r}, got {r!r}"))
    # the factor itself against the exact decimal scale (linearity across units)
    if native == "angstrom":
        if dst == "bohr":
            scale = 1 / Fraction(impl.constants.bohr2angstroms)
        else:
            scale = EXACT_SCALE[dst]
        exact = Fraction(dec) * scale
        if abs(Fraction(r) - exact) > abs(exact) * Fraction(1, 10**14):
            bad.append(("oracle:unit_scale", f"{text} angstrom in {dst} should be {float(exact)!r}, got {r!r}"))
    return bad


# ---------------------------------------------------------------------------------------
# generators


def get_line(impl: Impl, case) -> str:
    arg = case["arg"]
    a = f"i {arg}" if isinstance(arg, int) else f"s {hexs(arg)}"
    m = "N" if case["missing"] is None else fl_s(case["missing"])
    return f"get {case['set']} {1 if case['rt'] else 0} {a} {m} {xhex(case['units'])} {impl.conv_field(case['set'], case['units'])}"


def combos(rng, full: bool):
    """(rt, units, missing) combinations; units None = keyword omitted"""
    allc = [(rt, u, ms) for rt in (False, True) for u in [None] + UNITS for ms in (False, True)]
    if full:
        return allc
    return rng.sample(allc, 6)


def gen_get_cases(ctx: Ctx, ex: Expect):
    rng = ctx.rng

    def fallback():
        return rng.choice([4.0, 2.0, 0.0, -1.5, 1e-3, 123.456, rng.uniform(0.1, 10.0), float(rng.randint(1, 9))])

    def emit(tag, arg, expect, full=True):
        for setname in SETS:
            for rt, u, ms in combos(rng, full):
                yield tag, {"set": setname, "arg": arg, "rt": rt, "units": u, "missing": fallback() if ms else None, "expect": list(expect)}

    # --- A: every element row
    for z, sym, name in ex.elements:
        z = int(z)
        yield from emit("A:int Z", z, ("element", sym))
        for form, tag in ((str(z), "A:str Z"), (sym, "A:symbol"), (name, "A:name")):
            for v in sorted({form, form.lower(), form.upper(), mixed(rng, form)}):
                yield from emit(tag, v, ("element", sym))
        labs = [l for l in ex.nuclides.get(sym, []) if l != sym]
        if not ctx.thorough and len(labs) > 8:
            keep = [l for l in labs if l in ("D", "T")]
            labs = keep + rng.sample([l for l in labs if l not in keep], 8 - len(keep))
        for lab in labs:
            for v in sorted({lab, lab.lower(), mixed(rng, lab)} | ({lab.upper()} if ctx.thorough else set())):
                yield from emit("A:nuclide", v, ("element", sym), full=ctx.thorough or lab in ("D", "T"))
        # integer spellings int() accepts
        for v in (f" {z} ", f"+{z}", f"0{z}", f"\t{z}\n", f"0_{z}"):
            yield from emit("A:int spelling", v, ("element", sym), full=False)
    # --- B: special labels
    for setname in SETS:
        for lab in ex.rows[setname]:
            if not ex.is_special(setname, lab):
                continue
            for rt, u, ms in combos(rng, True):
                yield "B:special label", {"set": setname, "arg": lab, "rt": rt, "units": u, "missing": fallback() if ms else None, "expect": ["label", lab]}
            sym = lab.split("_")[0]
            for v in sorted({lab.lower(), lab.upper(), lab.title(), lab + " ", " " + lab, lab[:-1], lab + "x", lab.replace("_", ""), lab.replace("_", "-"), mixed(rng, lab)} - {lab}):
                exp = ["label", v] if v in ex.rows[setname] else ["nonelement", None]
                for rt, u, ms in combos(rng, False):
                    yield "B:not a label", {"set": setname, "arg": v, "rt": rt, "units": u, "missing": fallback() if ms else None, "expect": exp}
            # the other set does not know this label
            other = "v" if setname == "c" else "c"
            if lab not in ex.rows[other]:
                for rt, u, ms in combos(rng, False):
                    yield "B:label of the other set", {"set": other, "arg": lab, "rt": rt, "units": u, "missing": fallback() if ms else None, "expect": ["nonelement", None]}
    # --- C: non-elements by construction
    nz = len(ex.elements)
    non = [-1, -7, nz, nz + 1, 200, 10**6, str(nz), "-1", "1.0", "1e0", "0x1", "", " ", "Xx", "Qq", "Jj", "Hydrogenn", "Hydroge",
           "H8", "He100", "4He", "2H", "C_", "C_sp4", "Mn_", "_sp3", "sp3", "H_", "He_sp3", "Fe_midspin", "Uut", "Og", "Oganesson", "H e", "He 4"]
    letters = "abcdefghijklmnopqrstuvwxyz"
    two = ["".join(t) for t in itertools.product(letters, repeat=2) if "".join(t) not in ex.all_labels_lower]
    non += [mixed(rng, s) for s in rng.sample(two, ctx.scale(60, 400))]
    for a in non:
        yield from emit("C:non-element", a, ("nonelement", None), full=False)
    # --- C': random ASCII, expectation unknown (diff + error class)
    printable = [chr(c) for c in range(32, 127)]
    for _ in range(ctx.scale(600, 6000)):
        n = rng.randint(1, 6)
        pool = rng.choice([printable, list("0123456789_+- "), list("CcMmFfOoNn_sSpP3HhIiGgLlWw")])
        s = "".join(rng.choice(pool) for _ in range(n))
        yield from emit("C:random", s, ("unknown", None), full=False)


def rand_float(rng):
    mant = rng.choice([rng.uniform(0.1, 10.0), rng.uniform(1, 2), float(rng.randint(1, 999)), rng.random()])
    return rng.choice([1, 1, 1, -1]) * mant * 10.0 ** rng.randint(-9, 9)


def rand_decimal(rng):
    nd = rng.randint(1, 18)
    digits = "".join(rng.choice("0123456789") for _ in range(nd)).lstrip("0") or "0"
    return Decimal(f"{rng.choice(['', '', '-'])}{digits}E{rng.randint(-14, 6)}")


def gen_tou_cases(ctx: Ctx):
    rng = ctx.rng
    pairs = [(a, b) for a in UNITS for b in UNITS + [None]]
    reps = ctx.scale(12, 80)
    for (u1, u2), _ in itertools.product(pairs, range(reps)):
        k = rng.choice(["float", "decimal", "array", "decimal"])
        if k == "float":
            data = rng.choice([rand_float(rng), 0.0, 1.0, 0.76, 0.1])
        elif k == "decimal":
            data = rng.choice([rand_decimal(rng), rand_decimal(rng), Decimal("0.76"), Decimal("1.10"), Decimal("0")])
        else:
            data = np.array([rand_float(rng) for _ in range(rng.randint(1, 4))])
        yield {"u1": u1, "u2": u2, "kind": k, "data": data}


def tou_payload_line(data) -> str:
    return canon_payload(data)


def check_tou(impl: Impl, out: Outcome, case, model_line):
    u1, u2, data = case["u1"], case["u2"], case["data"]
    out.evaluations += 1
    out.count("D:to_units:" + case["kind"])
    rep = {"op": "tou", "u1": u1, "u2": u2, "kind": case["kind"],
           "data": str(data) if isinstance(data, Decimal) else (data.tolist() if isinstance(data, np.ndarray) else float(data).hex())}
    f = impl.factor(u1, u2 if u2 is not None else u1)
    try:
        d = impl.qcel.Datum("probe", u1, data)
        res = ("ok", d.to_units(u2))
    except Exception as e:  # noqa
        res = ("err", err_class(e))
    ci = canon(res)
    out.nontrivial(("tou", u1, u2, canon_payload(data)))
    out.sample({"op": "to_units", "from": u1, "to": u2, "data": rep["data"], "impl": ci, "model": model_line}, limit=8)
    # oracle
    if res[0] != "ok" or f is None:
        out.violations.append(Finding("oracle:to_units", rep, observed=ci, detail="to_units raised on a length-unit pair"))
    else:
        if u2 is None and Fraction(f) != 1:
            out.violations.append(Finding("oracle:to_units", rep, observed=repr(f), detail="factor of a unit to itself is not 1"))
        if isinstance(data, Decimal):
            x = float(data)
            if not nearest_double_ok(x, Fraction(data)):
                out.violations.append(Finding("oracle:float_of_decimal", rep, observed=repr(x), detail="float(Decimal) is not the nearest double"))
            want = "ok value " + fl_s(fmul_exact(f, x))
        elif isinstance(data, np.ndarray):
            want = "ok values " + ",".join(fl_s(fmul_exact(f, float(v))) for v in data)
        else:
            want = "ok value " + fl_s(fmul_exact(f, float(data)))
        if ci != want:
            out.violations.append(Finding("oracle:to_units", rep, observed=ci, expected=want, detail=f"to_units is not factor({u1}->{u2})={f!r} times the data, correctly rounded"))
        if isinstance(res[1], np.ndarray) != isinstance(data, np.ndarray):
            out.violations.append(Finding("oracle:to_units", rep, observed=ci, detail="payload shape changed"))
    if model_line is not None and model_line != ci:
        out.mismatches.append(Finding("mismatch", rep, observed=ci, expected=model_line, detail="Datum.to_units: implementation vs Lean model"))


def tou_line(impl: Impl, case) -> str:
    f = impl.factor(case["u1"], case["u2"] if case["u2"] is not None else case["u1"])
    return f"tou {canon_payload(case['data'])} {fl_s(f) if f is not None else 'none'}"


MK = [("float", 2.5), ("int", 3), ("bool", True), ("complex", 1 + 2j), ("ndarray", "np"), ("decimal", Decimal("1.5")),
      ("str", "a"), ("list", [1, 2]), ("none", None)]


def check_mk(impl: Impl, out: Outcome, kind, value, numeric, model_line):
    v = np.array([1.0, 2.0]) if isinstance(value, str) and value == "np" else value
    out.evaluations += 1
    out.count("E:datum validation")
    try:
        d = impl.qcel.Datum("probe", "angstrom", v, numeric=numeric)
        ci = "ok " + ("1" if d.numeric else "0")
    except Exception as e:  # noqa
        ci = "err " + err_class(e)
    numerical = kind in ("float", "int", "bool", "complex", "ndarray", "decimal")
    want = "ok 1" if numerical else ("err Validation" if numeric else "ok 0")
    rep = {"op": "mk", "kind": kind, "numeric": numeric}
    if ci != want:
        out.violations.append(Finding("oracle:datum_validation", rep, observed=ci, expected=want, detail="Datum accepts exactly float/Decimal/array-like data when numeric"))
    if model_line is not None and model_line != ci:
        out.mismatches.append(Finding("mismatch", rep, observed=ci, expected=model_line, detail="Datum validation: implementation vs Lean model"))


# ---------------------------------------------------------------------------------------


def check_get(impl: Impl, ex: Expect, out: Outcome, tag, case, model_line):
    res = impl.get(case["set"], case["arg"], case["rt"], case["units"], case["missing"])
    ci = canon(res)
    out.evaluations += 1
    out.count("stream:" + tag)
    out.count("set:" + case["set"])
    kind, key = case["expect"]
    if res[0] == "err":
        oc = "err:" + res[1]
    elif case["missing"] is not None and res[1] is case["missing"]:
        oc = "fallback"
    else:
        oc = "datum" if case["rt"] else "value:" + str(case["units"] or "default")
    out.count("outcome:" + oc)
    canonical = isinstance(case["arg"], str) and case["arg"] == key
    if not canonical or res[0] == "err" or oc == "fallback":
        out.nontrivial((case["set"], repr(case["arg"]), case["rt"], case["units"], case["missing"] is None))
    skey = "sampled:" + oc.split(":")[0] + ":" + tag.split(":")[0] + (":noncanonical" if not canonical else "")
    seen = out.__dict__.setdefault("_sampled", set())
    if skey not in seen and len(out.samples) < 12:
        seen.add(skey)
        out.sample({"stream": tag, "case": {k: v for k, v in case.items()}, "impl": ci, "model": model_line}, limit=12)
    rep = {"op": "get", **case}
    for k, msg in oracle_get(impl, ex, case, res):
        out.violations.append(Finding(k, rep, observed=ci, detail=msg))
    # alias invariance stated directly: same answer as the canonical symbol
    if kind == "element" and not canonical:
        rk = (case["set"], key, case["rt"], case["units"], case["missing"])
        if rk not in impl.ref:
            impl.ref[rk] = canon(impl.get(*rk))
        ref = impl.ref[rk]
        if ref != ci:
            out.violations.append(Finding("oracle:alias_invariance", rep, observed=ci, expected=ref, detail=f"{case['arg']!r} names {key} but the lookup differs from get({key!r})"))
    if model_line is not None and model_line != ci:
        out.mismatches.append(Finding("mismatch", rep, observed=ci, expected=model_line, detail="get: implementation vs Lean model"))


def check_keys(impl: Impl, ex: Expect, out: Outcome, setname, model_line):
    keys = list(impl.tab[setname].keys())
    ci = "ok " + ",".join(xhex(k) for k in keys)
    out.evaluations += 1
    out.count("K:keys")
    rep = {"op": "keys", "set": setname}
    # oracle: keys = file labels, plus (covalent) the bare elements that have variants
    want = set(ex.rows[setname])
    if setname == "c":
        want |= {k.split("_")[0] for k in ex.rows["c"] if "_" in k}
    if set(keys) != want:
        out.violations.append(Finding("oracle:table_keys", rep, observed=sorted(set(keys) ^ want), detail="table keys differ from the data file labels (+ generic elements of the variants)"))
    if model_line is not None and model_line != ci:
        out.mismatches.append(Finding("mismatch", rep, observed=ci, expected=model_line, detail="table keys/order: implementation vs Lean model"))


def run(ctx: Ctx) -> Outcome:
    out = Outcome()
    impl, ex = Impl(), Expect()
    gets = list(gen_get_cases(ctx, ex))
    tous = list(gen_tou_cases(ctx))
    mks = [(k, v, n) for k, v in MK for n in (True, False)]
    lines = [get_line(impl, c) for _, c in gets] + [tou_line(impl, c) for c in tous] + [f"mk {k} {1 if n else 0}" for k, _, n in mks] + [f"keys {s}" for s in SETS]
    model = ctx.run_model(DRIVER, lines) if ctx.model_available else [None] * len(lines)
    it = iter(model)
    for tag, case in gets:
        check_get(impl, ex, out, tag, case, next(it))
    for case in tous:
        check_tou(impl, out, case, next(it))
    for k, v, n in mks:
        check_mk(impl, out, k, v, n, next(it))
    for s in SETS:
        check_keys(impl, ex, out, s, next(it))
    # default unit is bohr: the context's factor agrees with its own bohr2angstroms
    f = impl.factor("angstrom", "bohr")
    out.evaluations += 1
    if f is None or abs(Fraction(f) * Fraction(impl.constants.bohr2angstroms) - 1) > Fraction(1, 10**14):
        out.violations.append(Finding("oracle:bohr_factor", {"op": "factor"}, observed=repr(f), detail="angstrom->bohr factor is not 1/bohr2angstroms of the context"))
    for u in UNITS:
        out.notes.append(f"factor angstrom->{u} from the implementation: {impl.factor('angstrom', u)!r}")
    out.exhaustive = True
    out.notes.append(
        f"exhaustive over {len(ex.elements)} element rows x alias forms x cases x 6 unit choices x missing x return_tuple x 2 sets"
        + ("" if ctx.thorough else "; nuclide labels sampled (8 per element, 6 of 24 combinations each) in the quick tier")
        + "; non-label spellings, non-elements, random ASCII and Datum payloads sampled from VERIF_SEED")
    return out


def _decode_data(case):
    k, d = case["kind"], case["data"]
    if k == "decimal":
        return Decimal(d)
    if k == "array":
        return np.array(d, dtype=float)
    return float.fromhex(d)


def replay(ctx: Ctx, case) -> Outcome:
    out = Outcome()
    impl, ex = Impl(), Expect()
    op = case.get("op") if isinstance(case, dict) else None
    if op == "get":
        c = {k: case[k] for k in ("set", "arg", "rt", "units", "missing", "expect")}
        ml = ctx.run_model(DRIVER, [get_line(impl, c)])[0] if ctx.model_available else None
        check_get(impl, ex, out, "replay", c, ml)
        # the same argument against the other radius set (a second, genuine evaluation)
        c2 = dict(c, set="v" if c["set"] == "c" else "c")
        if c2["expect"][0] != "element":  # labels / non-elements are per set
            c2["expect"] = ["unknown", None]
        ml2 = ctx.run_model(DRIVER, [get_line(impl, c2)])[0] if ctx.model_available else None
        check_get(impl, ex, out, "replay:other set", c2, ml2)
        out.sample({"case": c, "impl": canon(impl.get(c["set"], c["arg"], c["rt"], c["units"], c["missing"])), "model": ml})
    elif op == "tou":
        c = {"u1": case["u1"], "u2": case["u2"], "kind": case["kind"], "data": _decode_data(case)}
        ml = ctx.run_model(DRIVER, [tou_line(impl, c)])[0] if ctx.model_available else None
        check_tou(impl, out, c, ml)
    elif op == "mk":
        val = dict(MK)[case["kind"]]
        ml = ctx.run_model(DRIVER, [f"mk {case['kind']} {1 if case['numeric'] else 0}"])[0] if ctx.model_available else None
        check_mk(impl, out, case["kind"], val, case["numeric"], ml)
    elif op == "keys":
        ml = ctx.run_model(DRIVER, [f"keys {case['set']}"])[0] if ctx.model_available else None
        check_keys(impl, ex, out, case["set"], ml)
    else:
        return run(ctx)
    return out
