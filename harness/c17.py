"""C17 — radii lookups: translators + exhaustive correspondence (model vs implementation) + independent oracle.

Streams
  A  every element row x alias forms (int Z, str Z, symbol, name, nuclide labels incl. D/T, integer
     spellings int() accepts) x cases x units x missing x return_tuple, both radius sets
  B  special labels (exact, and spellings that are NOT labels)
  C  non-elements (by construction) and random ASCII (expectation unknown: diff + error-class only)
  D  Datum.to_units over unit pairs and float / Decimal / array payloads
  E  Datum validation (must_be_numerical) kinds
  K  key set and order of both tables (translator cross-check)
  F  the unit factor itself: constants.conversion_factor for all 25 ordered pairs of {bohr, angstrom, pm, nm, m}
     against (i) the oracle's own exact rational (bohr radius re-read from the context's CODATA data file,
     exact decimal scales) and (ii) the Lean model's exact rational (C03's SI model over the regenerated CODATA
     table) — equal rationals demanded, the implementation's double within 2^-50 relative of them
  G  `get` against the Lean model with the DERIVED factor (driver op getfull: nothing numeric handed over):
     exact equality wherever the implementation's double is the correctly rounded factor, else the proved bound
  T  Datum.to_units against the derived-factor model (driver op toufull), same rule; plus, on every D case,
     repeated to_units calls on the same Datum with the payload compared before / after each call (arrays:
     also after modifying a returned array in place)
  S  call sequences: each sequence runs in its own pristine fork of this process (taken before the
     first lookup).  Non-lookup calls — write_c_header (both sets, live singleton / newly constructed /
     deepcopy / shallow copy, default and explicit filler), string_representation, str/repr,
     construction of further instances, reading calls on a returned Datum (to_units, dict, str, copy),
     guess_connectivity (the in-library client of covalentradii.get(missing=...)), the periodic-table and
     constants header/listing writers — are followed by (and interleaved with) lookups of EVERY element
     row under a random alias form, every special label and non-elements, on both sets, on the live
     singletons and on a secondary instance; plus sequences of repeated lookups of the same few arguments
     with all option combinations in random order.  Every lookup is judged by the same oracle clauses as
     in stream A (the oracle reads the data files, never the live table) and compared with the stateless
     Lean model (licensed by Radii.get_after_calls); failing sequences are shrunk (ddmin, re-executed in
     fresh forks) to a minimal list of calls that replays in a fresh process.
"""
from __future__ import annotations

import itertools
import math
import sys
from decimal import Decimal
from fractions import Fraction

import numpy as np

import common
from common import Ctx, Finding, Outcome, err_class

sys.path.insert(0, str(common.VERIF / "tools"))
import gen_periodic  # noqa: E402
import gen_radii  # noqa: E402

PROPERTY = "C17"
LEAN_TARGETS = ["QcelVerif.Props.C17", "QcelVerif.Props.C17Units", "QcelVerif.Props.C17Session",
                "QcelVerif.Model.RadiiFactor", "QcelVerif.Props.C17Factor", "QcelVerif.Props.C17FactorC02",
                "QcelVerif.Props.C17FactorText", "QcelVerif.Props.C17ToUnits", "QcelVerif.Driver.C17",
                "QcelVerif.Model.RadiiAst", "QcelVerif.Gen.RadiiSrc", "QcelVerif.Model.RadiiSrc", "QcelVerif.Props.C17Src"]
DRIVER = "QcelVerif/Driver/C17.lean"
THEOREMS = [
    ("QcelVerif.Radii.radius_alias_invariant", "ANY periodic table, ANY radius table: if to_E(a) = E and a is not itself a different exact label, get(a, ...) = lookup-by-key(E, ...) for every return_tuple/missing/unit factor"),
    ("QcelVerif.Radii.shipped_alias_invariant", "shipped tables, both sets: to_E(a) = E -> get(a, ...) = lookup-by-key(E, ...) unconditionally (every exact label that is also an identifier resolves to itself) [decide +kernel over the generated tables]"),
    ("QcelVerif.Radii.shipped_case_insensitive", "shipped tables: two ASCII texts equal after lower-casing, one of which resolves to an element, give the same get result (all 2^|s| casings; uses C01 resolve_case_insensitive)"),
    ("QcelVerif.Radii.shipped_aliases_agree", "for all 118 element rows x {int Z, str Z, symbol, name}: get = lookup-by-key(symbol), both sets (uses C01 aliases_agree)"),
    ("QcelVerif.Radii.shipped_nuclides_agree", "for all nuclide labels of the table (H2, D, Kr84, ...) in ANY letter case: get = lookup-by-key(element symbol), both sets (uses C01 nuclides_resolve + case-insensitivity)"),
    ("QcelVerif.Radii.label_own_entry", "ANY tables: an exact label returns its own entry (last assignment under that key), no periodic-table lookup involved"),
    ("QcelVerif.Radii.shipped_rows_own_entry", "every row of both data files is returned under its label as Datum(label, native units, Decimal digits of the file, comment, doi) [decide +kernel]"),
    ("QcelVerif.Radii.generic_is_largest", "covalent set: the elements with E_<variant> rows are exactly C, Mn, Fe, Co and the entry under E carries the maximum of its variants' values, in angstrom [decide +kernel]"),
    ("QcelVerif.Radii.value_is_factor_times_native", "ANY tables: with a tabulated entry d and unit factor f, get(..., return_tuple=False) = fl(f * float(d.data)) — the unit enters only through the factor (linearity), whatever `missing` is"),
    ("QcelVerif.Radii.default_is_bohr", "omitting `units` is asking for 'bohr' (signature default, part of the model and of the correspondence)"),
    ("QcelVerif.Radii.default_value", "ANY tables: the default result is fl(factor(entry unit -> bohr) * float(tabulated decimal))"),
    ("QcelVerif.Radii.native_unit_exact", "shipped tables: with factor 1 every tabulated entry is returned as float(Decimal) itself, and that float is the nearest double (ties-to-even) to the tabulated decimal [decide +kernel over all rows]"),
    ("QcelVerif.Radii.native_unit_exact_any", "ANY table, ANY decimal: with factor 1 the answer is float(Decimal) itself (a double times 1.0 is that double; from rnd64_idem)"),
    ("QcelVerif.Radii.unit_value_accuracy", "for EVERY factor f and decimal v: |fl(f * float(v)) - f*v| <= (2u + u^2) |f*v|, u = 2^-53 — the converted value is the factor times the tabulated decimal up to the code's two roundings"),
    ("QcelVerif.Radii.units_linear_pow2", "fl((2^k f) * x) = 2^k fl(f * x): scaling the unit factor by a power of two scales the result exactly"),
    ("QcelVerif.Radii.rnd64_err", "rounding model: |fl(q) - q| <= 2^-53 |q| for every rational q (ilog2 proved to be floor(log2))"),
    ("QcelVerif.Radii.rnd64_idem", "rounding model: fl(fl(q)) = fl(q) for every rational q"),
    ("QcelVerif.Radii.datum_native", "ANY tables: return_tuple=True returns the stored Datum unchanged (no conversion, units/missing irrelevant)"),
    ("QcelVerif.Radii.shipped_datums_native", "every stored Datum of both shipped sets is a Decimal in the data file's native unit [decide +kernel]"),
    ("QcelVerif.Radii.missing_contract", "ANY tables: identifier resolved but no entry -> DataUnavailableError when missing is None or return_tuple, else exactly the caller's fallback"),
    ("QcelVerif.Radii.not_element", "ANY tables: not an exact label and to_E fails -> NotAnElementError (never another species' radius, never the fallback)"),
    ("QcelVerif.Radii.error_kinds", "ANY tables: get fails only as NotAnElement (nothing identifies the argument), DataUnavailable (identifier without entry) or by a failing unit conversion"),
    ("QcelVerif.Radii.calls_preserve_table", "session model (table threaded as state through get / write_c_header / string_representation / str): after ANY sequence of calls with ANY options the table is the loaded one"),
    ("QcelVerif.Radii.get_after_calls", "ANY tables, ANY history of calls: a lookup answers exactly what the stateless get answers on the loaded table (this licenses comparing lookups made after call sequences with the stateless driver)"),
    ("QcelVerif.Radii.replies_history_free", "every reply of a session equals the reply of that call alone on the loaded table: order, repetition and earlier options cannot matter"),
    ("QcelVerif.Radii.header_filler_iff_untabulated", "write_c_header prints the caller's filler for an element exactly when it has no entry (and prints the stored Datum otherwise)"),
    ("QcelVerif.Radii.missing_contract_after_header", "ANY tables: after a header write with ANY filler an untabulated identifier still raises DataUnavailable / returns the caller's own fallback, never the filler"),
    # ---- the unit factor derived from the CODATA set (Props/C17Factor.lean, C17FactorC02.lean, C17FactorText.lean)
    ("QcelVerif.Radii.factor_is_si_ratio", "ANY CODATA set: conversion_factor(s, d) of C03's SI model (Units.conv on the unit expressions) is the exact rational mag(s)/mag(d) for all 25 ordered pairs of {bohr, angstrom, pm, nm, m}, never an error"),
    ("QcelVerif.Radii.default_is_bohr_full", "ANY tables, ANY CODATA set: for an entry stored in angstrom the default result is fl(rnd(1/(a0*10^10)) * float(tabulated decimal)), and conv(angstrom, bohr) = 1/(a0*10^10) exactly, a0 = the set's 'bohr radius'"),
    ("QcelVerif.Radii.shipped_entries_angstrom_decimal", "every stored Datum of both shipped sets is a Decimal in angstrom [decide +kernel]"),
    ("QcelVerif.Radii.shipped_default_is_bohr_full", "shipped tables, both sets, every argument identifying a tabulated entry: the default result is fl(rnd(1/(a0*10^10)) * float(tabulated decimal)) with nothing taken from the implementation"),
    ("QcelVerif.Radii.native_unit_exact_full", "a0 != 0: the derived factor of a unit to itself is exactly 1, as a rational and as the model's double, for all five units"),
    ("QcelVerif.Radii.native_get_full", "ANY tables: asking for the unit the entry is stored in returns float(tabulated Decimal) itself (derived factor)"),
    ("QcelVerif.Radii.units_linear_full", "before rounding the factors from angstrom are the exact rationals 1 (angstrom), 100 (pm), 1/10 (nm), 10^-10 (m), 1/(a0*10^10) (bohr), and bohr->angstrom is a0*10^10"),
    ("QcelVerif.Radii.factor_chain", "a0 != 0: factor(s,d) * factor(d,e) = factor(s,e) exactly for all 125 triples of the five units"),
    ("QcelVerif.Radii.factor_swap", "a0 != 0: factor(s,d) * factor(d,s) = 1 exactly for all 25 pairs"),
    ("QcelVerif.Radii.convModel_is_convImpl", "positive CODATA set: C03's model of the CODE path (convImpl: pint container arithmetic + context graph) returns the same exact rational as the SI model on the five units"),
    ("QcelVerif.Radii.factor_tolerance_accuracy", "for EVERY exact factor q, double f with |f-q| <= eps|q| and decimal v: |fl(f * float(v)) - q*v| <= ((1+eps)(1+u)^2 - 1)|q*v|, u = 2^-53"),
    ("QcelVerif.Radii.full_value_accuracy", "the derived-factor result fl(rnd(q) * float(v)) is within (1+u)^3 - 1 (three roundings) of the exact rational q*v"),
    ("QcelVerif.Radii.withinTol_iff", "the driver's tolerance test withinTol f q is exactly |f - q| <= 2^-50 |q|"),
    ("QcelVerif.Radii.impl_factor_value_accuracy", "if the implementation's double passes withinTol against the exact factor q, the radius fl(f * float(v)) is within (1+2^-50)(1+u)^2 - 1 < 11u of q*v (what the per-run factor check buys)"),
    ("QcelVerif.Radii.rnd64_within_tol", "the correctly rounded factor always passes the tolerance test"),
    ("QcelVerif.Radii.getFull_eq_of_factor_eq", "ANY tables: get with ANY factor map that agrees with the derived double on (entry unit, requested unit) equals the derived-factor get (licenses demanding exact equality where the implementation's double is the correctly rounded factor)"),
    ("QcelVerif.Radii.bohr2angstroms_is_a0_2014", "regenerated 2014 tables of BOTH translators: the Decimal C02's context model stores under the alias 'bohr2angstroms' is exactly a0*10^10 of C03's unit table, its 'bohr radius' is a0, both positive [decide +kernel]"),
    ("QcelVerif.Radii.bohr2angstroms_is_a0_2018", "same for the 2018 tables [decide +kernel]"),
    ("QcelVerif.Radii.default_factor_is_inverse_bohr2angstroms_2014", "CODATA2014 (the context the radii use): conv(angstrom, bohr) = 1/bohr2angstroms exactly, bohr->angstrom = bohr2angstroms, the model's double is rnd(1/bohr2angstroms); bohr2angstroms = the context's alias of that name (bohr radius * 1.E10)"),
    ("QcelVerif.Radii.default_factor_is_inverse_bohr2angstroms_2018", "same for CODATA2018"),
    ("QcelVerif.Radii.shipped_default_over_bohr2angstroms_2014", "END TO END, shipped tables + CODATA2014: there is b > 0, the Decimal under the context's alias bohr2angstroms, such that for both sets and every argument identifying a tabulated entry the default result is fl(rnd(1/b) * float(tabulated angstrom decimal))"),
    ("QcelVerif.Radii.shipped_default_over_bohr2angstroms_2018", "same over the 2018 tables"),
    ("QcelVerif.Radii.unit_texts_parse", "C03's model of pint's string front end over the regenerated registry name set reads each of the texts 'bohr', 'angstrom', 'pm', 'nm', 'm' (as pint evaluates it and as it is meant) as exactly the unit expression the factor model uses [decide +kernel]"),
    ("QcelVerif.Radii.factor_of_texts", "positive CODATA set: conversion_factor(src_text, dst_text) of C03's code model on STRINGS equals the exact SI ratio for all 25 pairs of the five texts"),
    # ---- Datum.to_units (Props/C17ToUnits.lean)
    ("QcelVerif.Radii.to_units_value", "ANY factor map: to_units is fl(f * float(Decimal)) for a Decimal payload, fl(f * x) for a float, elementwise fl(f * x_i) for an array"),
    ("QcelVerif.Radii.to_units_array_elementwise", "an array payload converts element by element: element i is what the same Datum with the float payload x_i converts to; the length is kept"),
    ("QcelVerif.Radii.to_units_default_is_own_unit", "to_units() without argument is to_units(self.units)"),
    ("QcelVerif.Radii.to_units_same_unit", "derived factor, a0 != 0: converting to the Datum's own unit (explicitly or by default) returns float(Decimal) / the float / the array of doubles itself"),
    ("QcelVerif.Radii.to_units_accuracy", "every converted float / array element is within u of f*x, and within (1+eps)(1+u) - 1 of the exact linear map q*x when |f-q| <= eps|q|"),
    ("QcelVerif.Radii.to_units_decimal_accuracy", "same for a Decimal payload with the additional float(Decimal) rounding: (1+eps)(1+u)^2 - 1"),
    ("QcelVerif.Radii.to_units_homogeneous_pow2", "scaling the payload (float, or every array element) by 2^k scales the converted result by exactly 2^k"),
    ("QcelVerif.Radii.to_units_preserves_datum", "value semantics of the model: after ANY sequence of to_units calls the Datum (label, units, payload, comment, doi) is unchanged"),
    ("QcelVerif.Radii.to_units_replies_history_free", "every reply of a sequence of to_units calls equals that call alone on the original Datum"),
    ("QcelVerif.Radii.to_units_repeatable", "the same to_units call repeated n times gives the same answer n times"),
    # ---- the lookup logic regenerated from the source (harness/c17_src.py -> Gen/RadiiSrc.lean; Props/C17Src.lean)
    ("QcelVerif.Radii.Src.src_to_units_eq", "[regenerated from datum.py] Datum.to_units as the source has it (choice of the target unit when units is None, conversion_factor(self.units, to_unit), Decimal / non-Decimal dispatch) equals the hand model Datum.toUnitsU for ALL Datums, payload kinds, targets and factor maps"),
    ("QcelVerif.Radii.Src.src_cov_get_eq", "[regenerated from covalent_radii.py] CovalentRadii.get as the source has it (label shortcut before to_E, KeyError handler with `missing is not None and return_tuple is False`, DataUnavailableError, return_tuple branch, call of the regenerated to_units, default of units) equals the hand model getU for ANY periodic table, ANY radius table, ANY factor map and every argument"),
    ("QcelVerif.Radii.Src.src_vdw_get_eq", "[regenerated from vanderwaals_radii.py] the same for VanderWaalsRadii.get"),
    ("QcelVerif.Radii.Src.vdw_get_body_eq_cov", "the two regenerated get bodies are the same statement list"),
    ("QcelVerif.Radii.Src.src_get_defaults", "the keyword defaults printed from both signatures are units='bohr', return_tuple=False, missing=None"),
    ("QcelVerif.Radii.Src.src_aliases_eq_spec", "[regenerated from the two __init__] the source's `aliases` list is the hand model's covAliasSpec (C<-C_sp3, Mn/Fe/Co<-*_highspin, unit literal angstrom, the comments), the row loops and the alias loop have the modelled key / Datum argument shapes, the van der Waals __init__ has no aliases"),
    ("QcelVerif.Radii.Src.src_init_shipped_eq", "shipped data files: the dictionaries the regenerated __init__ of both classes builds (row loop, aliases evaluated on the rows, alias loop under the capitalised symbol) equal the hand model's loadCov / loadVdw tables, and both loads succeed [decide +kernel]"),
    ("QcelVerif.Radii.Src.src_cov_init_eq", "[regenerated from covalent_radii.py] CovalentRadii.__init__ (row loop, `aliases` evaluated on the rows, alias loop) equals the hand model loadCov for ALL data rows that carry a comment column (the source indexes cr[2]), any units / doi"),
    ("QcelVerif.Radii.Src.src_vdw_init_eq", "[regenerated from vanderwaals_radii.py] VanderWaalsRadii.__init__ equals the hand model loadVdw for ALL two-column data rows"),
    ("QcelVerif.Radii.Src.src_rowloop_eq", "the regenerated row-loop body on ONE row equals the hand model's row for EVERY label / decimal text / comment (covalent shape with comment, van der Waals shape without)"),
    ("QcelVerif.Radii.Src.src_tabulated_value", "source-derived get, ANY tables, both classes: an argument identifying key k whose entry holds a Decimal gives fl(f * float(Decimal)) with f the factor towards the requested (or default) unit whatever missing is, and the stored Datum itself with return_tuple"),
    ("QcelVerif.Radii.Src.src_generic_is_largest", "over the dictionary the SOURCE's __init__ builds: the elements with variant rows are exactly C, Mn, Fe, Co and the entry under the bare symbol carries the maximum of its variants, in angstrom; none in the van der Waals set"),
    ("QcelVerif.Radii.Src.src_native_unit_exact", "source-derived get on the source-built dictionaries: factor 1 towards the requested unit returns float(Decimal) itself, the nearest double (ties-to-even) of the tabulated decimal"),
    ("QcelVerif.Radii.Src.src_missing_contract", "source-derived get, ANY tables, both classes: a valid element without entry raises DataUnavailable when missing is None or return_tuple is on, and returns exactly the caller's fallback otherwise (0.0 included)"),
    ("QcelVerif.Radii.Src.src_not_element", "source-derived get, ANY tables, both classes: neither an exact label nor resolvable by to_E -> NotAnElement, never the fallback"),
    ("QcelVerif.Radii.Src.src_label_first", "source-derived get: for an exact label the answer does not depend on the periodic table at all (the shortcut comes first)"),
    ("QcelVerif.Radii.Src.src_to_units_default", "source-derived to_units: no target means the Datum's own unit"),
]


def gen_units_codata_c03(ctx):
    """C03's translator (harness/c03.py, imported read-only): qcelemental/data/nist_201{4,8}_codata.py ->
    lean/QcelVerif/Gen/UnitsCodata.lean (exact rationals of the constants the unit model needs; `a0` = 'bohr radius')."""
    import c03

    c03.gen_units_codata(ctx)


def gen_unit_names_c03(ctx):
    """C03's translator of the live registry's name set -> lean/QcelVerif/Gen/UnitNames.lean (builds two fresh
    PhysicalConstantsContext objects and their pint registries; makes no radius lookup)."""
    import c03

    c03.gen_unit_names(ctx)


def gen_codata_c02(ctx):
    """C02's translator (tools/gen_codata.py): the shipped CODATA tables -> lean/QcelVerif/Gen/Codata201{4,8}.lean."""
    import gen_codata

    gen_codata.main(ctx)


def gen_radii_src(ctx):
    """C17's translator of the lookup LOGIC (harness/c17_src.py): get / __init__ of both classes and Datum.to_units ->
    lean/QcelVerif/Gen/RadiiSrc.lean, statement by statement."""
    import c17_src

    c17_src.main(ctx)


TRANSLATORS = [gen_periodic.main, gen_radii.main, gen_units_codata_c03, gen_codata_c02, gen_unit_names_c03, gen_radii_src]
TRUSTED_BASE = [
    "Lean 4.33 kernel (decide +kernel over the generated radius tables and C01's generated periodic table); axioms audited per theorem",
    "tools/gen_radii.py and tools/gen_periodic.py: re-encode the data files as byte lists / packed naturals without normalisation; cross-checked by the exhaustive correspondence (keys, every Datum field, every value)",
    "hand-written models Model/Radii.lean (covalent_radii.py:42-141, vanderwaals_radii.py:41-125, datum.py:51-105) and C01's Model/PeriodicTable.lean, tied by exhaustive differential correspondence; the LOOKUP LOGIC of Model/Radii.lean / RadiiFactor.lean is no longer a hand transcription only: get and __init__ of both classes and Datum.to_units are REGENERATED FROM THE SOURCE on every run (harness/c17_src.py -> Gen/RadiiSrc.lean, statement by statement) and proved equal to the hand model for all inputs (Props/C17Src.lean: src_cov_get_eq, src_vdw_get_eq, src_to_units_eq, src_cov_init_eq, src_vdw_init_eq), with periodictable.to_E, the dictionary operations (`in keys()`, `[key]`) and constants.conversion_factor as named primitives exactly as the hand model parameterises them",
    "harness/c17_src.py (translator, trusted): reads the three files by `ast`; purely syntactic (names -> variable numbers, `elif` -> nested if, statement list -> seq, messages of raised exceptions / docstrings / imports dropped, `self.name` / `self.year` assignments of __init__ skipped as not part of the lookup, __init__ recognised by shape); any other construct raises and the run reports a broken obligation. Model/RadiiAst.lean (interpreter, trusted reading of the Python constructs used: truthiness, `is None` / `is not None` / `is False`, `and`/`or` short-circuit values, conditional expression, try/except KeyError, assert, return, float(Decimal), float * float / float * ndarray elementwise, float * Decimal a TypeError, dictionary keys compared through the injective packing of C01's model; a KeyError handler sees the environment from before the try body). Sampled three-way on every run: every lookup case, every to_units case and both key listings go through the interpreter (driver ops srcget / srctoufull / srckeys) and are compared with the hand model's line (exact) and with the implementation (exact for get; to_units through the existing tolerance path against the hand model)",
    "still hand-modelled and differential only: pydantic's Datum construction / validation (must_be_numerical), Decimal(text) parsing (parseDec, plain notations only), str.capitalize, OrderedDict semantics (last assignment wins), the non-lookup methods (string_representation, write_c_header)",
    "Model/RadiiF64.lean: doubles as exact rationals, `rnd64` = round-to-nearest-even to 53 bits (exponent range not modelled); checked bit-for-bit against CPython on every value of every run",
    "the unit factor: the EXACT factor of every pair of {bohr, angstrom, pm, nm, m} is now derived in Lean — C03's SI model (Model/Units.lean, Units.conv; imported read-only) over the CODATA table regenerated by C03's translator (harness/c03.py:gen_units_codata, called from C17's TRANSLATORS), proved equal to 1/bohr2angstroms of C02's context model over C02's regenerated table (tools/gen_codata.py, also called here), and the five unit TEXTS are proved to read as those unit expressions by C03's model of pint's string front end over the regenerated registry name set (harness/c03.py:gen_unit_names). The model's double is rnd64 of the exact rational",
    "STILL A CHECKED PARAMETER: pint's float evaluation of the factor (a handful of roundings; e.g. angstrom->nm comes out as 0.09999999999999999, 0.6 ulp off) is not modelled. On every run the implementation's double for all 25 unit pairs is compared with the model's exact rational AND with the oracle's own exact rational at the stated tolerance |f - q| <= 2^-50 |q| (4 machine epsilons; measured maximum on this platform 1.0 ulp on the default context); Lean proves what that tolerance implies for the returned radius (impl_factor_value_accuracy: < 11u relative). The existing correspondence (the implementation's double handed to the model as a parameter, result compared bit for bit) and the oracle's 1e-14 bounds are kept; in addition the implementation's results are compared with the derived-factor model (driver ops getfull / toufull) — exactly where the implementation's double is the correctly rounded factor (angstrom->bohr, pm, m, identity here), within the proved bound otherwise (nm)",
    "that pint + ureg.py + context.py implement C03's unit model in general remains C03's differential tie; C17 checks it for the five units of its quantifier only",
    "hand-written Model/RadiiFactor.lean: which unit expression each of the five texts denotes (proved against C03's front-end model, unit_texts_parse), to_units' choice of target unit (datum.py:99; now also regenerated from datum.py and proved equal: src_to_units_eq), and the Datum-as-state model of repeated to_units calls (to_units has no assignment to self); the aliasing side — whether a returned ndarray shares memory with the stored payload — is NOT expressible in the model and is differential: stream D compares the payload before and after every call of a sequence of to_units calls and after in-place modification of a returned array",
    "CPython float(Decimal) and int/int true division assumed correctly rounded (the former re-checked against the exact decimal on every value)",
    "the oracle's own re-reading of the two data files and of the periodic table arrays",
    "Model/RadiiSession.lean: the public non-lookup methods are modelled as returning the table they were given (no assignment to self.cr / self.vdwr or to a stored Datum exists in covalent_radii.py:73-186, vanderwaals_radii.py:59-170); tied by the call-sequence stream, whose lookups after arbitrary call histories are compared with the stateless model",
    "call sequences run in os.fork() images of the harness process taken before its first lookup (import of qcelemental done; the registry-name translator has built two fresh PhysicalConstantsContext objects and their pint registries; no radius object has been called); a recorded sequence is replayed in-process by a fresh `./check --replay` process, which runs the same translators first",
]
ASSUMPTIONS = [
    "atom is an int or an ASCII str (documented Union[int, str]); return_tuple is a bool; missing is None or a finite float",
    "units in {bohr, angstrom, pm, nm, m} or omitted; other pint expressions are C03's",
    "results are in the normal binary64 range (no overflow/subnormals), true of all radii in all five units",
    "Datum payloads: finite float, finite Decimal, 1-d float64 array",
    "the CODATA set of the factor model is the one named by qcelemental.constants.name (CODATA2014 as shipped; CODATA2018 is also generated and proved); any other context name is a harness error, not a finding",
    "a caller modifying a returned ndarray in place is part of stream D only to detect shared memory with the stored payload (the Datum must still hold its value afterwards); Datum payloads that are not arrays are immutable Python objects",
    "call sequences consist of public calls only (get, write_c_header, string_representation, str/repr, construction / copy / deepcopy of a radius set, reading methods of a returned Datum, molutil.guess_connectivity, periodic_table.write_c_header, constants.string_representation, physical_constants write_c_header); a caller assigning into the public dicts `cr` / `vdwr` or forcing attributes of a frozen Datum is outside; the content of the written headers/listings is not C17's subject (only what the calls leave behind is)",
    "a secondary instance of a radius set (constructed with the same context name, or copied from the singleton) is held to the same clauses as the singleton",
    "source-derived functions: the context argument of __init__ is the shipped one (the `else: raise KeyError` branch for another context name is recognised but not interpreted); atom values outside int / str and `units` values that are not a str are `stuck` in the interpreter (outside the documented signature)",
]
RULE = (
    "exhaustive: every element row (Z=0..117, tabulated or not) x alias forms {int Z, str Z, symbol, name, nuclide labels of the "
    "element (all in thorough, 8 sampled per element in quick), int()-accepted spellings} x cases {as-is, lower, upper, random mixed} "
    "x units {omitted, bohr, angstrom, pm, nm, m} x missing {None, float} x return_tuple {False, True} x both sets; every special "
    "label exactly and in non-label spellings; non-elements by construction; random ASCII; Datum.to_units over all ordered unit "
    "pairs (and None) x float/Decimal/array payloads; Datum validation kinds. A case is distinct by (set, argument, return_tuple, "
    "units, missing) and non-trivial when the argument is not the canonical table key or the outcome is an error or the fallback. "
    "Every lookup case, every to_units case and both key listings are additionally run through the bodies regenerated from the source "
    "(interpreter in the driver) and compared three-way (stream R; same cases, no new generator). "
    "Call sequences (each in a pristine fork): one sequence per kind of non-lookup call {write_c_header x set x filler {default, 2.0, 0.0, 3.25} "
    "on the singleton; new instance by {constructor, deepcopy, copy} alone / + write_c_header / + string_representation on it; "
    "string_representation; str; Datum reading calls; guess_connectivity; periodic-table / constants writers}, 20 (quick) / 200 (thorough) "
    "random sequences of 2-6 such calls interleaved with partial sweeps, 6 / 50 sequences of repeated lookups of the same arguments with all "
    "24 option combinations in random order; every sequence ends with a sweep over all 118 element rows (random alias form; untabulated "
    "elements both with missing=None and with a fallback) x both sets x {singleton, secondary instance}, all special labels, non-elements. "
    "A sequence case is distinct by (non-lookup calls so far, set, target, argument, return_tuple, units, missing given or not)."
)
LEVEL_TEXT = (
    "proof about the model for all inputs (alias invariance, missing/not-element contract, unit algebra as exact rounding identities) "
    "plus kernel evaluation of the whole generated tables; the model is tied to the code by exhaustive correspondence over the "
    "periodic table x alias forms x units; the unit factor is no longer taken from the implementation: its exact value for every pair of "
    "{bohr, angstrom, pm, nm, m} is derived in Lean from C03's SI unit model over the CODATA table regenerated from the source, proved equal to "
    "1/bohr2angstroms of C02's context model (default unit), exactly 1 (native unit) and the exact decimal scales 100, 1/10, 1e-10 (pm, nm, m), the "
    "unit texts are proved to denote those expressions under C03's model of pint's parser, and the model's double is the correctly rounded rational; "
    "partial in one stated respect: pint's float evaluation of the factor is not modelled — the implementation's double is a per-run checked "
    "parameter (within 2^-50 relative of the exact rational, all 25 pairs), with the consequence for the radius proved (< 11u); that pint implements "
    "the unit model beyond these five units is C03's tie. Datum.to_units is modelled with the same factor (elementwise linear up to the stated "
    "roundings, exact for powers of two; the Datum is unchanged by any sequence of calls — value semantics in the model, shared-memory aliasing checked "
    "differentially); "
    "the lookup logic itself (get and __init__ of both classes, Datum.to_units) is regenerated from the source text on every run and proved, "
    "for all inputs, to be the hand model's (Props/C17Src.lean), and the headline clauses (tabulated value returned, bare element = largest variant, "
    "native unit exact, missing contract, non-element error, label shortcut first) are restated over the source-derived functions — partial there "
    "because the translator and the interpreter's reading of the Python constructs are trusted (sampled three-way on every lookup of every run), "
    "to_E / the dictionary / conversion_factor are primitives, and Datum construction, Decimal parsing and capitalize remain hand-modelled; "
    "independence of a lookup from the calls made before it is a theorem of the session model and is tied to the code by sampled call "
    "sequences over all public entry points of the radius objects (sampled, not exhaustive: orders and options are drawn from VERIF_SEED)"
)
TECHNIQUE = ("Lean 4 proof (structural + field/rounding algebra + decide +kernel over generated tables) + translators (radii, periodic table, "
             "CODATA for the unit model and for the constants context, registry name set, the lookup logic of get / __init__ / to_units as an AST proved equal to the model) + exhaustive differential correspondence + independent oracle")

UNITS = ["bohr", "angstrom", "pm", "nm", "m"]
EXACT_SCALE = {"angstrom": Fraction(1), "pm": Fraction(100), "nm": Fraction(1, 10), "m": Fraction(1, 10**10)}
SETS = ("c", "v")
TOL_FACTOR = Fraction(1, 2**50)    # implementation's double vs the exact factor: |f - q| <= 2^-50 |q|  (Radii.withinTol)
U53 = Fraction(1, 2**53)
# proved consequences (Props/C17Factor.lean): radius vs exact q*v when the factor passed the tolerance / for a float payload
BOUND_DEC = (1 + TOL_FACTOR) * (1 + U53) ** 2 - 1      # impl_factor_value_accuracy
BOUND_FLT = (1 + TOL_FACTOR) * (1 + U53) - 1           # to_units_accuracy


# ---------------------------------------------------------------------------------------
# helpers


def hexs(s: str) -> str:
    return s.encode("utf-8").hex()


def xhex(s) -> str:
    return "N" if s is None else "x" + hexs(s)


def frac_s(fr: Fraction) -> str:
    return str(fr.numerator) if fr.denominator == 1 else f"{fr.numerator}/{fr.denominator}"


def fl_s(x) -> str:
    x = float(x)
    if not math.isfinite(x):
        return repr(x)
    return frac_s(Fraction(x))


def fmul_exact(a: float, b: float) -> float:
    """correctly rounded product of two doubles, computed in exact rationals (int/int true division rounds correctly)"""
    p = Fraction(a) * Fraction(b)
    return p.numerator / p.denominator


def nearest_double_ok(x: float, exact: Fraction) -> bool:
    fx = Fraction(x)
    for nb in (math.nextafter(x, math.inf), math.nextafter(x, -math.inf)):
        if abs(Fraction(nb) - exact) < abs(fx - exact):
            return False
    return True


def mixed(rng, s):
    return "".join(c.upper() if rng.random() < 0.5 else c.lower() for c in s)


class Impl:
    """The real objects, plus the factors obtained from the implementation once per unit pair."""

    def __init__(self):
        import qcelemental as qcel
        from qcelemental.physical_constants import constants

        self.qcel = qcel
        self.constants = constants
        self.obj = {"c": qcel.covalentradii, "v": qcel.vdwradii}
        self.tab = {"c": qcel.covalentradii.cr, "v": qcel.vdwradii.vdwr}
        self._f = {}
        self._cf = {}
        self.ref = {}
        name = str(constants.name)
        if name not in ("CODATA2014", "CODATA2018"):
            raise RuntimeError(f"qcelemental.constants is the context {name!r}; the factor model knows CODATA2014 and CODATA2018")
        self.year = int(name.replace("CODATA", ""))

    def factor(self, src: str, dst: str):
        k = (src, dst)
        if k not in self._f:
            try:
                self._f[k] = float(self.constants.conversion_factor(src, dst))
            except Exception:  # noqa
                self._f[k] = None
        return self._f[k]

    def conv_field(self, setname: str, units) -> str:
        if (setname, units) in self._cf:
            return self._cf[(setname, units)]
        dst = "bohr" if units is None else units
        srcs = sorted({str(d.units) for d in self.tab[setname].values()})
        items = []
        for s in srcs:
            f = self.factor(s, dst)
            if f is not None and math.isfinite(f):
                items.append(f"{hexs(s)}={fl_s(f)}")
        self._cf[(setname, units)] = ";".join(items) if items else "-"
        return self._cf[(setname, units)]

    def get(self, setname, arg, rt, units, missing, obj=None):
        kw = {"return_tuple": rt, "missing": missing}
        if units is not None:
            kw["units"] = units
        try:
            return ("ok", (self.obj[setname] if obj is None else obj).get(arg, **kw))
        except Exception as e:  # noqa
            return ("err", err_class(e))


def canon_payload(v) -> str:
    if isinstance(v, Decimal):
        t = v.as_tuple()
        if not isinstance(t.exponent, int):
            return "d:special"
        return f"d:{t.sign}:{int(''.join(map(str, t.digits)) or '0')}:{t.exponent}"
    if isinstance(v, np.ndarray):
        return "a:" + ",".join(fl_s(x) for x in v.ravel())
    if isinstance(v, (float, np.floating)):
        return "f:" + fl_s(v)
    return "?:" + type(v).__name__


def canon(res) -> str:
    if res[0] == "err":
        return "err " + res[1]
    r = res[1]
    if isinstance(r, np.ndarray):
        return "ok values " + ",".join(fl_s(x) for x in r.ravel())
    if isinstance(r, (float, np.floating, int)) and not isinstance(r, bool):
        return "ok value " + fl_s(r)
    if type(r).__name__ == "Datum":
        comment = r.comment if "comment" in r.__fields_set__ else None
        return f"ok datum {xhex(r.label)} {xhex(r.units)} {canon_payload(r.data)} {xhex(comment)} {xhex(r.doi)}"
    return "ok other:" + type(r).__name__


# ---------------------------------------------------------------------------------------
# the oracle's own reading of the data


class Expect:
    def __init__(self):
        cov, vdw = gen_radii.read_sets(common.REPO)
        self.native = {"c": cov["units"], "v": vdw["units"]}
        self.rows = {"c": {r[0]: r[1] for r in cov["covalent_radii"]}, "v": {r[0]: r[1] for r in vdw["vanderwaals_radii"]}}
        d = gen_periodic.literal_assign(common.REPO / "qcelemental/data/nist_2011_atomic_weights.py", "nist_2011_atomic_weights")
        self.elements = list(zip(d["Z"], d["E"], d["name"]))
        self.symbols = [e for _, e, _ in self.elements]
        self.nuclides = {}  # E -> labels
        for ea, ee in zip(d["EA"], d["_EE"]):
            self.nuclides.setdefault(ee, []).append(ea)
        self.all_labels_lower = {x.lower() for x in d["EA"]} | {n.lower() for n in d["name"]}
        self._a0 = {}

    def bohr_radius(self, year: int) -> Fraction:
        """the oracle's own reading of the 'bohr radius' row of the context's CODATA data file (metres, exact decimal)"""
        if year not in self._a0:
            import gen_codata

            blob = gen_codata.literal_assign(common.REPO / f"qcelemental/data/nist_{year}_codata.py", f"nist_{year}_codata")
            self._a0[year] = Fraction(Decimal(blob["constants"]["bohr radius"]["value"]))
        return self._a0[year]

    def exact_factor(self, year: int, src: str, dst: str) -> Fraction:
        """exact factor between two of the five length units: ratio of their lengths in metres"""
        mag = {"bohr": self.bohr_radius(year), "angstrom": Fraction(1, 10**10), "pm": Fraction(1, 10**12),
               "nm": Fraction(1, 10**9), "m": Fraction(1)}
        return mag[src] / mag[dst]

    def variants(self, setname, sym):
        return {k: v for k, v in self.rows[setname].items() if k.startswith(sym + "_")}

    def element_text(self, setname, sym):
        """tabulated decimal text for a bare element: its own row, else the largest of its variants, else None"""
        rows = self.rows[setname]
        if sym in rows:
            return rows[sym]
        var = self.variants(setname, sym)
        if var:
            return max(var.values(), key=Decimal)
        return None

    def is_special(self, setname, label):
        return label in self.rows[setname] and label not in self.symbols


# ---------------------------------------------------------------------------------------
# oracle for one `get` call


def oracle_get(impl: Impl, ex: Expect, case, res):
    """case: dict(set, arg, rt, units, missing, expect=[kind, key]); returns list of (kind, message)."""
    setname, rt, units, missing = case["set"], case["rt"], case["units"], case["missing"]
    kind, key = case["expect"]
    bad = []
    if res[0] == "err" and res[1] not in ("NotAnElement", "DataUnavailable"):
        return [("oracle:error_class", f"raised {res[1]}; only NotAnElementError / DataUnavailableError are documented")]
    if kind == "unknown":
        return bad
    if kind == "nonelement":
        if res != ("err", "NotAnElement"):
            bad.append(("oracle:not_element", f"a non-element must raise NotAnElementError, got {canon(res)}"))
        return bad
    text = ex.element_text(setname, key) if kind == "element" else ex.rows[setname].get(key)
    if kind == "label" and text is None:
        raise AssertionError("label expectation without a row")
    if text is None:
        # valid element, nothing tabulated
        if missing is None:
            if res != ("err", "DataUnavailable"):
                bad.append(("oracle:missing_contract", f"no tabulated radius and missing=None must raise DataUnavailableError, got {canon(res)}"))
        elif not rt:
            if not (res[0] == "ok" and res[1] is missing):
                bad.append(("oracle:missing_contract", f"no tabulated radius: the caller's fallback {missing!r} must be returned as is, got {canon(res)}"))
        else:
            if not (res == ("err", "DataUnavailable") or (res[0] == "ok" and res[1] is missing)):
                bad.append(("oracle:missing_contract", f"no tabulated radius: DataUnavailableError or the fallback expected, got {canon(res)}"))
        return bad
    # tabulated
    dec = Decimal(text)
    if res[0] != "ok":
        bad.append(("oracle:tabulated_value", f"{key} has a tabulated radius {text} but the lookup raised {res[1]}"))
        return bad
    r = res[1]
    native = ex.native[setname]
    if rt:
        if type(r).__name__ != "Datum":
            return [("oracle:datum_native", f"return_tuple=True returned {type(r).__name__}")]
        if not isinstance(r.data, Decimal) or r.data.as_tuple() != dec.as_tuple():
            bad.append(("oracle:datum_native", f"Datum.data is {r.data!r}, the tabulated value is {text}"))
        if r.units != native:
            bad.append(("oracle:datum_native", f"Datum.units is {r.units!r}, the native unit is {native!r}"))
        return bad
    if not isinstance(r, float):
        return [("oracle:tabulated_value", f"return_tuple=False returned {type(r).__name__}")]
    x = float(dec)
    if not nearest_double_ok(x, Fraction(dec)):
        bad.append(("oracle:float_of_decimal", f"float(Decimal({text})) is not the nearest double"))
    dst = "bohr" if units is None else units
    if dst == native:
        if Fraction(r) != Fraction(x):
            gross = abs(Fraction(r) - Fraction(x)) > abs(Fraction(x)) * Fraction(1, 10**12)
            bad.append(("oracle:tabulated_value" if gross else "oracle:native_exact", f"native unit must return the tabulated number {x!r} exactly, got {r!r}"))
        return bad
    f = impl.factor(native, dst)
    if f is None:
        bad.append(("oracle:units", f"no conversion factor {native}->{dst}"))
        return bad
    want = fmul_exact(f, x)
    if units is None and Fraction(r) == Fraction(x) and Fraction(want) != Fraction(x):
        bad.append(("oracle:default_is_bohr", f"units omitted: expected the value in bohr {want!r}, got the native number {r!r}"))
    elif Fraction(r) != Fraction(want):
        gross = want == 0 or abs(Fraction(r) - Fraction(want)) > abs(Fraction(want)) * Fraction(1, 10**12)
        bad.append(("oracle:tabulated_value" if gross else "oracle:unit_product",
                    f"expected factor({native}->{dst})={f!r} times the tabulated {x!r} = {want!r}, got {r!r}"))
    # the factor itself against the exact decimal scale (linearity across units)
    if native == "angstrom":
        if dst == "bohr":
            scale = 1 / Fraction(impl.constants.bohr2angstroms)
        else:
            scale = EXACT_SCALE[dst]
        exact = Fraction(dec) * scale
        if abs(Fraction(r) - exact) > abs(exact) * Fraction(1, 10**14):
            bad.append(("oracle:unit_scale", f"{text} angstrom in {dst} should be {float(exact)!r}, got {r!r}"))
    # the same clause at full strength: the exact factor comes from the context's CODATA data file (bohr radius) and exact
    # decimal scales; a factor double within 2^-50 of it, float(Decimal) and one multiplication leave < 11u (proved:
    # Radii.impl_factor_value_accuracy)
    if native in UNITS and dst in UNITS:
        exact2 = Fraction(dec) * ex.exact_factor(impl.year, native, dst)
        if abs(Fraction(r) - exact2) > abs(exact2) * BOUND_DEC:
            bad.append(("oracle:unit_scale_exact", f"{text} {native} in {dst} is exactly {frac_s(exact2)} ~ {float(exact2)!r}; got {r!r}, "
                        f"off by more than the factor tolerance 2^-50 plus two roundings allow"))
    return bad


# ---------------------------------------------------------------------------------------
# generators


def get_line(impl: Impl, case) -> str:
    arg = case["arg"]
    a = f"i {arg}" if isinstance(arg, int) else f"s {hexs(arg)}"
    m = "N" if case["missing"] is None else fl_s(case["missing"])
    return f"get {case['set']} {1 if case['rt'] else 0} {a} {m} {xhex(case['units'])} {impl.conv_field(case['set'], case['units'])}"


def combos(rng, full: bool):
    """(rt, units, missing) combinations; units None = keyword omitted"""
    allc = [(rt, u, ms) for rt in (False, True) for u in [None] + UNITS for ms in (False, True)]
    if full:
        return allc
    return rng.sample(allc, 6)


def gen_get_cases(ctx: Ctx, ex: Expect):
    rng = ctx.rng

    def fallback():
        return rng.choice([4.0, 2.0, 0.0, -1.5, 1e-3, 123.456, rng.uniform(0.1, 10.0), float(rng.randint(1, 9))])

    def emit(tag, arg, expect, full=True):
        for setname in SETS:
            for rt, u, ms in combos(rng, full):
                yield tag, {"set": setname, "arg": arg, "rt": rt, "units": u, "missing": fallback() if ms else None, "expect": list(expect)}

    # --- A: every element row
    for z, sym, name in ex.elements:
        z = int(z)
        yield from emit("A:int Z", z, ("element", sym))
        for form, tag in ((str(z), "A:str Z"), (sym, "A:symbol"), (name, "A:name")):
            for v in sorted({form, form.lower(), form.upper(), mixed(rng, form)}):
                yield from emit(tag, v, ("element", sym))
        labs = [l for l in ex.nuclides.get(sym, []) if l != sym]
        if not ctx.thorough and len(labs) > 8:
            keep = [l for l in labs if l in ("D", "T")]
            labs = keep + rng.sample([l for l in labs if l not in keep], 8 - len(keep))
        for lab in labs:
            for v in sorted({lab, lab.lower(), mixed(rng, lab)} | ({lab.upper()} if ctx.thorough else set())):
                yield from emit("A:nuclide", v, ("element", sym), full=ctx.thorough or lab in ("D", "T"))
        # integer spellings int() accepts
        for v in (f" {z} ", f"+{z}", f"0{z}", f"\t{z}\n", f"0_{z}"):
            yield from emit("A:int spelling", v, ("element", sym), full=False)
    # --- B: special labels
    for setname in SETS:
        for lab in ex.rows[setname]:
            if not ex.is_special(setname, lab):
                continue
            for rt, u, ms in combos(rng, True):
                yield "B:special label", {"set": setname, "arg": lab, "rt": rt, "units": u, "missing": fallback() if ms else None, "expect": ["label", lab]}
            sym = lab.split("_")[0]
            for v in sorted({lab.lower(), lab.upper(), lab.title(), lab + " ", " " + lab, lab[:-1], lab + "x", lab.replace("_", ""), lab.replace("_", "-"), mixed(rng, lab)} - {lab}):
                exp = ["label", v] if v in ex.rows[setname] else ["nonelement", None]
                for rt, u, ms in combos(rng, False):
                    yield "B:not a label", {"set": setname, "arg": v, "rt": rt, "units": u, "missing": fallback() if ms else None, "expect": exp}
            # the other set does not know this label
            other = "v" if setname == "c" else "c"
            if lab not in ex.rows[other]:
                for rt, u, ms in combos(rng, False):
                    yield "B:label of the other set", {"set": other, "arg": lab, "rt": rt, "units": u, "missing": fallback() if ms else None, "expect": ["nonelement", None]}
    # --- C: non-elements by construction
    nz = len(ex.elements)
    non = [-1, -7, nz, nz + 1, 200, 10**6, str(nz), "-1", "1.0", "1e0", "0x1", "", " ", "Xx", "Qq", "Jj", "Hydrogenn", "Hydroge",
           "H8", "He100", "4He", "2H", "C_", "C_sp4", "Mn_", "_sp3", "sp3", "H_", "He_sp3", "Fe_midspin", "Uut", "Og", "Oganesson", "H e", "He 4"]
    letters = "abcdefghijklmnopqrstuvwxyz"
    two = ["".join(t) for t in itertools.product(letters, repeat=2) if "".join(t) not in ex.all_labels_lower]
    non += [mixed(rng, s) for s in rng.sample(two, ctx.scale(60, 400))]
    for a in non:
        yield from emit("C:non-element", a, ("nonelement", None), full=False)
    # --- C': random ASCII, expectation unknown (diff + error class)
    printable = [chr(c) for c in range(32, 127)]
    for _ in range(ctx.scale(600, 6000)):
        n = rng.randint(1, 6)
        pool = rng.choice([printable, list("0123456789_+- "), list("CcMmFfOoNn_sSpP3HhIiGgLlWw")])
        s = "".join(rng.choice(pool) for _ in range(n))
        yield from emit("C:random", s, ("unknown", None), full=False)


def rand_float(rng):
    mant = rng.choice([rng.uniform(0.1, 10.0), rng.uniform(1, 2), float(rng.randint(1, 999)), rng.random()])
    return rng.choice([1, 1, 1, -1]) * mant * 10.0 ** rng.randint(-9, 9)


def rand_decimal(rng):
    nd = rng.randint(1, 18)
    digits = "".join(rng.choice("0123456789") for _ in range(nd)).lstrip("0") or "0"
    return Decimal(f"{rng.choice(['', '', '-'])}{digits}E{rng.randint(-14, 6)}")


def gen_tou_cases(ctx: Ctx):
    rng = ctx.rng
    pairs = [(a, b) for a in UNITS for b in UNITS + [None]]
    reps = ctx.scale(12, 80)
    for (u1, u2), _ in itertools.product(pairs, range(reps)):
        k = rng.choice(["float", "decimal", "array", "decimal"])
        if k == "float":
            data = rng.choice([rand_float(rng), 0.0, 1.0, 0.76, 0.1])
        elif k == "decimal":
            data = rng.choice([rand_decimal(rng), rand_decimal(rng), Decimal("0.76"), Decimal("1.10"), Decimal("0")])
        else:
            data = np.array([rand_float(rng) for _ in range(rng.randint(1, 4))])
        yield {"u1": u1, "u2": u2, "kind": k, "data": data}


def tou_payload_line(data) -> str:
    return canon_payload(data)


def tou_expected(f: float, snap) -> str:
    """canonical `factor times payload, correctly rounded` from a SNAPSHOT of the payload"""
    if isinstance(snap, Decimal):
        return "ok value " + fl_s(fmul_exact(f, float(snap)))
    if isinstance(snap, np.ndarray):
        return "ok values " + ",".join(fl_s(fmul_exact(f, float(v))) for v in snap)
    return "ok value " + fl_s(fmul_exact(f, float(snap)))


def parse_values(line: str):
    """'ok value p/q' / 'ok values p/q,...' -> list of Fractions (None if the line is something else)"""
    if line is None:
        return None
    if line.startswith("ok value "):
        return [Fraction(line[len("ok value "):])]
    if line.startswith("ok values "):
        return [Fraction(t) for t in line[len("ok values "):].split(",")]
    return None


def full_model_agrees(ci: str, full_line: str, f, q: Fraction) -> str:
    """Compare an implementation answer with the DERIVED-factor model's.  Returns '' (agree), 'exact' or 'tolerance'
    (which comparison failed).  Where the implementation's double IS the correctly rounded exact factor the two must
    be identical (Radii.getFull_eq_of_factor_eq); otherwise both are within the proved bounds of the same exact
    product, so they differ by at most 2^-49 relative."""
    if full_line == ci:
        return ""
    if f is None or q is None:
        return "exact"
    fm = q.numerator / q.denominator  # CPython int/int true division is correctly rounded: rnd64(q)
    if Fraction(f) == Fraction(fm):
        return "exact"
    a, b = parse_values(ci), parse_values(full_line)
    if a is None or b is None or len(a) != len(b) or ci.split(" ")[1] != full_line.split(" ")[1]:
        return "tolerance"
    for x, y in zip(a, b):
        if abs(x - y) > abs(y) * Fraction(1, 2**49):
            return "tolerance"
    return ""


TOU_FOLLOW_UP = 4  # further to_units calls made on the same Datum after the first one


def check_tou(impl: Impl, out: Outcome, case, model_line, full_line=None, ex: Expect = None):
    u1, u2, data = case["u1"], case["u2"], case["data"]
    out.evaluations += 1
    out.count("D:to_units:" + case["kind"])
    rep = {"op": "tou", "u1": u1, "u2": u2, "kind": case["kind"],
           "data": str(data) if isinstance(data, Decimal) else (data.tolist() if isinstance(data, np.ndarray) else float(data).hex())}
    # what the payload is BEFORE anything is called (the Datum stores an ndarray by reference)
    snap = data.copy() if isinstance(data, np.ndarray) else data
    snap_key = canon_payload(snap)
    dst = u2 if u2 is not None else u1
    f = impl.factor(u1, dst)
    d = None
    try:
        d = impl.qcel.Datum("probe", u1, data)
        res = ("ok", d.to_units(u2))
    except Exception as e:  # noqa
        res = ("err", err_class(e))
    ci = canon(res)
    out.nontrivial(("tou", u1, u2, canon_payload(snap)))
    out.sample({"op": "to_units", "from": u1, "to": u2, "data": rep["data"], "impl": ci, "model": model_line, "model (derived factor)": full_line}, limit=8)
    # oracle
    if res[0] != "ok" or f is None:
        out.violations.append(Finding("oracle:to_units", rep, observed=ci, detail="to_units raised on a length-unit pair"))
    else:
        if u2 is None and Fraction(f) != 1:
            out.violations.append(Finding("oracle:to_units", rep, observed=repr(f), detail="factor of a unit to itself is not 1"))
        if isinstance(snap, Decimal):
            x = float(snap)
            if not nearest_double_ok(x, Fraction(snap)):
                out.violations.append(Finding("oracle:float_of_decimal", rep, observed=repr(x), detail="float(Decimal) is not the nearest double"))
        want = tou_expected(f, snap)
        if ci != want:
            out.violations.append(Finding("oracle:to_units", rep, observed=ci, expected=want, detail=f"to_units is not factor({u1}->{u2})={f!r} times the data, correctly rounded"))
        if isinstance(res[1], np.ndarray) != isinstance(snap, np.ndarray):
            out.violations.append(Finding("oracle:to_units", rep, observed=ci, detail="payload shape changed"))
        # linear in the payload with the EXACT factor of the context (bohr radius of its CODATA file, decimal scales):
        # each element within the proved bound of q * x  (Radii.to_units_accuracy / to_units_decimal_accuracy)
        if ex is not None:
            q = ex.exact_factor(impl.year, u1, dst)
            got = parse_values(ci)
            xs = [Fraction(snap)] if isinstance(snap, Decimal) else ([Fraction(float(v)) for v in snap] if isinstance(snap, np.ndarray) else [Fraction(float(snap))])
            bound = BOUND_DEC if isinstance(snap, Decimal) else BOUND_FLT
            if got is not None and len(got) == len(xs):
                for g, xq in zip(got, xs):
                    if abs(g - q * xq) > abs(q * xq) * bound:
                        out.violations.append(Finding("oracle:to_units_exact", rep, observed=ci, expected=frac_s(q * xq),
                                                      detail=f"to_units({u2!r}) of a payload in {u1} is not the exact factor {frac_s(q)} times the payload within the factor tolerance 2^-50 plus the roundings of the product"))
                        break
    # the stored Datum is not modified: repeated calls on the SAME Datum, payload compared with the snapshot after each
    if d is not None and res[0] == "ok":
        bad = tou_sequence(impl, d, u1, u2, snap, snap_key)
        out.count("D:to_units follow-up calls", TOU_FOLLOW_UP + (2 if isinstance(snap, np.ndarray) else 0))
        if bad:
            out.violations.append(Finding("oracle:to_units_payload", rep, observed=bad[0], expected=snap_key, detail=bad[1]))
    # a Datum DERIVED from this one (pydantic copy with another payload / another unit, taken after the original was converted) is a
    # Datum too: its conversion is the factor times ITS payload in ITS unit, and converting it leaves the original's answers alone
    if d is not None and res[0] == "ok" and f is not None and not isinstance(snap, np.ndarray):
        try:
            other = (snap * 3 + type(snap)(1)) if isinstance(snap, Decimal) else (float(snap) * 3.0 + 1.0)
            d2 = d.copy(update={"data": other})
            got2 = canon(("ok", d2.to_units(u2)))
            want2 = tou_expected(f, other)
            out.count("D:to_units on a derived copy")
            if got2 != want2:
                out.violations.append(Finding("oracle:to_units_derived_copy", dict(rep, derived_data=str(other)), observed=got2, expected=want2,
                                              detail="to_units of datum.copy(update={'data': ...}) (taken after the original was converted) is not the factor times the copy's own payload"))
            u3 = next(u for u in UNITS if u != u1)
            d3 = d.copy(update={"units": u3})
            f3 = impl.factor(u3, dst if u2 is not None else u3)
            got3 = canon(("ok", d3.to_units(u2)))
            if f3 is not None and got3 != tou_expected(f3, snap):
                out.violations.append(Finding("oracle:to_units_derived_copy", dict(rep, derived_units=u3), observed=got3, expected=tou_expected(f3, snap),
                                              detail="to_units of datum.copy(update={'units': ...}) is not the factor from the copy's own unit times the payload"))
            d2.to_units(u3)
            again = canon(("ok", d.to_units(u2)))
            if again != ci:
                out.violations.append(Finding("oracle:to_units_derived_copy", rep, observed=again, expected=ci,
                                              detail="converting a derived copy changed what the original Datum converts to"))
        except Exception as e:  # noqa
            out.violations.append(Finding("oracle:to_units_derived_copy", rep, observed=err_class(e) + ": " + str(e)[:160], detail="copy(update=...) / to_units on the copy raised"))
    if model_line is not None and model_line != ci:
        out.mismatches.append(Finding("mismatch", rep, observed=ci, expected=model_line, detail="Datum.to_units: implementation vs Lean model"))
    if full_line is not None and ex is not None:
        out.count("T:to_units vs derived-factor model")
        how = full_model_agrees(ci, full_line, f, ex.exact_factor(impl.year, u1, dst))
        if how:
            out.mismatches.append(Finding("mismatch", dict(rep, model="derived factor"), observed=ci, expected=full_line,
                                          detail=f"Datum.to_units: implementation vs Lean model with the factor derived from the CODATA set ({how} comparison)"))
        elif full_line != ci:
            out.count("T:tolerance path (implementation's double is not the correctly rounded factor)")


def tou_sequence(impl: Impl, d, u1, u2, snap, snap_key):
    """After the first to_units(u2): payload unchanged?  Then call to_units again — same target, another unit, same
    target, default — each answer must be what a fresh Datum gives, and the payload must equal the snapshot after
    every call.  For arrays: modifying a returned array in place must not reach the stored payload.
    Returns None or (observed, message)."""

    def payload_now():
        v = d.data
        return canon_payload(v) if type(v) is type(snap) else "?:" + type(v).__name__

    if payload_now() != snap_key:
        return (payload_now(), f"the Datum's payload changed during to_units({u2!r})")
    other = UNITS[(UNITS.index(u1) + 2) % len(UNITS)]
    for i, target in enumerate([u2, other, u2, None][:TOU_FOLLOW_UP]):
        f = impl.factor(u1, target if target is not None else u1)
        try:
            r = ("ok", d.to_units(target))
        except Exception as e:  # noqa
            r = ("err", err_class(e))
        if f is None or canon(r) != tou_expected(f, snap):
            return (canon(r), f"call #{i + 2} on the same Datum, to_units({target!r}), does not return what it returns on a fresh Datum "
                              f"({tou_expected(f, snap) if f is not None else 'a value'})")
        if payload_now() != snap_key:
            return (payload_now(), f"the Datum's payload changed during call #{i + 2}, to_units({target!r})")
    if isinstance(snap, np.ndarray):
        for target in (u2, None):
            f = impl.factor(u1, target if target is not None else u1)
            r = d.to_units(target)
            if isinstance(r, np.ndarray) and r.flags.writeable:
                r *= 3.0
                r += 1.0
            if payload_now() != snap_key:
                return (payload_now(), f"modifying the array returned by to_units({target!r}) in place changed the Datum's payload (shared memory)")
            r2 = ("ok", d.to_units(target))
            if f is None or canon(r2) != tou_expected(f, snap):
                return (canon(r2), f"to_units({target!r}) after the caller modified an earlier result in place does not return the converted payload")
    return None


def tou_line(impl: Impl, case) -> str:
    f = impl.factor(case["u1"], case["u2"] if case["u2"] is not None else case["u1"])
    return f"tou {canon_payload(case['data'])} {fl_s(f) if f is not None else 'none'}"


def toufull_line(impl: Impl, case) -> str:
    return f"toufull {impl.year} {xhex(case['u1'])} {xhex(case['u2'])} {canon_payload(case['data'])}"


def getfull_line(impl: Impl, case) -> str:
    arg = case["arg"]
    a = f"i {arg}" if isinstance(arg, int) else f"s {hexs(arg)}"
    m = "N" if case["missing"] is None else fl_s(case["missing"])
    return f"getfull {impl.year} {case['set']} {1 if case['rt'] else 0} {a} {m} {xhex(case['units'])}"


def tou_replay_data(case):
    data = case["data"]
    return str(data) if isinstance(data, Decimal) else (data.tolist() if isinstance(data, np.ndarray) else float(data).hex())


def srcget_line(impl: Impl, case) -> str:
    return "src" + get_line(impl, case)


def srctoufull_line(impl: Impl, case) -> str:
    return "src" + toufull_line(impl, case)


def check_src(out: Outcome, rep, src_line, model_line, ci, what):
    """three-way: the body regenerated from the source (interpreter) vs the hand model vs the implementation.
    `ci` None = the implementation is compared with the hand model elsewhere (to_units: tolerance on pint's double)."""
    if src_line is None:
        return
    out.evaluations += 1
    out.count("R:" + what + " regenerated from source, three-way")
    if model_line is not None and src_line != model_line:
        out.mismatches.append(Finding("mismatch", dict(rep, model="regenerated from source"), observed=src_line, expected=model_line,
                                      detail=what + ": body regenerated from the source vs hand model (the equality theorem of Props/C17Src.lean does not hold of this source)"))
    elif ci is not None and src_line != ci:
        out.mismatches.append(Finding("mismatch", dict(rep, model="regenerated from source"), observed=ci, expected=src_line,
                                      detail=what + ": implementation vs body regenerated from the source"))


def factor_line(impl: Impl, src: str, dst: str) -> str:
    f = impl.factor(src, dst)
    return f"factor {impl.year} {xhex(src)} {xhex(dst)} {fl_s(f) if f is not None and math.isfinite(f) else '-'}"


def check_factor(impl: Impl, ex: Expect, out: Outcome, src, dst, model_line):
    """F: constants.conversion_factor(src, dst) itself, against the oracle's exact rational and the Lean model's."""
    out.evaluations += 1
    out.count("F:factor")
    f = impl.factor(src, dst)
    q = ex.exact_factor(impl.year, src, dst)
    rep = {"op": "factor", "src": src, "dst": dst}
    if src != dst:
        out.nontrivial(("factor", src, dst))
    out.sample({"op": "conversion_factor", "from": src, "to": dst, "impl": repr(f), "exact": frac_s(q), "model": model_line}, limit=14)
    within = None
    if f is None or not isinstance(f, float) or not math.isfinite(f):
        out.violations.append(Finding("oracle:factor_exact", rep, observed=repr(f), expected=frac_s(q), detail="conversion_factor did not return a finite float for a pair of length units"))
    else:
        within = abs(Fraction(f) - q) <= abs(q) * TOL_FACTOR
        if not within:
            out.violations.append(Finding("oracle:factor_exact", rep, observed=repr(f), expected=f"{frac_s(q)} ~ {float(q)!r}",
                                          detail=f"conversion_factor({src!r}, {dst!r}) of the {impl.year} context is not within 2^-50 (relative) of the exact ratio of the two lengths "
                                                 f"(bohr radius from nist_{impl.year}_codata.py, exact decimal scales)"))
        elif Fraction(f) != Fraction(q.numerator / q.denominator):
            out.count("F:double is not the correctly rounded factor (within tolerance)")
            out.notes.append(f"factor {src}->{dst}: the implementation's double {f!r} is not the correctly rounded exact factor {q.numerator / q.denominator!r} (within the 2^-50 tolerance: pint's float evaluation)")
    if model_line is not None:
        fm = q.numerator / q.denominator
        want = f"ok {frac_s(q)} {fl_s(fm)} " + ("-" if within is None else ("1" if within else "0"))
        if model_line != want:
            out.mismatches.append(Finding("mismatch", rep, observed=want, expected=model_line,
                                          detail="unit factor: the oracle's exact rational / its correctly rounded double / the tolerance verdict on the implementation's double vs the Lean model's (Units.conv over the regenerated CODATA table, rnd64, withinTol)"))


def check_b2a_link(impl: Impl, ex: Expect, out: Outcome):
    """the context's alias `bohr2angstroms` IS the reciprocal of the exact angstrom->bohr factor (exact decimals:
    bohr radius * 1.E10), and its float attribute is the nearest double of that Decimal"""
    out.evaluations += 1
    out.count("F:bohr2angstroms link")
    q = ex.exact_factor(impl.year, "angstrom", "bohr")
    rep = {"op": "b2a"}
    try:
        b = impl.constants.pc["bohr2angstroms"].data
        ok = isinstance(b, Decimal) and Fraction(b) * q == 1
        obs = repr(b)
    except Exception as e:  # noqa
        ok, obs, b = False, f"{type(e).__name__}: {e}", None
    if not ok:
        out.violations.append(Finding("oracle:bohr2angstroms_link", rep, observed=obs, expected=frac_s(1 / q),
                                      detail="the context's bohr2angstroms is not exactly (bohr radius of its CODATA file) * 1e10, i.e. not the reciprocal of the exact angstrom->bohr factor"))
    elif not nearest_double_ok(float(impl.constants.bohr2angstroms), Fraction(b)) or Fraction(float(b)) != Fraction(impl.constants.bohr2angstroms):
        out.violations.append(Finding("oracle:bohr2angstroms_link", rep, observed=repr(impl.constants.bohr2angstroms), expected=str(b),
                                      detail="constants.bohr2angstroms is not the nearest double of the context's Decimal"))


def check_getfull(impl: Impl, ex: Expect, out: Outcome, tag, case, full_line):
    """G: the implementation's `get` against the model whose factor is derived in Lean (nothing numeric handed over)."""
    if full_line is None:
        return
    res = impl.get(case["set"], case["arg"], case["rt"], case["units"], case["missing"])
    ci = canon(res)
    out.evaluations += 1
    out.count("G:get vs derived-factor model")
    native = ex.native[case["set"]]
    dst = "bohr" if case["units"] is None else case["units"]
    f = impl.factor(native, dst)
    q = ex.exact_factor(impl.year, native, dst) if native in UNITS and dst in UNITS else None
    how = full_model_agrees(ci, full_line, f, q)
    if how:
        out.mismatches.append(Finding("mismatch", {"op": "get", **case, "model": "derived factor"}, observed=ci, expected=full_line,
                                      detail=f"get: implementation vs Lean model with the unit factor derived from the CODATA set ({how} comparison)"))
    elif full_line != ci:
        out.count("G:tolerance path (implementation's double is not the correctly rounded factor)")


MK = [("float", 2.5), ("int", 3), ("bool", True), ("complex", 1 + 2j), ("ndarray", "np"), ("decimal", Decimal("1.5")),
      ("str", "a"), ("list", [1, 2]), ("none", None)]


def check_mk(impl: Impl, out: Outcome, kind, value, numeric, model_line):
    v = np.array([1.0, 2.0]) if isinstance(value, str) and value == "np" else value
    out.evaluations += 1
    out.count("E:datum validation")
    try:
        d = impl.qcel.Datum("probe", "angstrom", v, numeric=numeric)
        ci = "ok " + ("1" if d.numeric else "0")
    except Exception as e:  # noqa
        ci = "err " + err_class(e)
    numerical = kind in ("float", "int", "bool", "complex", "ndarray", "decimal")
    want = "ok 1" if numerical else ("err Validation" if numeric else "ok 0")
    rep = {"op": "mk", "kind": kind, "numeric": numeric}
    if ci != want:
        out.violations.append(Finding("oracle:datum_validation", rep, observed=ci, expected=want, detail="Datum accepts exactly float/Decimal/array-like data when numeric"))
    if model_line is not None and model_line != ci:
        out.mismatches.append(Finding("mismatch", rep, observed=ci, expected=model_line, detail="Datum validation: implementation vs Lean model"))


# ---------------------------------------------------------------------------------------


def check_get(impl: Impl, ex: Expect, out: Outcome, tag, case, model_line):
    res = impl.get(case["set"], case["arg"], case["rt"], case["units"], case["missing"])
    ci = canon(res)
    out.evaluations += 1
    out.count("stream:" + tag)
    out.count("set:" + case["set"])
    kind, key = case["expect"]
    if res[0] == "err":
        oc = "err:" + res[1]
    elif case["missing"] is not None and res[1] is case["missing"]:
        oc = "fallback"
    else:
        oc = "datum" if case["rt"] else "value:" + str(case["units"] or "default")
    out.count("outcome:" + oc)
    canonical = isinstance(case["arg"], str) and case["arg"] == key
    if not canonical or res[0] == "err" or oc == "fallback":
        out.nontrivial((case["set"], repr(case["arg"]), case["rt"], case["units"], case["missing"] is None))
    skey = "sampled:" + oc.split(":")[0] + ":" + tag.split(":")[0] + (":noncanonical" if not canonical else "")
    seen = out.__dict__.setdefault("_sampled", set())
    if skey not in seen and len(out.samples) < 12:
        seen.add(skey)
        out.sample({"stream": tag, "case": {k: v for k, v in case.items()}, "impl": ci, "model": model_line}, limit=12)
    rep = {"op": "get", **case}
    for k, msg in oracle_get(impl, ex, case, res):
        out.violations.append(Finding(k, rep, observed=ci, detail=msg))
    # alias invariance stated directly: same answer as the canonical symbol
    if kind == "element" and not canonical:
        rk = (case["set"], key, case["rt"], case["units"], case["missing"])
        if rk not in impl.ref:
            impl.ref[rk] = canon(impl.get(*rk))
        ref = impl.ref[rk]
        if ref != ci:
            out.violations.append(Finding("oracle:alias_invariance", rep, observed=ci, expected=ref, detail=f"{case['arg']!r} names {key} but the lookup differs from get({key!r})"))
    if model_line is not None and model_line != ci:
        out.mismatches.append(Finding("mismatch", rep, observed=ci, expected=model_line, detail="get: implementation vs Lean model"))


def check_keys(impl: Impl, ex: Expect, out: Outcome, setname, model_line):
    keys = list(impl.tab[setname].keys())
    ci = "ok " + ",".join(xhex(k) for k in keys)
    out.evaluations += 1
    out.count("K:keys")
    rep = {"op": "keys", "set": setname}
    # oracle: keys = file labels, plus (covalent) the bare elements that have variants
    want = set(ex.rows[setname])
    if setname == "c":
        want |= {k.split("_")[0] for k in ex.rows["c"] if "_" in k}
    if set(keys) != want:
        out.violations.append(Finding("oracle:table_keys", rep, observed=sorted(set(keys) ^ want), detail="table keys differ from the data file labels (+ generic elements of the variants)"))
    if model_line is not None and model_line != ci:
        out.mismatches.append(Finding("mismatch", rep, observed=ci, expected=model_line, detail="table keys/order: implementation vs Lean model"))


# ---------------------------------------------------------------------------------------
# S: call sequences.  A lookup must be a function of its arguments alone: whatever public operation
# of the radius objects (or of their neighbours) ran before it in the same process, the property's
# clauses still hold for it.  Every sequence is executed in a PRISTINE process image (a fork taken
# before this process has made a single lookup), so a recorded sequence replays exactly in a fresh
# `./check C17 --replay` process.

TABLE_ATTR = {"c": "cr", "v": "vdwr"}
SEQ_ITEMISED = 4  # violations per run that are shrunk and itemised (the rest are counted)
FRESH_HOW = ("ctor", "deepcopy", "copy")
SEQ_NONELEMENTS = [-1, 118, 200, "Xx", "Qq", "Jj", "", "H8", "4He", "C_sp4", "Fe_midspin", "Hydroge", "1.0", "sp3", "c_SP3", "Mn_"]
SEQ_SYMBOL_POOL = ["H", "C", "N", "O", "Fe", "Zn", "U", "Ru", "X", "He", "Kr", "Cu", "Mn", "Co", "Og", "Am", "D", "kr84", "c13", "Xx", "ghost"]


class Session:
    """The live singletons plus, per sequence, one secondary instance of each radius set."""

    def __init__(self, impl: Impl):
        self.impl = impl
        self.fresh = {}

    def make(self, setname, how):
        import copy

        live = self.impl.obj[setname]
        if how == "ctor":
            self.fresh[setname] = type(live)(live.name)
        elif how == "deepcopy":
            self.fresh[setname] = copy.deepcopy(live)
        elif how == "copy":
            self.fresh[setname] = copy.copy(live)
        else:
            raise ValueError(how)

    def target(self, setname, which):
        if which == "live":
            return self.impl.obj[setname]
        if which != "fresh":
            raise ValueError(which)
        if setname not in self.fresh:
            self.make(setname, "ctor")
        return self.fresh[setname]


def disturb(impl: Impl, ses: Session, st, tmpdir, n):
    """One non-lookup call.  Its own result is not C17's business; only what it leaves behind is."""
    import copy
    import os

    qcel = impl.qcel
    do = st["do"]
    path = os.path.join(tmpdir, f"out{n}.h")
    if do == "new":
        ses.make(st["set"], st["how"])
        return
    if do in ("wch", "strrep", "str", "datum"):
        obj = ses.target(st["set"], st.get("target", "live"))
    if do == "wch":
        if st["missing"] is None:
            obj.write_c_header(filename=path)
        else:
            obj.write_c_header(path, missing=st["missing"])
    elif do == "strrep":
        obj.string_representation()
    elif do == "str":
        str(obj), repr(obj)
    elif do == "datum":
        d = obj.get(st["arg"], return_tuple=True)
        for f in (lambda: d.to_units(st["units"]), lambda: d.to_units(), lambda: d.dict(), lambda: str(d), lambda: repr(d),
                  lambda: copy.deepcopy(d), lambda: d.copy(), lambda: hash(d.data), lambda: d == d):
            try:
                f()
            except Exception:  # noqa — a reading call that raises is not a C17 matter
                pass
    elif do == "conn":
        syms = st["symbols"]
        geom = [[st["spacing"] * i, 0.3 * (i % 3), 0.0] for i in range(len(syms))]
        qcel.molutil.guess_connectivity(syms, geom, threshold=st["threshold"])
    elif do == "pt_header":
        from qcelemental import periodic_table

        periodic_table.write_c_header(path)
    elif do == "const_repr":
        qcel.constants.string_representation()
    elif do == "const_header":
        from qcelemental.physical_constants import context as pc_context

        pc_context.write_c_header(st["context"], path)
    elif do == "scaled_conv":
        # conversions of the radii's own unit pair that carry a NUMERIC SCALAR (a pint Quantity, a scalar-prefixed unit string):
        # whatever the constants context memoises about them must not colour the plain conversions the lookups make afterwards
        how = st["how"]
        if how == "quantity":
            qcel.constants.conversion_factor(qcel.constants.Quantity(f"{st['k']} angstrom"), "bohr")
        elif how == "target":
            qcel.constants.conversion_factor("angstrom", f"{st['k']} * bohr")
        elif how == "datum":
            qcel.Datum("l", f"{st['k']} * angstrom", 1.0).to_units("bohr")
        else:
            qcel.covalentradii.get("C", units=f"{st['k']} * bohr")
    else:
        raise ValueError(f"unknown step {do!r}")


def exec_steps(impl: Impl, ex: Expect, steps):
    """Run a sequence in THIS process; one record per lookup / keys step, and per non-lookup call that raised."""
    import contextlib
    import io
    import tempfile

    ses = Session(impl)
    recs = []
    with tempfile.TemporaryDirectory(prefix="c17seq") as td, contextlib.redirect_stdout(io.StringIO()):
        for i, st in enumerate(steps):
            do = st["do"]
            if do == "get":
                try:
                    obj = ses.target(st["set"], st.get("target", "live"))
                except Exception as e:  # noqa — the secondary instance cannot be built
                    recs.append({"i": i, "ci": "err other:" + type(e).__name__, "bad": [["oracle:error_class", f"constructing the radius set raised {type(e).__name__}: {e}"[:300]]]})
                    continue
                res = impl.get(st["set"], st["arg"], st["rt"], st["units"], st["missing"], obj=obj)
                recs.append({"i": i, "ci": canon(res), "bad": [list(b) for b in oracle_get(impl, ex, st, res)]})
            elif do == "keys":
                try:
                    keys = list(getattr(ses.target(st["set"], st.get("target", "live")), TABLE_ATTR[st["set"]]).keys())
                    recs.append({"i": i, "ci": "ok " + ",".join(xhex(k) if isinstance(k, str) else "?" + repr(k) for k in keys), "bad": []})
                except Exception as e:  # noqa
                    recs.append({"i": i, "ci": "err other:" + type(e).__name__, "bad": []})
            else:
                try:
                    disturb(impl, ses, st, td, i)
                except Exception as e:  # noqa
                    recs.append({"i": i, "raised": f"{type(e).__name__}: {e}"[:200]})
    return recs


def run_forked(ctx: Ctx, impl: Impl, ex: Expect, episodes, jobs=None):
    """exec_steps for every episode, each in its own fork of the (still pristine) current process."""
    import json
    import os
    import traceback

    jobs = jobs or max(2, min(8, (os.cpu_count() or 4) // 2))
    ctx._seq_batch = getattr(ctx, "_seq_batch", 0) + 1
    results = [None] * len(episodes)
    pending = list(enumerate(episodes))
    running = {}
    while pending or running:
        while pending and len(running) < jobs:
            idx, steps = pending.pop(0)
            path = ctx.work / f"seq.{ctx._seq_batch}.{idx}.json"
            sys.stderr.flush()
            pid = os.fork()
            if pid == 0:
                code = 3
                try:
                    dn = os.open(os.devnull, os.O_WRONLY)
                    os.dup2(dn, 1)
                    path.write_text(json.dumps(exec_steps(impl, ex, steps)))
                    code = 0
                except BaseException:  # noqa
                    traceback.print_exc()
                finally:
                    sys.stderr.flush()
                    os._exit(code)
            running[pid] = (idx, path)
        pid, status = os.wait()
        if pid not in running:
            continue
        idx, path = running.pop(pid)
        if status != 0 or not path.exists():
            raise RuntimeError(f"call-sequence worker for episode {idx} ended with status {status}")
        results[idx] = json.loads(path.read_text())
        path.unlink()
    return results


def seq_fallback(rng):
    return rng.choice([4.0, 2.0, 0.0, -1.5, 1e-3, 123.456, 1.8, 7.25, rng.uniform(0.1, 10.0), float(rng.randint(1, 9))])


def seq_combo(rng, rt=None, missing="any"):
    rt = rng.random() < 0.4 if rt is None else rt
    if missing == "any":
        missing = seq_fallback(rng) if rng.random() < 0.5 else None
    return rt, rng.choice([None] + UNITS), missing


def seq_alias(rng, ex: Expect, z, sym, name):
    k = rng.randrange(6)
    if k == 0:
        return int(z)
    if k == 1:
        return str(int(z))
    if k == 2:
        return rng.choice([sym, sym.lower(), sym.upper()])
    if k == 3:
        return rng.choice([name, name.lower(), name.upper(), mixed(rng, name)])
    if k == 4:
        labs = ex.nuclides.get(sym) or [sym]
        return rng.choice([str.lower, str.upper, str])(rng.choice(labs))
    return sym


def seq_get(setname, target, arg, expect, rt, units, missing):
    return {"do": "get", "set": setname, "target": target, "arg": arg, "rt": rt, "units": units, "missing": missing, "expect": list(expect)}


def seq_sweep(rng, ex: Expect, targets, frac=1.0):
    """Lookups covering every element row (one random alias form each), every special label and some
    non-elements, on both sets; untabulated elements get both the raising and the fallback form."""
    out = []
    for z, sym, name in ex.elements:
        for setname in SETS:
            if frac < 1.0 and rng.random() > frac:
                continue
            tg = rng.choice(targets)
            if ex.element_text(setname, sym) is not None:
                rt, u, ms = seq_combo(rng)
                out.append(seq_get(setname, tg, seq_alias(rng, ex, z, sym, name), ("element", sym), rt, u, ms))
            else:
                rt, u, _ = seq_combo(rng)
                out.append(seq_get(setname, tg, seq_alias(rng, ex, z, sym, name), ("element", sym), rt, u, None))
                rt, u, _ = seq_combo(rng, rt=rng.random() < 0.15)
                out.append(seq_get(setname, rng.choice(targets), seq_alias(rng, ex, z, sym, name), ("element", sym), rt, u, seq_fallback(rng)))
    for setname in SETS:
        for lab in ex.rows[setname]:
            if ex.is_special(setname, lab) and (frac >= 1.0 or rng.random() < frac):
                rt, u, ms = seq_combo(rng)
                out.append(seq_get(setname, rng.choice(targets), lab, ("label", lab), rt, u, ms))
        for a in rng.sample(SEQ_NONELEMENTS, max(1, int(5 * frac))):
            if isinstance(a, str) and a in ex.rows[setname]:
                continue
            rt, u, ms = seq_combo(rng)
            out.append(seq_get(setname, rng.choice(targets), a, ("nonelement", None), rt, u, ms))
    rng.shuffle(out)
    return out


def seq_keys(targets):
    return [{"do": "keys", "set": s, "target": t} for s in SETS for t in targets]


def seq_disturber(rng, ex: Expect, allow_fresh=True):
    """A random non-lookup call (possibly preceded by the creation of a secondary instance)."""
    setname = rng.choice(SETS)
    target = "fresh" if allow_fresh and rng.random() < 0.35 else "live"
    k = rng.choice(["wch", "wch", "wch", "strrep", "str", "new", "datum", "conn", "pt_header", "const_repr", "const_header", "scaled_conv"])
    if k == "scaled_conv":
        return {"do": "scaled_conv", "how": rng.choice(["quantity", "target", "datum", "units"]), "k": rng.choice([1.5, 2, 10, 0.5])}
    if k == "wch":
        return {"do": "wch", "set": setname, "target": target, "missing": rng.choice([None, 2.0, 0.0, 1.5, 9.99, round(rng.uniform(0.5, 5.0), 3)])}
    if k in ("strrep", "str"):
        return {"do": k, "set": setname, "target": target}
    if k == "new":
        return {"do": "new", "set": setname, "how": rng.choice(FRESH_HOW)}
    if k == "datum":
        tab = [sym for _, sym, _ in ex.elements if ex.element_text(setname, sym) is not None]
        arg = rng.choice(tab + [l for l in ex.rows[setname]])
        return {"do": "datum", "set": setname, "target": target, "arg": arg, "units": rng.choice(UNITS)}
    if k == "conn":
        return {"do": "conn", "symbols": [rng.choice(SEQ_SYMBOL_POOL) for _ in range(rng.randint(2, 7))], "spacing": rng.choice([1.2, 2.0, 3.5]), "threshold": rng.choice([1.2, 1.0, 1.6])}
    if k == "const_header":
        return {"do": "const_header", "context": rng.choice(["CODATA2014", "CODATA2018"])}
    return {"do": k}


def seq_all_disturbers(ex: Expect):
    """Every kind of non-lookup call once, as (setup steps, targets to probe afterwards)."""
    out = []
    for s in SETS:
        for ms in (None, 2.0, 0.0, 3.25):
            out.append(([{"do": "wch", "set": s, "target": "live", "missing": ms}], ["live", "fresh"]))
        for how in FRESH_HOW:
            out.append(([{"do": "new", "set": s, "how": how}], ["live", "fresh"]))
            out.append(([{"do": "new", "set": s, "how": how}, {"do": "wch", "set": s, "target": "fresh", "missing": None}], ["live", "fresh"]))
            out.append(([{"do": "new", "set": s, "how": how}, {"do": "strrep", "set": s, "target": "fresh"}], ["live", "fresh"]))
        out.append(([{"do": "strrep", "set": s, "target": "live"}], ["live"]))
        out.append(([{"do": "str", "set": s, "target": "live"}], ["live"]))
        tab = [sym for _, sym, _ in ex.elements if ex.element_text(s, sym) is not None]
        for arg, u in ((tab[0], "pm"), (tab[len(tab) // 2], "bohr"), (next(iter(ex.rows[s])), "angstrom")):
            out.append(([{"do": "datum", "set": s, "target": "live", "arg": arg, "units": u}], ["live"]))
    out.append(([{"do": "conn", "symbols": ["H", "C", "Fe", "X", "U", "Ru", "Og", "Xx", "kr84", "D"], "spacing": 2.0, "threshold": 1.2}], ["live"]))
    out.append(([{"do": "pt_header"}], ["live"]))
    out.append(([{"do": "const_repr"}], ["live"]))
    for c in ("CODATA2014", "CODATA2018"):
        out.append(([{"do": "const_header", "context": c}], ["live"]))
    for how, k in (("quantity", 1.5), ("target", 2), ("datum", 10), ("units", 2)):
        out.append(([{"do": "scaled_conv", "how": how, "k": k}], ["live", "fresh"]))
    return out


def seq_getseq(rng, ex: Expect):
    """The same few arguments looked up over and over with ALL option combinations in random order."""
    untab = {s: [e for e in ex.elements if ex.element_text(s, e[1]) is None] for s in SETS}
    tab = {s: [e for e in ex.elements if ex.element_text(s, e[1]) is not None] for s in SETS}
    picks = []  # (arg, expect per set)
    for s in SETS:
        for pool, n in ((untab[s], 3), (tab[s], 3)):
            for z, sym, name in rng.sample(pool, min(n, len(pool))):
                picks.append((seq_alias(rng, ex, z, sym, name), ("element", sym)))
                picks.append((sym, ("element", sym)))
    generic = sorted({k.split("_")[0] for k in ex.rows["c"] if "_" in k})
    for sym in rng.sample(generic, min(2, len(generic))):
        picks.append((sym, ("element", sym)))
    picks.append((rng.choice(["D", "T", "d", "t"]), ("element", "H")))
    steps = []
    for arg, expect in picks:
        for s in SETS:
            for rt in (False, True):
                for u in [None] + UNITS:
                    for ms in (None, seq_fallback(rng)):
                        steps.append(seq_get(s, "live", arg, expect, rt, u, ms))
    for s in SETS:
        labs = [l for l in ex.rows[s] if ex.is_special(s, l)]
        for lab in rng.sample(labs, min(2, len(labs))):
            for _ in range(8):
                rt, u, ms = seq_combo(rng)
                steps.append(seq_get(s, "live", lab, ("label", lab), rt, u, ms))
        for a in rng.sample(SEQ_NONELEMENTS, 3):
            if isinstance(a, str) and a in ex.rows[s]:
                continue
            for _ in range(6):
                rt, u, ms = seq_combo(rng)
                steps.append(seq_get(s, "live", a, ("nonelement", None), rt, u, ms))
    rng.shuffle(steps)
    return steps + seq_keys(["live"])


def gen_episodes(ctx: Ctx, ex: Expect):
    """-> list of (family, steps)"""
    rng = ctx.rng
    eps = [("S:no call before (live and secondary instance)", seq_sweep(rng, ex, ["live", "fresh"]) + seq_keys(["live", "fresh"]))]
    for setup, targets in seq_all_disturbers(ex):
        eps.append(("S:after one " + setup[-1]["do"], list(setup) + seq_sweep(rng, ex, targets) + seq_keys(targets)))
    for _ in range(ctx.scale(20, 200)):
        steps = []
        for _ in range(rng.randint(2, 6)):
            steps.append(seq_disturber(rng, ex))
            if rng.random() < 0.6:
                steps += seq_sweep(rng, ex, ["live", "fresh"], frac=0.12)
        steps += seq_sweep(rng, ex, ["live", "fresh"]) + seq_keys(["live", "fresh"])
        eps.append(("S:random calls interleaved", steps))
    for _ in range(ctx.scale(6, 50)):
        eps.append(("S:repeated lookups, varied options", seq_getseq(rng, ex)))
    return eps


def seq_shrink(ctx: Ctx, impl: Impl, ex: Expect, steps, i, kind):
    """Smallest prefix-subsequence of steps[:i] after which steps[i] still violates clause `kind`."""
    probe = steps[i]

    def fails(pre):
        recs = run_forked(ctx, impl, ex, [list(pre) + [probe]], jobs=1)[0]
        last = [r for r in recs if r["i"] == len(pre)]
        return bool(last) and any(b[0] == kind for b in last[0].get("bad", []))

    if fails([]):
        return [probe]
    pre = steps[:i]
    calls = [s for s in pre if s["do"] not in ("get", "keys")]
    if calls and len(calls) < len(pre) and fails(calls):
        pre = calls
    if len(pre) >= 2:
        pre = common.shrink_list(pre, fails, max_steps=60)
    return list(pre) + [probe]


def seq_signature(st):
    return ",".join(f"{k}={st[k]}" for k in sorted(st) if k != "do")


def digest_episode(impl: Impl, out: Outcome, family, steps, recs, model_lines, shrinker=None, budget=None):
    """Turn the records of one executed sequence into counts, violations and mismatches."""
    by_i = {r["i"]: r for r in recs}
    calls = []
    reported = set()
    sampled = False
    mi = iter(model_lines) if model_lines is not None else None
    for i, st in enumerate(steps):
        r = by_i.get(i)
        if st["do"] not in ("get", "keys"):
            calls.append(st["do"] + "(" + seq_signature(st) + ")")
            out.count("S:call:" + st["do"])
            if r is not None and "raised" in r:
                out.count("S:call raised:" + st["do"])
                out.notes.append(f"non-lookup call {calls[-1]} raised {r['raised']} (not a C17 clause; lookups after it are still checked)")
            continue
        ml = next(mi) if mi is not None else None
        ci = r["ci"]
        if st["do"] == "keys":
            out.evaluations += 1
            out.count("S:keys")
            if ml is not None and ml != ci and ("mismatch:keys", family) not in reported:
                reported.add(("mismatch:keys", family))
                out.mismatches.append(Finding("mismatch", {"op": "seq", "steps": steps[: i + 1]}, observed=ci, expected=ml,
                                              detail="table keys/order after a call sequence: implementation vs Lean model (whose tables are constants)"))
            continue
        out.evaluations += 1
        out.count("stream:" + family)
        out.count("S:target:" + st.get("target", "live"))
        out.nontrivial(("S", tuple(calls), st["set"], st.get("target", "live"), repr(st["arg"]), st["rt"], st["units"], st["missing"] is None))
        if not sampled and calls and ci.startswith("err DataUnavailable"):
            sampled = True
            out.sample({"stream": family, "calls before": list(calls), "lookup": {k: v for k, v in st.items() if k != "do"}, "impl": ci, "model": ml}, limit=3)
        for kind, msg in r["bad"]:
            if kind in reported:
                continue
            reported.add(kind)
            if budget is not None and budget[0] <= 0:
                out.count("S:violations not itemised")
                continue
            if budget is not None:
                budget[0] -= 1
            sub = shrinker(steps, i, kind) if shrinker is not None else steps[: i + 1]
            if len(sub) == 1 and sub[0].get("target", "live") == "live":
                c = {k: sub[0][k] for k in ("set", "arg", "rt", "units", "missing", "expect")}
                out.violations.append(Finding(kind, {"op": "get", **c}, observed=ci, detail=msg))
            else:
                ncalls = sum(1 for s in sub[:-1] if s["do"] not in ("get", "keys"))
                out.violations.append(Finding("oracle:sequence:" + kind.split(":", 1)[1], {"op": "seq", "steps": sub}, observed=ci,
                                              detail=f"{msg} — as the last call of a sequence of {len(sub)} call(s) ({ncalls} of them not lookups) in one fresh process"))
        if ml is not None and ml != ci and "mismatch" not in reported:
            reported.add("mismatch")
            out.mismatches.append(Finding("mismatch", {"op": "seq", "steps": steps[: i + 1]}, observed=ci, expected=ml,
                                          detail="get after a call sequence: implementation vs Lean model (stateless)"))


def seq_model_lines(impl: Impl, steps):
    return [get_line(impl, st) if st["do"] == "get" else f"keys {st['set']}" for st in steps if st["do"] in ("get", "keys")]


def numpy_identifier_stream(ctx: Ctx, out: Outcome, ex):
    """The atomic number held in a numpy scalar (an element of an int32 / int16 / uint8 / int64 / float32 / float64 array of atomic
    numbers) names the same atom as the Python int: same radius, same fallback, same exception class.  Oracle only."""
    import qcelemental as qcel

    rng = ctx.rng
    objs = {"c": qcel.covalentradii, "v": qcel.vdwradii}
    elems = [int(z) for z, _s, _n in ex.elements]
    for z in rng.sample(elems, min(len(elems), ctx.scale(40, 118))) + [len(elems), len(elems) + 5, 200]:
        for dt in ("int32", "int16", "uint8", "int64", "float32", "float64", "intp"):
            if dt == "uint8" and z > 255:
                continue
            for setname, obj in objs.items():
                for kw in ({}, {"missing": 2.5}, {"units": "angstrom"}, {"return_tuple": True}):
                    def call(a):
                        try:
                            r = obj.get(a, **kw)
                            return ("ok", (float(r.data), r.units) if kw.get("return_tuple") else float(r))
                        except Exception as e:  # noqa
                            return ("err", err_class(e))
                    want, got = call(int(z)), call(getattr(np, dt)(z))
                    out.evaluations += 1
                    out.count("numpy_identifier:" + dt)
                    if got != want:
                        out.violations.append(Finding("oracle:numpy_scalar_identifier", {"op": "npid", "set": setname, "z": int(z), "dtype": dt, "kw": kw}, observed=list(got), expected=list(want),
                                                      detail=f"get(numpy.{dt}({z})) differs from get({z})"))


def run(ctx: Ctx) -> Outcome:
    out = Outcome()
    impl, ex = Impl(), Expect()
    gets = list(gen_get_cases(ctx, ex))
    tous = list(gen_tou_cases(ctx))
    mks = [(k, v, n) for k, v in MK for n in (True, False)]
    # S first: this process has not made a single lookup yet, so every fork of it is a pristine process image
    episodes = gen_episodes(ctx, ex)
    seq_recs = run_forked(ctx, impl, ex, [st for _, st in episodes])
    # oracle findings are shrunk NOW, while this process is still pristine (the model is consulted afterwards)
    shrunk = {}

    def shrink_now(steps, i, kind):
        shrunk[(id(steps), i, kind)] = seq_shrink(ctx, impl, ex, steps, i, kind)
        return shrunk[(id(steps), i, kind)]

    pre_budget = [SEQ_ITEMISED]
    for (family, steps), recs in zip(episodes, seq_recs):
        if pre_budget[0] > 0 and any(r.get("bad") for r in recs):
            digest_episode(impl, Outcome(), family, steps, recs, None, shrinker=shrink_now, budget=pre_budget)
    numpy_identifier_stream(ctx, out, ex)
    import sideeffects

    sideeffects.exercise(out)  # the pristine-process block is done: header writers / printers / comparison reports now, before the exhaustive sweeps
    seq_lines = [seq_model_lines(impl, st) for _, st in episodes]
    lines = [get_line(impl, c) for _, c in gets] + [tou_line(impl, c) for c in tous] + [f"mk {k} {1 if n else 0}" for k, _, n in mks] + [f"keys {s}" for s in SETS]
    # streams with the DERIVED factor (generated after everything else, so the older streams of a seed are unchanged)
    pairs = [(a, b) for a in UNITS for b in UNITS]
    sure = [i for i, (tag, _) in enumerate(gets) if tag in ("A:symbol", "B:special label")]
    rest = [i for i, (tag, _) in enumerate(gets) if tag not in ("A:symbol", "B:special label")]
    gfull = sorted(sure + ctx.rng.sample(rest, min(len(rest), ctx.scale(1500, 15000))))
    lines_full = [factor_line(impl, a, b) for a, b in pairs] + [getfull_line(impl, gets[i][1]) for i in gfull] + [toufull_line(impl, c) for c in tous]
    flat = [l for ls in seq_lines for l in ls]
    # R: the bodies regenerated from the source, on every lookup / to_units case and both key listings
    lines_src = [srcget_line(impl, c) for _, c in gets] + [srctoufull_line(impl, c) for c in tous] + [f"srckeys {s}" for s in SETS]
    tou_reps = [{"op": "tou", "u1": c["u1"], "u2": c["u2"], "kind": c["kind"], "data": tou_replay_data(c)} for c in tous]
    nall = len(flat) + len(lines) + len(lines_full) + len(lines_src)
    model = ctx.run_model(DRIVER, flat + lines + lines_full + lines_src) if ctx.model_available else [None] * nall
    it = iter(model)
    off_get = len(flat)
    off_keys = off_get + len(gets) + len(tous) + len(mks)
    off_toufull = len(flat) + len(lines) + len(pairs) + len(gfull)
    off_src = len(flat) + len(lines) + len(lines_full)
    budget = [SEQ_ITEMISED]
    for (family, steps), recs, ls in zip(episodes, seq_recs, seq_lines):
        digest_episode(impl, out, family, steps, recs, [next(it) for _ in ls],
                       shrinker=lambda st, i, kind: shrunk.get((id(st), i, kind), st[: i + 1]), budget=budget)
    out.notes.append(f"call sequences: {len(episodes)} sequences, each executed in its own pristine fork; "
                     f"{sum(1 for _, st in episodes for x in st if x['do'] not in ('get', 'keys'))} non-lookup calls, {len(flat)} checked lookups / key listings")
    for tag, case in gets:
        check_get(impl, ex, out, tag, case, next(it))
    tou_models = [next(it) for _ in tous]
    for k, v, n in mks:
        check_mk(impl, out, k, v, n, next(it))
    for s in SETS:
        check_keys(impl, ex, out, s, next(it))
    # F: the factor itself, all 25 ordered pairs
    for a, b in pairs:
        check_factor(impl, ex, out, a, b, next(it))
    check_b2a_link(impl, ex, out)
    # G: get against the derived-factor model
    for i in gfull:
        check_getfull(impl, ex, out, gets[i][0], gets[i][1], next(it))
    # D + T: to_units against both models, and the payload before / after repeated calls
    for case, ml in zip(tous, tou_models):
        check_tou(impl, out, case, ml, next(it), ex)
    # R: source-derived bodies, three-way
    for i, (tag, case) in enumerate(gets):
        sl = model[off_src + i]
        if sl is not None:
            ci = canon(impl.get(case["set"], case["arg"], case["rt"], case["units"], case["missing"]))
            check_src(out, {"op": "get", **case}, sl, model[off_get + i], ci, "get")
    for j, case in enumerate(tous):
        check_src(out, tou_reps[j], model[off_src + len(gets) + j], model[off_toufull + j], None, "to_units")
    for j, sname in enumerate(SETS):
        check_src(out, {"op": "keys", "set": sname}, model[off_src + len(gets) + len(tous) + j], model[off_keys + j], None, "__init__ (keys)")
    # default unit is bohr: the context's factor agrees with its own bohr2angstroms
    f = impl.factor("angstrom", "bohr")
    out.evaluations += 1
    if f is None or abs(Fraction(f) * Fraction(impl.constants.bohr2angstroms) - 1) > Fraction(1, 10**14):
        out.violations.append(Finding("oracle:bohr_factor", {"op": "factor"}, observed=repr(f), detail="angstrom->bohr factor is not 1/bohr2angstroms of the context"))
    for u in UNITS:
        out.notes.append(f"factor angstrom->{u} from the implementation: {impl.factor('angstrom', u)!r}")
    out.exhaustive = True
    out.notes.append(
        f"exhaustive over {len(ex.elements)} element rows x alias forms x cases x 6 unit choices x missing x return_tuple x 2 sets"
        + ("" if ctx.thorough else "; nuclide labels sampled (8 per element, 6 of 24 combinations each) in the quick tier")
        + "; non-label spellings, non-elements, random ASCII and Datum payloads sampled from VERIF_SEED")
    return out


def _decode_data(case):
    k, d = case["kind"], case["data"]
    if k == "decimal":
        return Decimal(d)
    if k == "array":
        return np.array(d, dtype=float)
    return float.fromhex(d)


def replay(ctx: Ctx, case) -> Outcome:
    out = Outcome()
    impl, ex = Impl(), Expect()
    op = case.get("op") if isinstance(case, dict) else None
    if op == "npid":
        numpy_identifier_stream(ctx, out, ex)
        return out
    if op == "get":
        c = {k: case[k] for k in ("set", "arg", "rt", "units", "missing", "expect")}
        ml = ctx.run_model(DRIVER, [get_line(impl, c)])[0] if ctx.model_available else None
        check_get(impl, ex, out, "replay", c, ml)
        # the same argument against the other radius set (a second, genuine evaluation)
        c2 = dict(c, set="v" if c["set"] == "c" else "c")
        if c2["expect"][0] != "element":  # labels / non-elements are per set
            c2["expect"] = ["unknown", None]
        ml2 = ctx.run_model(DRIVER, [get_line(impl, c2)])[0] if ctx.model_available else None
        check_get(impl, ex, out, "replay:other set", c2, ml2)
        if ctx.model_available:
            for cc in (c, c2):
                check_getfull(impl, ex, out, "replay", cc, ctx.run_model(DRIVER, [getfull_line(impl, cc)])[0])
            for cc, mm in ((c, ml), (c2, ml2)):
                check_src(out, {"op": "get", **cc}, ctx.run_model(DRIVER, [srcget_line(impl, cc)])[0], mm,
                          canon(impl.get(cc["set"], cc["arg"], cc["rt"], cc["units"], cc["missing"])), "get")
        out.sample({"case": c, "impl": canon(impl.get(c["set"], c["arg"], c["rt"], c["units"], c["missing"])), "model": ml})
    elif op == "tou":
        c = {"u1": case["u1"], "u2": case["u2"], "kind": case["kind"], "data": _decode_data(case)}
        ml, fl = ctx.run_model(DRIVER, [tou_line(impl, c), toufull_line(impl, c)]) if ctx.model_available else (None, None)
        check_tou(impl, out, c, ml, fl, ex)
        if ctx.model_available:
            check_src(out, dict(case), ctx.run_model(DRIVER, [srctoufull_line(impl, c)])[0], fl, None, "to_units")
        # the same payload in the reverse direction (a second, genuine evaluation)
        if c["u2"] is not None and c["u2"] != c["u1"]:
            c2 = dict(c, u1=c["u2"], u2=c["u1"], data=_decode_data(case))
            ml2, fl2 = ctx.run_model(DRIVER, [tou_line(impl, c2), toufull_line(impl, c2)]) if ctx.model_available else (None, None)
            check_tou(impl, out, c2, ml2, fl2, ex)
    elif op == "factor":
        for a, b in ((case["src"], case["dst"]), (case["dst"], case["src"])):
            ml = ctx.run_model(DRIVER, [factor_line(impl, a, b)])[0] if ctx.model_available else None
            check_factor(impl, ex, out, a, b, ml)
    elif op == "b2a":
        check_b2a_link(impl, ex, out)
        ml = ctx.run_model(DRIVER, [factor_line(impl, "angstrom", "bohr")])[0] if ctx.model_available else None
        check_factor(impl, ex, out, "angstrom", "bohr", ml)
    elif op == "mk":
        val = dict(MK)[case["kind"]]
        ml = ctx.run_model(DRIVER, [f"mk {case['kind']} {1 if case['numeric'] else 0}"])[0] if ctx.model_available else None
        check_mk(impl, out, case["kind"], val, case["numeric"], ml)
    elif op == "keys":
        ml = ctx.run_model(DRIVER, [f"keys {case['set']}"])[0] if ctx.model_available else None
        check_keys(impl, ex, out, case["set"], ml)
        if ctx.model_available:
            check_src(out, dict(case), ctx.run_model(DRIVER, [f"srckeys {case['set']}"])[0], ml, None, "__init__ (keys)")
    elif op == "seq":
        # this replay process is itself pristine: run the recorded calls here, in order, then consult the model
        steps = case["steps"]
        recs = exec_steps(impl, ex, steps)
        ml = ctx.run_model(DRIVER, seq_model_lines(impl, steps)) if ctx.model_available else None
        digest_episode(impl, out, "replay:sequence", steps, recs, ml)
        last = [r for r in recs if r["i"] == len(steps) - 1]
        out.sample({"calls": [st["do"] + "(" + seq_signature(st) + ")" for st in steps], "impl (last call)": last[0].get("ci") if last else None})
    else:
        return run(ctx)
    return out
