"""C13 translator: qcelemental/models/align.py (class AlignmentMill)  ->  lean/QcelVerif/Gen/MillSrc.lean

Reads the eight `align_*` methods of `AlignmentMill` by `ast` on every run and symbolically executes each method body
into ONE term of the array-expression AST of lean/QcelVerif/Model/MillAst.lean (`Expr n m shape`), in source order:

  * straight-line assignments are substituted (a name stands for the expression last assigned to it);
  * `np.copy(x)` / `np.asarray(x)` / `np.array(x)` are the identity on VALUES (aliasing is outside the AST; an in-place
    statement is accepted only on a name that owns a fresh array - the result of a call / operator / fancy index - never on
    an alias such as `frame = self.rotation`);
  * `x[:, c] *= lit` -> `scaleCol c lit x`;  `x.dot(y)` / `np.dot(x, y)` -> `dotRM/dotVM/dotMM` by the inferred shapes;
    `.T` -> `transposeM`; `x + v`, `x - v` -> `addRow/subRow`; `x[self.atommap]`, `x[self.atommap, :]`, `x[:, self.atommap]`,
    `x[np.ix_(self.atommap, self.atommap)]` -> `takeRows/takeAtoms/takeBlk0/takeBlk1/takeIx`; `np.diag([a, b, c])` -> `diag3`;
    `np.zeros_like(x)` -> `zerosLikeBlk`; `blockwise_expand(h, (3, 3), False)` -> `expand33`; `blockwise_contract(b)` -> `contract`;
  * `if self.mirror:` / `if reverse:` (with or without `else`): both branches are executed on copies of the bindings and every
    name whose value differs afterwards becomes `ite cond then else`;
  * `nat = X.shape[0]; for i in range(nat): for j in range(nat): T[i, j] = <expr reading X[i, j]>` -> `forBlocks T X <expr>`;
  * `nat = mu_x.shape[0] // 3; out = np.zeros((3, 3 * nat)); D = np.zeros((3, 3)); for at in range(nat): …` with
    `D.fill(0)`, `D[r, :] = mu_a[3 * self.atommap[at] : 3 * self.atommap[at] + 3]`, `D[:] = <expr>`,
    `out[r, 3 * at : 3 * at + 3] = D[r, :]` -> `forAtoms argMu r0 r1 r2` (a scratch row that is read must have been written
    earlier in the SAME iteration, otherwise the value would be loop-carried: Unsupported);
  * `self.align_coordinates(<own argument>, reverse=reverse)` / `self.align_atoms(<own argument>)` collected into the returned
    tuple (align_system, align_mini_system) -> a list of `SysComp`.

The shapes of the method arguments are declared in ARG_SHAPES below (they are the shapes inside the property's quantifier);
every other shape is inferred, and re-checked by Lean's type checker when the generated file is elaborated.
Anything else fails loudly (`Unsupported: align.py:<line>: …`): the check then reports a broken obligation.  Never guesses.
"""
from __future__ import annotations

import ast
import copy

import common


class Unsupported(Exception):
    pass


FILE = "qcelemental/models/align.py"


def fail(node, msg):
    src = ""
    try:
        src = ast.unparse(node)[:140]
    except Exception:  # noqa
        pass
    raise Unsupported(f"Unsupported: {FILE}:{getattr(node, 'lineno', '?')}: {msg}: {src}")


# method -> (positional argument shapes, has keyword `reverse`, returned shape)
ARG_SHAPES = {
    "align_coordinates": ({"geom": ("rows", "n")}, True, ("rows", "m")),
    "align_atoms": ({"ats": ("atoms", "n")}, False, ("atoms", "m")),
    "align_vector": ({"vec": ("vec3",)}, False, ("vec3",)),
    "align_gradient": ({"grad": ("rows", "n")}, False, ("rows", "m")),
    "align_hessian": ({"hess": ("flat", "n", "n")}, False, ("flat", "m", "m")),
    "align_vector_gradient": ({"mu_derivatives": ("mu", "n")}, False, ("mu", "n")),
}
SYS_METHODS = ["align_system", "align_mini_system"]
ARG_LEAN = {"rows": ".argRows", "atoms": ".argAtoms", "vec3": ".argVec", "flat": ".argHess", "mu": ".argMu"}


def sh_lean(sh):
    return "." + sh[0] if len(sh) == 1 else "(." + sh[0] + " " + " ".join(sh[1:]) + ")"


class V:  # an array-valued expression
    def __init__(self, shape, lean):
        self.shape, self.lean = tuple(shape), lean

    def __eq__(self, o):
        return isinstance(o, V) and o.shape == self.shape and o.lean == self.lean


class Dim:  # a symbolic length: 'n' or 'm'
    def __init__(self, sym):
        self.sym = sym

    def __eq__(self, o):
        return isinstance(o, Dim) and o.sym == self.sym


class Dim3:  # 3 * k (length of one of the three (3k,) arrays)
    def __init__(self, sym):
        self.sym = sym

    def __eq__(self, o):
        return isinstance(o, Dim3) and o.sym == self.sym


class CondV:
    def __init__(self, name):
        self.name = name

    def __eq__(self, o):
        return isinstance(o, CondV) and o.name == self.name


class AtomMap:
    def __eq__(self, o):
        return isinstance(o, AtomMap)


class MuRow:  # mu_a of `mu_x, mu_y, mu_z = mu_derivatives`
    def __init__(self, a, src):
        self.a, self.src = a, src

    def __eq__(self, o):
        return isinstance(o, MuRow) and (o.a, o.src) == (self.a, self.src)


STALE, ZERO = "stale", "zero"


class Scratch:  # np.zeros((3, 3)) that is filled row by row
    def __init__(self):
        self.rows = [ZERO, ZERO, ZERO]
        self.whole = None

    def __eq__(self, o):
        return isinstance(o, Scratch) and o.rows == self.rows and o.whole == self.whole


class OutMu:  # np.zeros((3, 3 * nat)) that is filled segment by segment inside the atom loop
    def __init__(self, sym):
        self.sym = sym
        self.seg = [None, None, None]

    def __eq__(self, o):
        return isinstance(o, OutMu) and o.sym == self.sym and o.seg == self.seg


class SysCompV:
    def __init__(self, lean):
        self.lean = lean

    def __eq__(self, o):
        return isinstance(o, SysCompV) and o.lean == self.lean


class Bind:
    def __init__(self, val, owned):
        self.val, self.owned = val, owned


class Loop:
    def __init__(self, kind, **kw):
        self.kind = kind
        self.src = None
        self.__dict__.update(kw)


class Tx:
    """symbolic executor of one method"""

    def __init__(self, name, params, has_reverse, sys_params=None):
        self.name = name
        self.env = {}
        self.m_is_n = False
        self.loop = None
        self.sys_params = sys_params
        for p, sh in params.items():
            self.env[p] = Bind(V(sh, ARG_LEAN[sh[0]]), False)
        if has_reverse:
            self.env["reverse"] = Bind(CondV("reverse"), False)

    # ---- literals -------------------------------------------------------------------------------------------------
    def lit(self, node):
        v = None
        if isinstance(node, ast.Constant) and isinstance(node.value, (int, float)) and not isinstance(node.value, bool):
            v = node.value
        elif isinstance(node, ast.UnaryOp) and isinstance(node.op, ast.USub) and isinstance(node.operand, ast.Constant) \
                and isinstance(node.operand.value, (int, float)) and not isinstance(node.operand.value, bool):
            v = -node.operand.value
        if v == 0:
            return ".zero"
        if v == 1:
            return ".one"
        if v == -1:
            return ".negOne"
        fail(node, "scalar literal other than 0, 1, -1")

    def int_const(self, node):
        if isinstance(node, ast.Constant) and isinstance(node.value, int) and not isinstance(node.value, bool):
            return node.value
        return None

    @staticmethod
    def is_full_slice(node):
        return isinstance(node, ast.Slice) and node.lower is None and node.upper is None and node.step is None

    def is_self_attr(self, node, attr):
        return isinstance(node, ast.Attribute) and isinstance(node.value, ast.Name) and node.value.id == "self" and node.attr == attr

    def is_np(self, node, fn):
        return isinstance(node, ast.Attribute) and isinstance(node.value, ast.Name) and node.value.id == "np" and node.attr == fn

    # ---- expressions ----------------------------------------------------------------------------------------------
    def look(self, node):
        if node.id not in self.env:
            fail(node, f"unknown name '{node.id}'")
        return self.env[node.id].val

    def arr(self, node, want=None):
        v = self.tx(node)
        if isinstance(v, Scratch):
            v = self.scratch_value(v, node)
        if not isinstance(v, V):
            fail(node, "not an array expression")
        if want is not None and v.shape[0] != want:
            fail(node, f"expected shape kind {want}, inferred {v.shape}")
        return v

    def scratch_value(self, s, node):
        if s.whole is not None:
            return s.whole
        for r in s.rows:
            if r is STALE:
                fail(node, "scratch array read before it is written in this loop iteration (loop-carried value)")
            if r is ZERO:
                fail(node, "scratch array read while a row is still zero (no zero-row construct in the AST)")
        return V(("mat3",), "(.ofRows " + " ".join(r.lean for r in s.rows) + ")")

    def dot(self, node, a, b):
        if b.shape != ("mat3",):
            fail(node, f"dot with a right operand of shape {b.shape}")
        if a.shape[0] == "rows":
            return V(a.shape, f"(.dotRM {a.lean} {b.lean})")
        if a.shape == ("vec3",):
            return V(a.shape, f"(.dotVM {a.lean} {b.lean})")
        if a.shape == ("mat3",):
            return V(a.shape, f"(.dotMM {a.lean} {b.lean})")
        fail(node, f"dot with a left operand of shape {a.shape}")

    def tx(self, node):
        if isinstance(node, ast.Name):
            return self.look(node)
        if isinstance(node, ast.Attribute):
            if self.is_self_attr(node, "rotation"):
                return V(("mat3",), ".rotation")
            if self.is_self_attr(node, "shift"):
                return V(("vec3",), ".shift")
            if self.is_self_attr(node, "atommap"):
                return AtomMap()
            if self.is_self_attr(node, "mirror"):
                return CondV("mirror")
            if node.attr == "T":
                a = self.arr(node.value)
                if a.shape != ("mat3",):
                    fail(node, f".T of shape {a.shape}")
                return V(("mat3",), f"(.transposeM {a.lean})")
            fail(node, "attribute")
        if isinstance(node, ast.BinOp):
            return self.binop(node)
        if isinstance(node, ast.Call):
            return self.call(node)
        if isinstance(node, ast.Subscript):
            return self.subscript(node)
        fail(node, "expression")

    def binop(self, node):
        if isinstance(node.op, (ast.Add, ast.Sub)):
            a, b = self.tx(node.left), self.tx(node.right)
            if isinstance(a, V) and isinstance(b, V) and a.shape[0] == "rows" and b.shape == ("vec3",):
                return V(a.shape, f"({'.addRow' if isinstance(node.op, ast.Add) else '.subRow'} {a.lean} {b.lean})")
            fail(node, "+/- other than (k,3) array with a (3,) vector on the right")
        if isinstance(node.op, ast.FloorDiv):
            a = self.tx(node.left)
            if isinstance(a, Dim3) and self.int_const(node.right) == 3:
                return Dim(a.sym)
            fail(node, "// other than <length of a (3k,) array> // 3")
        fail(node, "binary operator")

    def call(self, node):
        f = node.func
        kw = {k.arg: k.value for k in node.keywords}
        if (self.is_np(f, "copy") or self.is_np(f, "asarray") or self.is_np(f, "array")) and len(node.args) == 1 and not kw:
            return self.arr(node.args[0])
        if self.is_np(f, "dot") and len(node.args) == 2 and not kw:
            return self.dot(node, self.arr(node.args[0]), self.arr(node.args[1]))
        if isinstance(f, ast.Attribute) and f.attr == "dot" and len(node.args) == 1 and not kw:
            return self.dot(node, self.arr(f.value), self.arr(node.args[0]))
        if self.is_np(f, "diag") and len(node.args) == 1 and not kw and isinstance(node.args[0], ast.List) and len(node.args[0].elts) == 3:
            return V(("mat3",), "(.diag3 " + " ".join(self.lit(e) for e in node.args[0].elts) + ")")
        if self.is_np(f, "zeros_like") and len(node.args) == 1 and not kw:
            a = self.arr(node.args[0], "blk")
            return V(a.shape, f"(.zerosLikeBlk {a.lean})")
        if self.is_np(f, "zeros") and len(node.args) == 1 and not kw and isinstance(node.args[0], ast.Tuple) and len(node.args[0].elts) == 2:
            e0, e1 = node.args[0].elts
            if self.int_const(e0) == 3 and self.int_const(e1) == 3:
                return Scratch()
            if self.int_const(e0) == 3 and isinstance(e1, ast.BinOp) and isinstance(e1.op, ast.Mult) and self.int_const(e1.left) == 3:
                d = self.tx(e1.right)
                if isinstance(d, Dim):
                    return OutMu(d.sym)
            fail(node, "np.zeros of a shape other than (3, 3) / (3, 3 * nat)")
        if isinstance(f, ast.Name) and f.id == "blockwise_expand" and len(node.args) == 3 and not kw:
            a = self.arr(node.args[0], "flat")
            bs = node.args[1]
            if not (isinstance(bs, ast.Tuple) and [self.int_const(e) for e in bs.elts] == [3, 3]):
                fail(node, "blockwise_expand with a block shape other than (3, 3)")
            if not (isinstance(node.args[2], ast.Constant) and node.args[2].value is False):
                fail(node, "blockwise_expand with aslist other than False")
            return V(("blk",) + a.shape[1:], f"(.expand33 {a.lean})")
        if isinstance(f, ast.Name) and f.id == "blockwise_contract" and len(node.args) == 1 and not kw:
            a = self.arr(node.args[0], "blk")
            return V(("flat",) + a.shape[1:], f"(.contract {a.lean})")
        if self.sys_params is not None and isinstance(f, ast.Attribute) and isinstance(f.value, ast.Name) and f.value.id == "self":
            return self.method_call(node, f.attr, kw)
        fail(node, "call")

    def method_call(self, node, meth, kw):
        if len(node.args) != 1 or not isinstance(node.args[0], ast.Name) or node.args[0].id not in self.sys_params:
            fail(node, "method call whose argument is not one of the caller's own positional arguments")
        pos = self.sys_params.index(node.args[0].id)
        if meth == "align_coordinates":
            if not kw:
                return SysCompV(f".coords {pos} false")
            if list(kw) == ["reverse"] and isinstance(kw["reverse"], ast.Name) and kw["reverse"].id == "reverse" and "reverse" in self.env:
                return SysCompV(f".coords {pos} true")
            fail(node, "align_coordinates called with keywords other than reverse=reverse")
        if meth == "align_atoms" and not kw:
            return SysCompV(f".atoms {pos}")
        fail(node, "method call")

    def is_atommap(self, node):
        return self.is_self_attr(node, "atommap")

    def subscript(self, node):
        sl = node.slice
        base = self.tx(node.value)
        # X.shape[0]
        if isinstance(node.value, ast.Attribute) and node.value.attr == "shape":
            fail(node, "shape")  # handled in tx_shape (never reached: .shape is resolved below)
        if isinstance(base, MuRow):
            return self.mu_segment(node, base)
        if isinstance(base, Scratch):
            if isinstance(sl, ast.Tuple) and len(sl.elts) == 2 and self.int_const(sl.elts[0]) in (0, 1, 2) and self.is_full_slice(sl.elts[1]):
                r = self.int_const(sl.elts[0])
                if base.whole is not None:
                    return V(("vec3",), f"(.rowOf {r} {base.whole.lean})")
                if base.rows[r] is STALE:
                    fail(node, "scratch row read before it is written in this loop iteration (loop-carried value)")
                if base.rows[r] is ZERO:
                    fail(node, "scratch row read while still zero")
                return base.rows[r]
            fail(node, "subscript of the (3,3) scratch array other than [r, :]")
        if not isinstance(base, V):
            fail(node, "subscript of a non-array")
        k = base.shape[0]
        # loop block X[iat, jat]
        if self.loop is not None and self.loop.kind == "blocks" and isinstance(sl, ast.Tuple) and len(sl.elts) == 2 \
                and all(isinstance(e, ast.Name) for e in sl.elts):
            if [e.id for e in sl.elts] != [self.loop.i, self.loop.j]:
                fail(node, "block subscript other than [<outer loop index>, <inner loop index>]")
            if base.shape != ("blk", self.loop.sym, self.loop.sym):
                fail(node, f"block subscript of an array of shape {base.shape}")
            if self.loop.src is not None and not (self.loop.src == base):
                fail(node, "a second source array inside the block loop")
            self.loop.src = base
            return V(("mat3",), ".cur")
        if self.is_atommap(sl) or (isinstance(sl, ast.Tuple) and len(sl.elts) == 2 and self.is_atommap(sl.elts[0]) and self.is_full_slice(sl.elts[1])):
            plain = self.is_atommap(sl)
            if k == "rows" and base.shape[1] == "n":
                return V(("rows", "m"), f"(.takeRows {base.lean})")
            if k == "atoms" and base.shape[1] == "n" and plain:
                return V(("atoms", "m"), f"(.takeAtoms {base.lean})")
            if k == "blk" and base.shape[1] == "n":
                return V(("blk", "m", base.shape[2]), f"(.takeBlk0 {base.lean})")
            fail(node, f"[self.atommap] on an array of shape {base.shape}")
        if isinstance(sl, ast.Tuple) and len(sl.elts) == 2 and self.is_full_slice(sl.elts[0]) and self.is_atommap(sl.elts[1]):
            if k == "blk" and base.shape[2] == "n":
                return V(("blk", base.shape[1], "m"), f"(.takeBlk1 {base.lean})")
            fail(node, f"[:, self.atommap] on an array of shape {base.shape}")
        if isinstance(sl, ast.Call) and self.is_np(sl.func, "ix_") and len(sl.args) == 2 and not sl.keywords \
                and all(self.is_atommap(a) for a in sl.args):
            if base.shape == ("blk", "n", "n"):
                return V(("blk", "m", "m"), f"(.takeIx {base.lean})")
            fail(node, f"[np.ix_(atommap, atommap)] on an array of shape {base.shape}")
        fail(node, "subscript")

    def three_times(self, node, what):
        """node is `3 * <what>`; returns True if so"""
        return isinstance(node, ast.BinOp) and isinstance(node.op, ast.Mult) and self.int_const(node.left) == 3 and what(node.right)

    def seg_slice(self, sl, what):
        """`3 * w : 3 * w + 3`"""
        return isinstance(sl, ast.Slice) and sl.step is None and sl.lower is not None and sl.upper is not None \
            and self.three_times(sl.lower, what) and isinstance(sl.upper, ast.BinOp) and isinstance(sl.upper.op, ast.Add) \
            and self.three_times(sl.upper.left, what) and self.int_const(sl.upper.right) == 3

    def mu_segment(self, node, base):
        if self.loop is None or self.loop.kind != "atoms":
            fail(node, "segment of a vector-derivative row outside the atom loop")

        def map_at(n):
            return isinstance(n, ast.Subscript) and self.is_atommap(n.value) and isinstance(n.slice, ast.Name) and n.slice.id == self.loop.var

        if not self.seg_slice(node.slice, map_at):
            fail(node, "slice other than [3 * self.atommap[at] : 3 * self.atommap[at] + 3]")
        if base.src.shape != ("mu", self.loop.sym):
            fail(node, "segment source of another size than the loop range")
        if self.loop.src is not None and not (self.loop.src == base.src):
            fail(node, "a second source inside the atom loop")
        self.loop.src = base.src
        self.m_is_n = True  # the loop index (range over n atoms) subscripts self.atommap
        return V(("vec3",), f"(.curRow {base.a})")

    def shape_of(self, node):
        """X.shape[0] as a symbolic length"""
        if isinstance(node, ast.Subscript) and isinstance(node.value, ast.Attribute) and node.value.attr == "shape" and self.int_const(node.slice) == 0:
            x = self.tx(node.value.value)
            if isinstance(x, V) and x.shape[0] in ("blk", "rows"):
                return Dim(x.shape[1])
            if isinstance(x, MuRow):
                return Dim3(x.src.shape[1])
            fail(node, "shape[0] of this value")
        return None

    # ---- statements -----------------------------------------------------------------------------------------------
    def rhs_owned(self, node):
        return isinstance(node, (ast.Call, ast.BinOp, ast.Subscript)) and not (isinstance(node, ast.Call) and self.is_np(node.func, "asarray"))

    def value_of(self, node):
        d = None
        if isinstance(node, ast.Subscript):
            d = self.shape_of(node)
        if d is None and isinstance(node, ast.BinOp) and isinstance(node.op, ast.FloorDiv):
            l = self.shape_of(node.left)
            if isinstance(l, Dim3) and self.int_const(node.right) == 3:
                return Dim(l.sym)
        if d is not None:
            return d
        return self.tx(node)

    def exec_block(self, stmts):
        """returns the returned value if a `return` was executed"""
        for i, st in enumerate(stmts):
            r = self.exec(st)
            if r is not None:
                if i != len(stmts) - 1:
                    fail(st, "statements after return")
                return r
        return None

    def exec(self, st):
        if isinstance(st, ast.Expr) and isinstance(st.value, ast.Constant) and isinstance(st.value.value, str):
            return None  # docstring
        if isinstance(st, ast.Return):
            if st.value is None:
                fail(st, "bare return")
            if isinstance(st.value, ast.Tuple):
                return [self.tx(e) for e in st.value.elts]
            v = self.tx(st.value)
            if isinstance(v, (Scratch,)):
                v = self.scratch_value(v, st)
            return v
        if isinstance(st, ast.Assign) and len(st.targets) == 1:
            return self.assign(st, st.targets[0], st.value)
        if isinstance(st, ast.AugAssign):
            return self.augassign(st)
        if isinstance(st, ast.If):
            return self.if_(st)
        if isinstance(st, ast.For):
            return self.for_(st)
        if isinstance(st, ast.Expr) and isinstance(st.value, ast.Call) and isinstance(st.value.func, ast.Attribute) and st.value.func.attr == "fill":
            c = st.value
            s = self.tx(c.func.value)
            if isinstance(s, Scratch) and len(c.args) == 1 and self.int_const(c.args[0]) == 0:
                s.rows, s.whole = [ZERO, ZERO, ZERO], None
                return None
            fail(st, "fill")
        fail(st, "statement")

    def assign(self, st, tgt, val):
        if isinstance(tgt, ast.Name):
            v = self.value_of(val)
            owned = self.rhs_owned(val)
            if isinstance(val, ast.Name) and val.id in self.env:
                self.env[val.id].owned = False  # two names for one array from now on
            self.env[tgt.id] = Bind(v, owned)
            return None
        if isinstance(tgt, ast.Tuple) and all(isinstance(e, ast.Name) for e in tgt.elts):
            v = self.tx(val)
            if isinstance(v, V) and v.shape[0] == "mu" and len(tgt.elts) == 3:
                for a, e in enumerate(tgt.elts):
                    self.env[e.id] = Bind(MuRow(a, v), False)
                return None
            fail(st, "tuple unpacking of something other than the three vector-derivative rows")
        if isinstance(tgt, ast.Subscript) and isinstance(tgt.value, ast.Name):
            name = tgt.value.id
            if name not in self.env:
                fail(st, f"unknown name '{name}'")
            b = self.env[name]
            sl = tgt.slice
            if isinstance(b.val, Scratch):
                if not b.owned:
                    fail(st, "write to an aliased scratch array")
                if isinstance(sl, ast.Tuple) and len(sl.elts) == 2 and self.int_const(sl.elts[0]) in (0, 1, 2) and self.is_full_slice(sl.elts[1]):
                    v = self.arr(val, "vec3")
                    if b.val.whole is not None:
                        fail(st, "row write after a whole-array write")
                    b.val.rows[self.int_const(sl.elts[0])] = v
                    return None
                if self.is_full_slice(sl):
                    v = self.arr(val, "mat3")
                    b.val.whole, b.val.rows = v, [None, None, None]
                    return None
                fail(st, "write to the scratch array other than D[r, :] = … / D[:] = …")
            if isinstance(b.val, OutMu):
                if self.loop is None or self.loop.kind != "atoms" or self.loop.sym != b.val.sym or not b.owned:
                    fail(st, "segment write outside the atom loop")
                if isinstance(sl, ast.Tuple) and len(sl.elts) == 2 and self.int_const(sl.elts[0]) in (0, 1, 2) \
                        and self.seg_slice(sl.elts[1], lambda n: isinstance(n, ast.Name) and n.id == self.loop.var):
                    r = self.int_const(sl.elts[0])
                    if b.val.seg[r] is not None:
                        fail(st, "segment written twice in one iteration")
                    b.val.seg[r] = self.arr(val, "vec3")
                    return None
                fail(st, "write other than out[r, 3 * at : 3 * at + 3] = …")
            if self.loop is not None and self.loop.kind == "blocks" and isinstance(b.val, V) and isinstance(sl, ast.Tuple) and len(sl.elts) == 2 \
                    and all(isinstance(e, ast.Name) for e in sl.elts) and [e.id for e in sl.elts] == [self.loop.i, self.loop.j]:
                if b.val.shape != ("blk", self.loop.sym, self.loop.sym) or not b.owned:
                    fail(st, "block write to an array that is not an owned (k,k,3,3) array of the loop's size")
                if self.loop.done:
                    fail(st, "second statement in the block loop")
                body = self.arr(val, "mat3")
                if self.loop.src is None:
                    fail(st, "block loop body that reads no source block")
                self.env[name] = Bind(V(b.val.shape, f"(.forBlocks {b.val.lean} {self.loop.src.lean} {body.lean})"), True)
                self.loop.done = True
                return None
        fail(st, "assignment target")

    def augassign(self, st):
        tgt = st.target
        if isinstance(st.op, ast.Mult) and isinstance(tgt, ast.Subscript) and isinstance(tgt.value, ast.Name) and isinstance(tgt.slice, ast.Tuple) \
                and len(tgt.slice.elts) == 2 and self.is_full_slice(tgt.slice.elts[0]) and self.int_const(tgt.slice.elts[1]) in (0, 1, 2):
            name = tgt.value.id
            if name not in self.env:
                fail(st, f"unknown name '{name}'")
            b = self.env[name]
            if not (isinstance(b.val, V) and b.val.shape[0] == "rows"):
                fail(st, "column scaling of something other than a (k,3) array")
            if not b.owned:
                fail(st, "in-place statement on a name that may alias another array (argument / recipe field / other name)")
            c = self.int_const(tgt.slice.elts[1])
            b.val = V(b.val.shape, f"(.scaleCol {c} {self.lit(st.value)} {b.val.lean})")
            return None
        fail(st, "augmented assignment")

    def if_(self, st):
        c = self.tx(st.test) if isinstance(st.test, (ast.Name, ast.Attribute)) else None
        if not isinstance(c, CondV):
            fail(st, "condition other than self.mirror / reverse")
        if self.loop is not None:
            fail(st, "if inside a loop")
        base = self.env
        envs = []
        for branch in (st.body, st.orelse):
            self.env = {k: Bind(copy.deepcopy(b.val) if isinstance(b.val, (Scratch, OutMu)) else b.val, b.owned) for k, b in base.items()}
            if self.exec_block(branch) is not None:
                fail(st, "return inside if")
            envs.append(self.env)
        merged = {}
        for k in set(envs[0]) | set(envs[1]):
            if k not in envs[0] or k not in envs[1]:
                continue  # defined on one path only: not usable afterwards (a later use fails as unknown name)
            a, b = envs[0][k], envs[1][k]
            if a.val == b.val:
                merged[k] = Bind(a.val, a.owned and b.owned)
            elif isinstance(a.val, V) and isinstance(b.val, V) and a.val.shape == b.val.shape:
                merged[k] = Bind(V(a.val.shape, f"(.ite .{c.name} {a.val.lean} {b.val.lean})"), a.owned and b.owned)
            else:
                fail(st, f"'{k}' has incompatible values after the two branches")
        self.env = merged
        return None

    def range_dim(self, node):
        if isinstance(node, ast.Call) and isinstance(node.func, ast.Name) and node.func.id == "range" and len(node.args) == 1 and not node.keywords:
            d = self.tx(node.args[0]) if isinstance(node.args[0], ast.Name) else None
            if isinstance(d, Dim):
                return d
        fail(node, "loop range other than range(<symbolic atom count>)")

    def for_(self, st):
        if st.orelse or not isinstance(st.target, ast.Name) or self.loop is not None:
            fail(st, "loop form")
        d = self.range_dim(st.iter)
        # nested block loop
        if len(st.body) == 1 and isinstance(st.body[0], ast.For):
            inner = st.body[0]
            if inner.orelse or not isinstance(inner.target, ast.Name) or inner.target.id == st.target.id:
                fail(inner, "loop form")
            if not (self.range_dim(inner.iter) == d):
                fail(inner, "inner loop range differs from the outer one")
            self.loop = Loop("blocks", i=st.target.id, j=inner.target.id, sym=d.sym, done=False)
            for s2 in inner.body:
                self.exec(s2)
            if not self.loop.done:
                fail(st, "block loop without a block assignment")
            self.loop = None
            return None
        # atom loop
        self.loop = Loop("atoms", var=st.target.id, sym=d.sym)
        for b in self.env.values():
            if isinstance(b.val, Scratch):
                b.val.rows, b.val.whole = [STALE, STALE, STALE], None
        outs = [b for b in self.env.values() if isinstance(b.val, OutMu)]
        for s2 in st.body:
            if self.exec(s2) is not None:
                fail(s2, "return inside a loop")
        if len(outs) != 1 or any(s is None for s in outs[0].val.seg) or outs[0].val.sym != d.sym:
            fail(st, "atom loop that does not fill all three rows of exactly one (3, 3*nat) output")
        if self.loop.src is None:
            fail(st, "atom loop that reads no source")
        o = outs[0]
        o.val = V(("mu", d.sym), f"(.forAtoms {self.loop.src.lean} " + " ".join(s.lean for s in o.val.seg) + ")")
        self.loop = None
        return None


def find_methods(tree):
    for node in tree.body:
        if isinstance(node, ast.ClassDef) and node.name == "AlignmentMill":
            return [n for n in node.body if isinstance(n, ast.FunctionDef)]
    raise Unsupported(f"Unsupported: {FILE}: class AlignmentMill not found")


def check_signature(fn, params, has_reverse):
    a = fn.args
    names = [x.arg for x in a.args]
    if names != ["self"] + list(params) or a.vararg or a.kwarg or a.posonlyargs or a.defaults:
        fail(fn, f"signature: positional parameters {names}, expected self + {list(params)}")
    kwn = [x.arg for x in a.kwonlyargs]
    if has_reverse:
        if kwn != ["reverse"] or not (isinstance(a.kw_defaults[0], ast.Constant) and a.kw_defaults[0].value is False):
            fail(fn, "signature: expected keyword-only reverse=False")
    elif kwn:
        fail(fn, "signature: unexpected keyword-only parameters")
    if fn.decorator_list:
        fail(fn, "decorated method")


def translate(source: str):
    """-> (list of (method name, lineno, lean signature, lean term), method-name list in source order)"""
    tree = ast.parse(source)
    methods = find_methods(tree)
    wanted = list(ARG_SHAPES) + SYS_METHODS
    order = [f.name for f in methods if f.name in wanted]
    for w in wanted:
        if order.count(w) != 1:
            raise Unsupported(f"Unsupported: {FILE}: method {w} defined {order.count(w)} times")
    out = []
    for fn in methods:
        if fn.name in ARG_SHAPES:
            params, has_rev, ret = ARG_SHAPES[fn.name]
            check_signature(fn, params, has_rev)
            t = Tx(fn.name, params, has_rev)
            r = t.exec_block(fn.body)
            if not isinstance(r, V):
                fail(fn, "method does not end in `return <array expression>`")
            ret_sh = tuple("n" if (t.m_is_n and x == "m") else x for x in ret)
            got = tuple("n" if (t.m_is_n and x == "m") else x for x in r.shape)
            if got != ret_sh:
                fail(fn, f"returned shape {r.shape}, expected {ret}")
            if t.m_is_n:
                sig = f"(n : Nat) : Expr n n {sh_lean(ret_sh)}"
            else:
                sig = f"(n m : Nat) : Expr n m {sh_lean(ret_sh)}"
            out.append((fn.name, fn.lineno, fn.end_lineno, "ast", sig, r.lean))
        elif fn.name in SYS_METHODS:
            a = fn.args
            names = [x.arg for x in a.args]
            if not names or names[0] != "self" or a.vararg or a.kwarg or a.posonlyargs or a.defaults or fn.decorator_list:
                fail(fn, "signature")
            kwn = [x.arg for x in a.kwonlyargs]
            if kwn != ["reverse"] or not (isinstance(a.kw_defaults[0], ast.Constant) and a.kw_defaults[0].value is False):
                fail(fn, "signature: expected keyword-only reverse=False")
            t = Tx(fn.name, {}, True, sys_params=names[1:])
            r = t.exec_block(fn.body)
            if not (isinstance(r, list) and r and all(isinstance(x, SysCompV) for x in r)):
                fail(fn, "method does not end in `return <tuple of align_coordinates / align_atoms results>`")
            out.append((fn.name, fn.lineno, fn.end_lineno, "sys", f"arity {len(names) - 1}", "[" + ", ".join(x.lean for x in r) + "]"))
    return out, order


def render(items, order, blockwise_text=""):
    L = []
    L.append("import QcelVerif.Model.MillAst")
    L.append("/-! GENERATED by harness/c13_src.py from qcelemental/models/align.py (class AlignmentMill)")
    L.append("and qcelemental/util/np_blockwise.py on every run -- do not edit.  One AST per method, in source order. -/")
    L.append("namespace QcelVerif.Mill.Src")
    L.append("open QcelVerif.Mill")
    L.append("")
    L.append("/-- the translated methods in source order -/")
    L.append("def methodNames : List String := [" + ", ".join('"%s"' % n for n in order) + "]")
    L.append("")
    for name, l0, l1, kind, sig, term in items:
        L.append(f"/-- align.py:{l0}-{l1} `{name}` -/")
        if kind == "ast":
            L.append(f"def genAST_{name} {sig} :=")
            L.append("  " + term.strip())
        else:
            L.append(f"def genSys_{name} : List SysComp :=")
            L.append("  " + term)
            L.append(f"/-- number of positional arguments of `{name}` -/")
            L.append(f"def genArity_{name} : Nat := {sig.split()[1]}")
        L.append("")
    if blockwise_text:
        L.append(blockwise_text)
    L.append("end QcelVerif.Mill.Src")
    return "\n".join(L) + "\n"


def gen_mill_src(ctx=None):
    src = (common.REPO / FILE).read_text()
    items, order = translate(src)
    import c13_src_blockwise  # second part: np_blockwise.py

    bw = c13_src_blockwise.translate_text()
    text = render(items, order, bw)
    out = common.LEAN / "QcelVerif" / "Gen" / "MillSrc.lean"
    if not out.exists() or out.read_text() != text:
        out.write_text(text)
    return text


if __name__ == "__main__":
    print(gen_mill_src())
