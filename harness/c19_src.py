"""C19 translator: qcelemental/testing.py  ->  lean/QcelVerif/Gen/CompareSrc.lean

Reads `_handle_return`, `compare_values`, `compare` and `_compare_recursive` by `ast` (never by importing) and emits
the DECISION SKELETON of each as a term of the AST of lean/QcelVerif/Model/CompareAst.lean:

  * `handleReturnSrc : Handler` - which parameter `_handle_return` tests and which ones it returns;
  * `compareValuesSrc / compareSrc : List Stmt` - in source order: the `return_handler` default, early returns with their
    condition and the boolean handed to the handler, the cast (which argument becomes xptd / cptd, when the dtype is complex),
    the shape test (operator and operands), `np.log10(atol)`, every `np.isclose(a, b, rtol=, atol=, equal_nan=)` with the array
    (and its sign) in each position and the expression given for each keyword, the aggregation (`np.all` / `.all()`), the guard
    of the `equal_phase` retry, `==` with its `try / except TypeError`, and the final return;
  * `compareRecursiveNodeSrc : RecProg` - the `isinstance` chain of `_compare_recursive` in source order with, per branch, the
    action: `!=` with / without `except ValueError`, a plain error entry, the list walk (length operator and operands, the
    roles of the zipped items), the dict walk (each `x.keys() - y.keys()` difference with the message it triggers, the
    intersection, the roles of the looked-up values), compare_values / compare leaves with the arguments in each position
    and the `equal_phase` forwarded, the `np.issubdtype(.dtype, np.floating)` switch, `is not` for None.

  * `compareRecursiveTopSrc : TopProg` - compare_recursive itself: the `atol <op> <bound>` refusal, the first recursion's arguments,
    then in source order the `equal_phase` stage (second recursion with its literal `equal_phase=`, the prefix list chosen on
    `is False` / `is True` / else, the filtering loop) and the `forgive` stage (prefix list for None / else, the loop); of a loop:
    whether it runs over `sorted(errors)`, the argument order of `_path_under`, the `not in n_errors` guard, `errors.remove`,
    `break`; and `_path_under` (equality term, separator).

Statements that only build the message text (string formatting, `diff`, `digits_str`, logging) are NOT part of the term;
the translator checks that they bind no name a recorded expression reads, contain no return / raise, and touch the recorded
arrays only by reading them (`.shape`, `.item()`, arithmetic).  That they do not raise is not proved (differential only).

Any other shape raises `Unsupported` (the run then reports a broken obligation) - never a guess.
"""
from __future__ import annotations

import ast
from pathlib import Path

import common


class Unsupported(Exception):
    pass


def fail(node, msg):
    src = ""
    try:
        src = ast.unparse(node)[:160]
    except Exception:  # noqa
        pass
    raise Unsupported(f"testing.py:{getattr(node, 'lineno', '?')}: {msg}: {src}")


ARGS = {"expected": ".expected", "computed": ".computed"}
ARRS = {"xptd": ".xptd", "cptd": ".cptd"}
FLAGS = {"equal_nan": ".equalNan", "equal_phase": ".equalPhase", "passnone": ".passnone"}
TOLS = {"atol": ".atol", "rtol": ".rtol"}
REPS = {"return_message": ".returnMessage", "quiet": ".quiet"}
HPARAMS = ["passfail", "label", "message", "return_message", "quiet"]
HPARAM_LEAN = {"passfail": ".passfail", "label": ".label", "message": ".message", "return_message": ".returnMessage", "quiet": ".quiet"}
CMPOPS = {ast.NotEq: ".ne", ast.Eq: ".eq", ast.Lt: ".lt", ast.LtE: ".le", ast.Gt: ".gt", ast.GtE: ".ge"}
# names a recorded (verdict-relevant) expression may read; message-only statements must not bind them
VERDICT_NAMES = set(ARGS) | set(ARRS) | set(FLAGS) | set(TOLS) | set(REPS) | {
    "allclose", "isclose", "n_isclose", "dtype", "computed_is_complex", "return_handler", "errors", "name", "prefix", "passfail",
    "mismatch", "atol", "rtol", "_prefix"}
VERDICT_ARRAYS = set(ARRS) | {"isclose", "n_isclose"}


def lb(b: bool) -> str:
    return "true" if b else "false"


def is_name(n, ident=None):
    return isinstance(n, ast.Name) and (ident is None or n.id == ident)


def is_np(n, attr):
    return isinstance(n, ast.Attribute) and is_name(n.value, "np") and n.attr == attr


def find_func(tree, name):
    for n in tree.body:
        if isinstance(n, ast.FunctionDef) and n.name == name:
            return n
    raise Unsupported(f"testing.py: function {name} not found")


def body_wo_doc(fn):
    b = list(fn.body)
    if b and isinstance(b[0], ast.Expr) and isinstance(b[0].value, ast.Constant) and isinstance(b[0].value.value, str):
        b = b[1:]
    return b


# ---- message-only statements ---------------------------------------------------------------------------------------
def _bound_names(target):
    if isinstance(target, ast.Name):
        return [target.id]
    if isinstance(target, ast.Subscript):
        return _bound_names(target.value)
    if isinstance(target, (ast.Tuple, ast.List)):
        return [x for t in target.elts for x in _bound_names(t)]
    fail(target, "assignment target not understood")


def _check_reads(node):
    """a message-only statement may READ the recorded arrays, nothing more"""
    for n in ast.walk(node):
        if isinstance(n, (ast.Return, ast.Raise, ast.Yield, ast.YieldFrom, ast.Delete, ast.Global, ast.Nonlocal, ast.NamedExpr,
                          ast.Break, ast.Continue, ast.FunctionDef, ast.Lambda, ast.Import, ast.ImportFrom, ast.Await)):
            fail(n, "control flow / binding form inside a message-only statement")
        if isinstance(n, ast.Attribute) and is_name(n.value) and n.value.id in VERDICT_ARRAYS and n.attr not in ("shape", "item"):
            fail(n, "message-only statement uses a recorded array other than by reading it")
        if isinstance(n, ast.keyword) and n.arg == "out":
            fail(n, "out= inside a message-only statement")


def msg_only(stmt, msg_names: set) -> bool:
    """True (and `msg_names` extended) when the statement only builds message text / logs"""
    if isinstance(stmt, (ast.Assign, ast.AugAssign, ast.AnnAssign)):
        targets = stmt.targets if isinstance(stmt, ast.Assign) else [stmt.target]
        names = [x for t in targets for x in _bound_names(t)]
        if any(n in VERDICT_NAMES for n in names):
            return False
        _check_reads(stmt)
        msg_names.update(names)
        return True
    if isinstance(stmt, ast.Expr) and isinstance(stmt.value, ast.Call):
        f = stmt.value.func
        ok_func = (isinstance(f, ast.Attribute) and is_name(f.value) and f.value.id in ("logging", "np", "pp", "pprint"))
        if not ok_func:
            return False
        for n in ast.walk(stmt.value):
            if is_name(n) and isinstance(n.ctx, ast.Load) and n.id in VERDICT_NAMES and n.id not in ("label",):
                return False
        _check_reads(stmt)
        return True
    if isinstance(stmt, ast.If):
        for n in ast.walk(stmt.test):
            if isinstance(n, ast.Call) and not (isinstance(n.func, ast.Attribute) and n.func.attr in ("item",)):
                return False
        return all(msg_only(s, msg_names) for s in stmt.body + stmt.orelse)
    if isinstance(stmt, ast.With):
        return all(msg_only(s, msg_names) for s in stmt.body)
    if isinstance(stmt, ast.Try):
        return all(msg_only(s, msg_names) for s in stmt.body + stmt.orelse + stmt.finalbody + [x for h in stmt.handlers for x in h.body])
    if isinstance(stmt, ast.Pass):
        return True
    return False


# ---- expressions ---------------------------------------------------------------------------------------------------
def flag_e(n) -> str:
    if isinstance(n, ast.Constant) and isinstance(n.value, bool):
        return f"(.lit {lb(n.value)})"
    if is_name(n) and n.id in FLAGS:
        return f"(.param {FLAGS[n.id]})"
    fail(n, "boolean option expression not understood")


def arg_of(n) -> str:
    if is_name(n) and n.id in ARGS:
        return ARGS[n.id]
    fail(n, "expected one of the data parameters expected / computed")


def arr_of(n) -> str:
    if is_name(n) and n.id in ARRS:
        return ARRS[n.id]
    fail(n, "expected one of the cast arrays xptd / cptd")


def opnd(n) -> str:
    if isinstance(n, ast.UnaryOp) and isinstance(n.op, ast.USub):
        return f"⟨{arr_of(n.operand)}, true⟩"
    return f"⟨{arr_of(n)}, false⟩"


def tol_of(n) -> str:
    if is_name(n) and n.id in TOLS:
        return TOLS[n.id]
    fail(n, "tolerance keyword is not one of the parameters atol / rtol")


def cmpop(op) -> str:
    if type(op) in CMPOPS:
        return CMPOPS[type(op)]
    raise Unsupported(f"comparison operator {type(op).__name__} not understood")


def nest(kind: str, parts: list) -> str:
    """right-nested binary term"""
    if len(parts) == 1:
        return parts[0]
    return f"(.{kind} {parts[0]} {nest(kind, parts[1:])})"


def cond(n) -> str:
    if isinstance(n, ast.BoolOp):
        return nest("and" if isinstance(n.op, ast.And) else "or", [cond(v) for v in n.values])
    if isinstance(n, ast.UnaryOp) and isinstance(n.op, ast.Not):
        return f"(.not {cond(n.operand)})"
    if is_name(n, "allclose"):
        return ".allclose"
    if (is_name(n) and n.id in FLAGS) or (isinstance(n, ast.Constant) and isinstance(n.value, bool)):
        return f"(.flag {flag_e(n)})"
    if isinstance(n, ast.Compare) and len(n.ops) == 1:
        l, r, op = n.left, n.comparators[0], n.ops[0]
        if isinstance(op, ast.Is) and isinstance(r, ast.Constant) and r.value is None:
            return f"(.isNone {arg_of(l)})"
        if isinstance(l, ast.Attribute) and isinstance(r, ast.Attribute) and l.attr == "shape" and r.attr == "shape":
            return f"(.shape {cmpop(op)} {arr_of(l.value)} {arr_of(r.value)})"
    if isinstance(n, ast.Call) and is_name(n.func, "hasattr") and len(n.args) == 2 and isinstance(n.args[1], ast.Constant) and n.args[1].value == "__neg__":
        return f"(.hasNeg {arr_of(n.args[0])})"
    fail(n, "condition not understood")


def test_expr(n) -> str:
    """np.isclose(a, b, rtol=, atol=, equal_nan=)  |  np.asarray(l == r)  |  l == r"""
    if isinstance(n, ast.Call) and is_np(n.func, "isclose"):
        if len(n.args) != 2:
            fail(n, "np.isclose needs exactly two positional arrays")
        kw = {k.arg: k.value for k in n.keywords}
        if set(kw) - {"rtol", "atol", "equal_nan"} or "rtol" not in kw or "atol" not in kw:
            fail(n, "np.isclose keywords must be rtol=, atol= [, equal_nan=] (numpy's own defaults are not modelled)")
        en = flag_e(kw["equal_nan"]) if "equal_nan" in kw else "(.lit false)"
        return f"(.isclose {opnd(n.args[0])} {opnd(n.args[1])} {tol_of(kw['rtol'])} {tol_of(kw['atol'])} {en})"
    if isinstance(n, ast.Call) and is_np(n.func, "asarray") and len(n.args) == 1 and not n.keywords:
        n = n.args[0]
    if isinstance(n, ast.Compare) and len(n.ops) == 1 and isinstance(n.ops[0], ast.Eq):
        return f"(.eq {opnd(n.left)} {opnd(n.comparators[0])})"
    fail(n, "element-wise test not understood")


def agg_of(n, tests: dict):
    """bool(np.all(NAME)) | bool(NAME.all())  (or any)  ->  (test term, agg)"""
    if not (isinstance(n, ast.Call) and is_name(n.func, "bool") and len(n.args) == 1 and not n.keywords):
        fail(n, "allclose must be bool(<aggregation>)")
    a = n.args[0]
    if isinstance(a, ast.Call) and isinstance(a.func, ast.Attribute) and a.func.attr in ("all", "any") and not a.keywords:
        if is_name(a.func.value, "np") and len(a.args) == 1 and is_name(a.args[0]):
            nm = a.args[0].id
        elif is_name(a.func.value) and not a.args:
            nm = a.func.value.id
        else:
            fail(n, "aggregation not understood")
        if nm not in tests:
            fail(n, f"aggregation over {nm}, which is not an element-wise test assigned just before")
        return tests[nm], "." + a.func.attr
    fail(n, "aggregation not understood")


def ret_call(stmt) -> str:
    if not (isinstance(stmt, ast.Return) and isinstance(stmt.value, ast.Call) and is_name(stmt.value.func, "return_handler")):
        fail(stmt, "expected `return return_handler(...)`")
    c = stmt.value
    if len(c.args) != 5 or c.keywords:
        fail(stmt, "return_handler must be called with five positional arguments")
    v = c.args[0]
    if isinstance(v, ast.Constant) and isinstance(v.value, bool):
        val = f"(.lit {lb(v.value)})"
    elif is_name(v, "allclose"):
        val = ".allclose"
    else:
        fail(v, "the boolean handed to the handler is neither a literal nor `allclose`")
    if not is_name(c.args[1], "label"):
        fail(c.args[1], "second handler argument is not `label`")
    for n in ast.walk(c.args[2]):
        if isinstance(n, ast.Call) and not (isinstance(n.func, ast.Attribute) and n.func.attr in ("format", "join")):
            fail(n, "call inside the message argument")
    reps = []
    for a in c.args[3:5]:
        if not (is_name(a) and a.id in REPS):
            fail(a, "handler arguments 4 / 5 are not the parameters return_message / quiet")
        reps.append(REPS[a.id])
    return f"⟨{val}, {reps[0]}, {reps[1]}⟩"


def only_return(body):
    """[return ...]  or  [if c: <only_return>] (no else): (list of conditions, return stmt)"""
    if len(body) == 1 and isinstance(body[0], ast.Return):
        return [], body[0]
    if len(body) == 1 and isinstance(body[0], ast.If) and not body[0].orelse:
        cs, r = only_return(body[0].body)
        return [body[0].test] + cs, r
    return None


# ---- _handle_return ------------------------------------------------------------------------------------------------
def tr_handle_return(fn) -> str:
    params = [a.arg for a in fn.args.args]
    if params != HPARAMS or fn.args.vararg or fn.args.kwarg or fn.args.kwonlyargs:
        fail(fn, f"_handle_return parameters are not {HPARAMS}")
    body = body_wo_doc(fn)
    msg_names: set = set()
    rest = []
    for s in body:
        if isinstance(s, ast.If) and msg_only(s, msg_names) and not msg_names:
            continue  # the logging block
        rest.append(s)
    if msg_names:
        fail(fn, "the logging block binds names")
    if len(rest) != 1 or not isinstance(rest[0], ast.If):
        fail(fn, "_handle_return must end with one `if <param>: return a, b  else: return c`")
    s = rest[0]

    def hp(n):
        if is_name(n) and n.id in HPARAM_LEAN:
            return HPARAM_LEAN[n.id]
        fail(n, "not a parameter of _handle_return")

    if not (len(s.body) == 1 and isinstance(s.body[0], ast.Return) and isinstance(s.body[0].value, ast.Tuple) and len(s.body[0].value.elts) == 2
            and len(s.orelse) == 1 and isinstance(s.orelse[0], ast.Return) and s.orelse[0].value is not None):
        fail(s, "_handle_return: return shape not understood")
    t = s.body[0].value.elts
    return f"⟨{hp(s.test)}, {hp(t[0])}, {hp(t[1])}, {hp(s.orelse[0].value)}⟩", s.lineno


# ---- compare_values / compare --------------------------------------------------------------------------------------
def is_np_array_call(n, want_dtype):
    """np.array(ARG[, dtype=dtype]) -> ARG term"""
    if not (isinstance(n, ast.Call) and is_np(n.func, "array") and len(n.args) == 1):
        fail(n, "cast is not np.array(<parameter>)")
    kw = {k.arg: k.value for k in n.keywords}
    if want_dtype:
        if set(kw) != {"dtype"} or not is_name(kw["dtype"], "dtype"):
            fail(n, "cast must pass dtype=dtype")
    elif kw:
        fail(n, "plain cast takes no keyword")
    return arg_of(n.args[0])


def tr_helper(fn, floaty: bool):
    """-> list of (lean stmt, lineno, source text)"""
    kwonly = [a.arg for a in fn.args.kwonlyargs]
    pos = [a.arg for a in fn.args.args]
    if pos != ["expected", "computed", "label"]:
        fail(fn, "positional parameters are not (expected, computed, label)")
    need = ["equal_phase", "quiet", "return_message", "return_handler"] + (["atol", "rtol", "equal_nan", "passnone"] if floaty else [])
    if sorted(kwonly) != sorted(need):
        fail(fn, f"keyword-only parameters are not {sorted(need)}")
    out = []
    msg_names: set = set()
    tests: dict = {}  # local name -> Test term of the element-wise test assigned to it
    cplx_locals: dict = {}  # local name -> Arg whose np.iscomplexobj it holds
    dtype_rule = None
    returned = False
    body = body_wo_doc(fn)

    def emit(term, node):
        out.append((term, node.lineno, ast.unparse(node).splitlines()[0][:110]))

    def iscomplex_arg(n):
        if isinstance(n, ast.Call) and is_np(n.func, "iscomplexobj") and len(n.args) == 1 and not n.keywords:
            return arg_of(n.args[0])
        if is_name(n) and n.id in cplx_locals:
            return cplx_locals[n.id]
        fail(n, "dtype condition term is neither np.iscomplexobj(<parameter>) nor a local holding one")

    for s in body:
        if returned:
            fail(s, "statement after the final return")
        # return_handler default
        if (isinstance(s, ast.If) and isinstance(s.test, ast.Compare) and is_name(s.test.left, "return_handler") and len(s.test.ops) == 1
                and isinstance(s.test.ops[0], ast.Is) and isinstance(s.test.comparators[0], ast.Constant) and s.test.comparators[0].value is None):
            if not (len(s.body) == 1 and not s.orelse and isinstance(s.body[0], ast.Assign) and is_name(s.body[0].targets[0], "return_handler")
                    and is_name(s.body[0].value, "_handle_return")):
                fail(s, "return_handler default not understood")
            emit(".defaultHandler", s)
            continue
        # early return(s)
        if isinstance(s, ast.If) and not s.orelse and only_return(s.body) is not None:
            cs, r = only_return(s.body)
            emit(f".ifReturn {nest('and', [cond(c) for c in [s.test] + cs])} {ret_call(r)}", s)
            continue
        # computed_is_complex = np.iscomplexobj(computed)  guarded by try/except -> False
        if (isinstance(s, ast.Try) and len(s.body) == 1 and isinstance(s.body[0], ast.Assign) and is_name(s.body[0].targets[0])
                and isinstance(s.body[0].value, ast.Call) and is_np(s.body[0].value.func, "iscomplexobj")):
            nm = s.body[0].targets[0].id
            h = s.handlers
            if not (len(h) == 1 and len(h[0].body) == 1 and isinstance(h[0].body[0], ast.Assign) and is_name(h[0].body[0].targets[0], nm)
                    and isinstance(h[0].body[0].value, ast.Constant) and h[0].body[0].value.value is False and not s.orelse and not s.finalbody):
                fail(s, "guarded np.iscomplexobj: the handler must assign False")
            cplx_locals[nm] = iscomplex_arg(s.body[0].value)
            continue
        # dtype selection
        if (isinstance(s, ast.If) and len(s.body) == 1 and len(s.orelse) == 1 and isinstance(s.body[0], ast.Assign) and is_name(s.body[0].targets[0], "dtype")):
            if not (is_name(s.body[0].value, "complex") and isinstance(s.orelse[0], ast.Assign) and is_name(s.orelse[0].targets[0], "dtype")
                    and is_name(s.orelse[0].value, "float")):
                fail(s, "dtype selection must be `dtype = complex` / else `dtype = float`")
            terms = s.test.values if isinstance(s.test, ast.BoolOp) and isinstance(s.test.op, ast.Or) else [s.test]
            dtype_rule = "[" + ", ".join(iscomplex_arg(t) for t in terms) + "]"
            continue
        # the cast
        if (isinstance(s, ast.Try) and len(s.body) == 1 and isinstance(s.body[0], ast.Assign) and isinstance(s.body[0].targets[0], ast.Tuple)
                and [getattr(t, "id", None) for t in s.body[0].targets[0].elts] in (["xptd", "cptd"], ["cptd", "xptd"])):
            a = s.body[0]
            if not (isinstance(a.value, ast.Tuple) and len(a.value.elts) == 2):
                fail(a, "cast must assign a pair")
            srcs = dict(zip([t.id for t in a.targets[0].elts], [is_np_array_call(v, floaty) for v in a.value.elts]))
            h = s.handlers
            if not (len(h) == 1 and is_name(h[0].type, "Exception") and len(h[0].body) == 1 and not s.orelse and not s.finalbody):
                fail(s, "cast: expected one `except Exception: return ...`")
            on_fail = ret_call(h[0].body[0])
            if floaty:
                if dtype_rule is None:
                    fail(s, "cast before the dtype selection")
                emit(f".castFloat {dtype_rule} {srcs['xptd']} {srcs['cptd']} {on_fail}", s)
            else:
                emit(f".castPlain {srcs['xptd']} {srcs['cptd']} {on_fail}", s)
            continue
        # element-wise test assigned to a local
        if isinstance(s, ast.Assign) and len(s.targets) == 1 and is_name(s.targets[0]) and s.targets[0].id in ("isclose", "n_isclose"):
            tests[s.targets[0].id] = test_expr(s.value)
            continue
        if isinstance(s, ast.Assign) and len(s.targets) == 1 and is_name(s.targets[0], "allclose"):
            t, g = agg_of(s.value, tests)
            emit(f".setAll {t} {g}", s)
            continue
        # the retry
        if isinstance(s, ast.If) and not s.orelse and any(is_name(n, "allclose") and isinstance(n.ctx, ast.Store) for n in ast.walk(s)):
            b = s.body
            catch = False
            if len(b) == 1 and isinstance(b[0], ast.Try):
                t = b[0]
                if not (len(t.handlers) == 1 and is_name(t.handlers[0].type, "TypeError") and len(t.handlers[0].body) == 1
                        and isinstance(t.handlers[0].body[0], ast.Pass) and not t.finalbody):
                    fail(t, "retry: expected `except TypeError: pass`")
                b = t.body + t.orelse
                catch = True
            if not (len(b) == 2 and isinstance(b[0], ast.Assign) and is_name(b[0].targets[0]) and b[0].targets[0].id in ("isclose", "n_isclose")
                    and isinstance(b[1], ast.Assign) and is_name(b[1].targets[0], "allclose")):
                fail(s, "retry body not understood")
            local = dict(tests)
            local[b[0].targets[0].id] = test_expr(b[0].value)
            t, g = agg_of(b[1].value, {b[0].targets[0].id: local[b[0].targets[0].id]})
            emit(f".ifSetAll {cond(s.test)} {t} {g} {lb(catch)}", s)
            continue
        # final return
        if isinstance(s, ast.Return):
            emit(f".ret {ret_call(s)}", s)
            returned = True
            continue
        # np.log10(<tol>) inside a message-only assignment
        logs = [n for n in ast.walk(s) if isinstance(n, ast.Call) and is_np(n.func, "log10")]
        if logs:
            if not (isinstance(s, ast.Assign) and len(logs) == 1 and len(logs[0].args) == 1 and msg_only(s, msg_names)):
                fail(s, "np.log10 use not understood")
            emit(f".log10 {tol_of(logs[0].args[0])}", s)
            continue
        if msg_only(s, msg_names):
            continue
        fail(s, "statement not understood")
    if not returned:
        fail(fn, "no final return")
    bad = msg_names & VERDICT_NAMES
    if bad:
        fail(fn, f"message-only statements bind recorded names {sorted(bad)}")
    return out


# ---- _compare_recursive --------------------------------------------------------------------------------------------
TYPES = {"str": ".str", "int": ".int", "bool": ".bool", "complex": ".complex", "list": ".list", "tuple": ".tuple", "bytes": ".bytes",
         "dict": ".dict", "float": ".float", "BaseModel": ".baseModel"}
NP_TYPES = {"bool_": ".npBool", "number": ".npNumber", "ndarray": ".ndarray"}
MESSAGES = [("Found extra keys", 0), ("Missing keys", 1), ("Value {} did not match", 2), ("Iterable lengths did not match", 3),
            ("Expected computed to have a __len__()", 3), ("Arrays differ.", 4), ("'None' does not match.", 5), ("Type ", 6),
            ("Expected computed to be a dict", 7), ("Expected computed to be a list or array", 8)]


def ty_of(n) -> list:
    if isinstance(n, ast.Tuple):
        return [x for e in n.elts for x in ty_of(e)]
    if is_name(n) and n.id in TYPES:
        return [TYPES[n.id]]
    if isinstance(n, ast.Attribute) and is_name(n.value, "np") and n.attr in NP_TYPES:
        return [NP_TYPES[n.attr]]
    if isinstance(n, ast.Call) and is_name(n.func, "type") and len(n.args) == 1 and isinstance(n.args[0], ast.Constant) and n.args[0].value is None:
        return [".noneType"]
    fail(n, "type not understood")


def guard(n) -> str:
    if isinstance(n, ast.BoolOp) and isinstance(n.op, ast.And):
        return nest("and", [guard(v) for v in n.values])
    neg = False
    if isinstance(n, ast.UnaryOp) and isinstance(n.op, ast.Not):
        neg, n = True, n.operand
    if isinstance(n, ast.Call) and is_name(n.func, "isinstance") and len(n.args) == 2 and not n.keywords:
        return f"(.{'notInst' if neg else 'inst'} {arg_of(n.args[0])} [{', '.join(ty_of(n.args[1]))}])"
    fail(n, "guard not understood")


def msg_tag(n) -> int:
    """leading literal text of the message expression -> tag"""
    text = None
    if isinstance(n, ast.Constant) and isinstance(n.value, str):
        text = n.value
    elif isinstance(n, ast.Call) and isinstance(n.func, ast.Attribute) and n.func.attr == "format" and isinstance(n.func.value, ast.Constant):
        text = n.func.value.value
    elif isinstance(n, ast.BinOp) and isinstance(n.op, ast.Add) and isinstance(n.left, ast.Constant):
        text = n.left.value
    elif isinstance(n, ast.JoinedStr) and n.values and isinstance(n.values[0], ast.Constant):
        text = n.values[0].value
    if isinstance(text, str):
        for pfx, tag in MESSAGES:
            if text.startswith(pfx):
                return tag
    fail(n, "error message not in the table of known messages")


def append_tag(stmt) -> int:
    """errors.append((name, <message>)) -> tag"""
    if not (isinstance(stmt, ast.Expr) and isinstance(stmt.value, ast.Call) and isinstance(stmt.value.func, ast.Attribute)
            and is_name(stmt.value.func.value, "errors") and stmt.value.func.attr == "append" and len(stmt.value.args) == 1
            and isinstance(stmt.value.args[0], ast.Tuple) and len(stmt.value.args[0].elts) == 2 and is_name(stmt.value.args[0].elts[0], "name")):
        fail(stmt, "expected errors.append((name, <message>))")
    return msg_tag(stmt.value.args[0].elts[1])


def ph_e(n) -> str:
    if is_name(n, "equal_phase"):
        return ".param"
    if isinstance(n, ast.Constant) and isinstance(n.value, bool):
        return f"(.lit {lb(n.value)})"
    fail(n, "equal_phase forwarded as something else")


def leaf_call(stmt, fname):
    """passfail, msg = <fname>(A, B, [atol=atol, rtol=rtol,] equal_phase=?, return_message=True, quiet=?) -> (A, B, ph)"""
    if not (isinstance(stmt, ast.Assign) and isinstance(stmt.targets[0], ast.Tuple) and len(stmt.targets[0].elts) == 2
            and is_name(stmt.targets[0].elts[0], "passfail") and isinstance(stmt.value, ast.Call) and is_name(stmt.value.func, fname)
            and len(stmt.value.args) == 2):
        fail(stmt, f"expected `passfail, msg = {fname}(a, b, ...)`")
    kw = {k.arg: k.value for k in stmt.value.keywords}
    allowed = {"equal_phase", "return_message", "quiet"} | ({"atol", "rtol"} if fname == "compare_values" else set())
    if set(kw) - allowed:
        fail(stmt, f"unexpected keywords {sorted(set(kw) - allowed)}")
    if fname == "compare_values" and not (is_name(kw.get("atol"), "atol") and is_name(kw.get("rtol"), "rtol")):
        fail(stmt, "atol=atol, rtol=rtol must be forwarded")
    rm = kw.get("return_message")
    if not (isinstance(rm, ast.Constant) and rm.value is True):
        fail(stmt, "return_message=True expected (the result is unpacked as a pair)")
    ph = ph_e(kw["equal_phase"]) if "equal_phase" in kw else "(.lit false)"
    return arg_of(stmt.value.args[0]), arg_of(stmt.value.args[1]), ph


def if_not_passfail(stmt) -> int:
    if not (isinstance(stmt, ast.If) and not stmt.orelse and isinstance(stmt.test, ast.UnaryOp) and isinstance(stmt.test.op, ast.Not)
            and is_name(stmt.test.operand, "passfail") and len(stmt.body) == 1):
        fail(stmt, "expected `if not passfail: errors.append(...)`")
    return append_tag(stmt.body[0])


def rec_call(stmt, env: dict, prefix_ok):
    """errors.extend(_compare_recursive(X, Y, _prefix=…, atol=atol, rtol=rtol, equal_phase=equal_phase)) -> (role of X, role of Y)"""
    if not (isinstance(stmt, ast.Expr) and isinstance(stmt.value, ast.Call) and isinstance(stmt.value.func, ast.Attribute)
            and is_name(stmt.value.func.value, "errors") and stmt.value.func.attr == "extend" and len(stmt.value.args) == 1
            and isinstance(stmt.value.args[0], ast.Call) and is_name(stmt.value.args[0].func, "_compare_recursive")):
        fail(stmt, "expected errors.extend(_compare_recursive(...))")
    c = stmt.value.args[0]
    kw = {k.arg: k.value for k in c.keywords}
    if len(c.args) != 2 or set(kw) != {"_prefix", "atol", "rtol", "equal_phase"}:
        fail(c, "nested call must be (item, item, _prefix=, atol=, rtol=, equal_phase=)")
    for k in ("atol", "rtol", "equal_phase"):
        if not is_name(kw[k], k):
            fail(c, f"{k} is not forwarded unchanged")
    if not prefix_ok(kw["_prefix"]):
        fail(c, "_prefix of the nested call not understood")
    return env(c.args[0]), env(c.args[1])


def keys_of(n) -> str:
    if isinstance(n, ast.Call) and isinstance(n.func, ast.Attribute) and n.func.attr == "keys" and not n.args:
        return arg_of(n.func.value)
    fail(n, "expected <parameter>.keys()")


def len_of(n) -> str:
    if isinstance(n, ast.Call) and is_name(n.func, "len") and len(n.args) == 1:
        return arg_of(n.args[0])
    fail(n, "expected len(<parameter>)")


def is_prefix_plus_str(n, var):
    return (isinstance(n, ast.BinOp) and isinstance(n.op, ast.Add) and is_name(n.left, "prefix") and isinstance(n.right, ast.Call)
            and is_name(n.right.func, "str") and len(n.right.args) == 1 and is_name(n.right.args[0], var))


def action(body) -> str:
    # (b) plain entry
    if len(body) == 1 and isinstance(body[0], ast.Expr):
        return f".entry {append_tag(body[0])}"
    # (g) None
    if (len(body) == 1 and isinstance(body[0], ast.If) and not body[0].orelse and isinstance(body[0].test, ast.Compare) and len(body[0].test.ops) == 1
            and isinstance(body[0].test.ops[0], ast.IsNot) and len(body[0].body) == 1):
        t = body[0].test
        return f".noneLeaf {arg_of(t.left)} {arg_of(t.comparators[0])} {append_tag(body[0].body[0])}"
    # (a) exact leaf
    if len(body) == 2 and isinstance(body[1], ast.If) and is_name(body[1].test, "mismatch") and not body[1].orelse and len(body[1].body) == 1:
        first, catch = body[0], False
        if isinstance(first, ast.Try):
            h = first.handlers
            if not (len(first.body) == 1 and len(h) == 1 and is_name(h[0].type, "ValueError") and len(h[0].body) == 1 and isinstance(h[0].body[0], ast.Assign)
                    and is_name(h[0].body[0].targets[0], "mismatch") and isinstance(h[0].body[0].value, ast.Constant) and h[0].body[0].value.value is True
                    and not first.orelse and not first.finalbody):
                fail(first, "exact leaf: expected `except ValueError: mismatch = True`")
            first, catch = first.body[0], True
        v = first.value if isinstance(first, ast.Assign) and is_name(first.targets[0], "mismatch") else None
        if not (isinstance(v, ast.Call) and is_name(v.func, "bool") and len(v.args) == 1 and isinstance(v.args[0], ast.Compare)
                and len(v.args[0].ops) == 1 and isinstance(v.args[0].ops[0], ast.NotEq)):
            fail(first, "exact leaf: expected mismatch = bool(a != b)")
        return f".exactNe {arg_of(v.args[0].left)} {arg_of(v.args[0].comparators[0])} {lb(catch)} {append_tag(body[1].body[0])}"
    # (c) list walk
    if len(body) == 1 and isinstance(body[0], ast.Try):
        t = body[0]
        h = t.handlers
        if not (len(t.body) == 1 and isinstance(t.body[0], ast.If) and len(h) == 1 and is_name(h[0].type, "TypeError") and len(h[0].body) == 1
                and not t.orelse and not t.finalbody):
            fail(t, "list walk: try shape not understood")
        i = t.body[0]
        if not (isinstance(i.test, ast.Compare) and len(i.test.ops) == 1 and len(i.body) == 1 and len(i.orelse) == 1 and isinstance(i.orelse[0], ast.For)):
            fail(i, "list walk: length test not understood")
        f = i.orelse[0]
        if not (isinstance(f.target, ast.Tuple) and len(f.target.elts) == 3 and all(is_name(x) for x in f.target.elts) and isinstance(f.iter, ast.Call)
                and is_name(f.iter.func, "zip") and len(f.iter.args) == 3 and isinstance(f.iter.args[0], ast.Call) and is_name(f.iter.args[0].func, "range")
                and len(f.iter.args[0].args) == 1 and len(f.body) == 1 and not f.orelse):
            fail(f, "list walk: loop not understood")
        len_of(f.iter.args[0].args[0])
        idx, it1, it2 = [x.id for x in f.target.elts]
        roles = {it1: arg_of(f.iter.args[1]), it2: arg_of(f.iter.args[2])}

        def env(n):
            if is_name(n) and n.id in roles:
                return roles[n.id]
            fail(n, "nested call argument is not one of the zipped items")

        a, b = rec_call(f.body[0], env, lambda p: is_prefix_plus_str(p, idx))
        return (f".listWalk {cmpop(i.test.ops[0])} {len_of(i.test.left)} {len_of(i.test.comparators[0])} {append_tag(i.body[0])} "
                f"{append_tag(h[0].body[0])} ({a}, {b})")
    # (d) dict walk
    if body and isinstance(body[-1], ast.For) and isinstance(body[-1].iter, ast.BinOp) and isinstance(body[-1].iter.op, ast.BitAnd):
        f = body[-1]
        diffs_by_name = {}
        order = []
        for s in body[:-1]:
            if isinstance(s, ast.Assign) and is_name(s.targets[0]) and isinstance(s.value, ast.BinOp) and isinstance(s.value.op, ast.Sub):
                diffs_by_name[s.targets[0].id] = (keys_of(s.value.left), keys_of(s.value.right))
            elif (isinstance(s, ast.If) and not s.orelse and isinstance(s.test, ast.Call) and is_name(s.test.func, "len") and len(s.test.args) == 1
                  and is_name(s.test.args[0]) and s.test.args[0].id in diffs_by_name and len(s.body) == 1):
                x, y = diffs_by_name[s.test.args[0].id]
                order.append(f"(({x}, {y}), {append_tag(s.body[0])})")
            else:
                fail(s, "dict walk: statement not understood")
        if not (is_name(f.target) and len(f.body) == 2 and isinstance(f.body[0], ast.Assign) and is_name(f.body[0].targets[0], "name")
                and is_prefix_plus_str(f.body[0].value, f.target.id) and not f.orelse):
            fail(f, "dict walk: loop not understood")
        k = f.target.id

        def env(n):
            if isinstance(n, ast.Subscript) and is_name(n.slice, k):
                return arg_of(n.value)
            fail(n, "nested call argument is not <parameter>[k]")

        a, b = rec_call(f.body[1], env, lambda p: is_name(p, "name"))
        return f".dictWalk [{', '.join(order)}] ({keys_of(f.iter.left)}, {keys_of(f.iter.right)}) ({a}, {b})"
    # (e) numeric leaf
    if len(body) == 2 and isinstance(body[0], ast.Assign):
        ve, vc, ph = leaf_call(body[0], "compare_values")
        return f".values {ve} {vc} {ph} {if_not_passfail(body[1])}"
    # (f) ndarray leaf
    if (len(body) == 2 and isinstance(body[0], ast.If) and len(body[0].body) == 1 and len(body[0].orelse) == 1 and isinstance(body[0].test, ast.Call)
            and is_np(body[0].test.func, "issubdtype")):
        t = body[0].test
        if not (len(t.args) == 2 and isinstance(t.args[0], ast.Attribute) and t.args[0].attr == "dtype" and is_np(t.args[1], "floating")):
            fail(t, "dtype switch not understood")
        ve, vc, vph = leaf_call(body[0].body[0], "compare_values")
        xe, xc, xph = leaf_call(body[0].orelse[0], "compare")
        return f".arrLeaf {arg_of(t.args[0].value)} {ve} {vc} {vph} {xe} {xc} {xph} {if_not_passfail(body[1])}"
    fail(body[0], "branch body not understood")


def tr_recursive(fn):
    params = [a.arg for a in fn.args.args]
    if params != ["expected", "computed", "atol", "rtol", "_prefix", "equal_phase"]:
        fail(fn, "parameters of _compare_recursive changed")
    body = body_wo_doc(fn)
    want = ["errors = []", "name = _prefix or 'root'", "prefix = name + '.'"]
    got = [ast.unparse(s) for s in body[:3]]
    if got != want:
        fail(fn, f"prologue is not {want}")
    i = 3
    to_dict = []
    while (i < len(body) and isinstance(body[i], ast.If) and isinstance(body[i].test, ast.Call) and is_name(body[i].test.func, "isinstance")
           and ty_of(body[i].test.args[1]) == [".baseModel"]):
        s = body[i]
        a = arg_of(s.test.args[0])
        if not (len(s.body) == 1 and not s.orelse and ast.unparse(s.body[0]) == f"{s.test.args[0].id} = {s.test.args[0].id}.dict()"):
            fail(s, "model conversion not understood")
        to_dict.append(a)
        i += 1
    if len(body) != i + 2 or not isinstance(body[i], ast.If) or ast.unparse(body[i + 1]) != "return errors":
        fail(fn, "expected one if/elif chain followed by `return errors`")
    branches = []
    node = body[i]
    while True:
        branches.append((guard(node.test), action(node.body), node.lineno, ast.unparse(node.test)[:110]))
        if len(node.orelse) == 1 and isinstance(node.orelse[0], ast.If):
            node = node.orelse[0]
            continue
        if len(node.orelse) != 1:
            fail(node, "the chain must end with one `else: errors.append(...)`")
        fall = append_tag(node.orelse[0])
        break
    return to_dict, branches, fall



# ---- compare_recursive: the top-level stages ---------------------------------------------------------------------------
def lstr(x: str) -> str:
    if not all(32 <= ord(ch) < 127 and ch not in '"\\' for ch in x):
        raise Unsupported(f"string literal {x!r} not representable")
    return '"' + x + '"'


def tr_path_under(fn) -> str:
    if [a.arg for a in fn.args.args] != ["path", "prefix"]:
        fail(fn, "_path_under parameters are not (path, prefix)")
    body = body_wo_doc(fn)
    if len(body) != 1 or not isinstance(body[0], ast.Return):
        fail(fn, "_path_under must be a single return")
    v = body[0].value
    terms = v.values if isinstance(v, ast.BoolOp) and isinstance(v.op, ast.Or) else [v]
    or_eq, sep = False, None
    for t in terms:
        if ast.unparse(t) == "path == prefix":
            if sep is not None:
                fail(t, "_path_under: equality after the prefix test")
            or_eq = True
        elif (isinstance(t, ast.Call) and ast.unparse(t.func) == "path.startswith" and len(t.args) == 1 and isinstance(t.args[0], ast.BinOp)
              and isinstance(t.args[0].op, ast.Add) and is_name(t.args[0].left, "prefix") and isinstance(t.args[0].right, ast.Constant)
              and isinstance(t.args[0].right.value, str) and sep is None):
            sep = t.args[0].right.value
        else:
            fail(t, "_path_under term not understood")
    if sep is None:
        fail(fn, "_path_under has no startswith(prefix + <sep>) term")
    return f"⟨{lb(or_eq)}, {lstr(sep)}⟩"


def rec_top_call(n) -> str:
    """_compare_recursive(A, B, atol=atol, rtol=rtol[, equal_phase=<literal>]) -> RecCall"""
    if not (isinstance(n, ast.Call) and is_name(n.func, "_compare_recursive") and len(n.args) == 2):
        fail(n, "expected _compare_recursive(a, b, ...)")
    kw = {k.arg: k.value for k in n.keywords}
    if set(kw) - {"atol", "rtol", "equal_phase"} or not (is_name(kw.get("atol"), "atol") and is_name(kw.get("rtol"), "rtol")):
        fail(n, "atol=atol, rtol=rtol [, equal_phase=<literal>] expected")
    ph = "none"
    if "equal_phase" in kw:
        if not (isinstance(kw["equal_phase"], ast.Constant) and isinstance(kw["equal_phase"].value, bool)):
            fail(n, "equal_phase of the second recursion is not a literal")
        ph = f"(some {lb(kw['equal_phase'].value)})"
    return f"⟨{arg_of(n.args[0])}, {arg_of(n.args[1])}, {ph}⟩"


def plist_of(n, param: str) -> str:
    """[] | list(dict(errors).keys()) | [(x if x.startswith(P) else Q + x) for x in <param>]"""
    if isinstance(n, ast.List) and not n.elts:
        return ".empty"
    if ast.unparse(n) == "list(dict(errors).keys())":
        return ".errorNames"
    if isinstance(n, ast.ListComp) and len(n.generators) == 1 and not n.generators[0].ifs and is_name(n.generators[0].iter, param) and is_name(n.generators[0].target):
        x = n.generators[0].target.id
        e = n.elt
        if (isinstance(e, ast.IfExp) and is_name(e.body, x) and isinstance(e.test, ast.Call) and ast.unparse(e.test.func) == f"{x}.startswith"
                and len(e.test.args) == 1 and isinstance(e.test.args[0], ast.Constant) and isinstance(e.test.args[0].value, str)
                and isinstance(e.orelse, ast.BinOp) and isinstance(e.orelse.op, ast.Add) and isinstance(e.orelse.left, ast.Constant)
                and isinstance(e.orelse.left.value, str) and is_name(e.orelse.right, x)):
            return f"(.rootified ⟨{lstr(e.test.args[0].value)}, {lstr(e.orelse.left.value)}⟩)"
    fail(n, "prefix list not understood")


def filter_loop(f, listvar: str, bookkeeping: str) -> str:
    """for nomatch in sorted(errors): for p in <listvar> or []: if _path_under(nomatch[0], p): [if nomatch[0] not in n_errors:] <book>.append(nomatch); errors.remove(nomatch); break"""
    if not (isinstance(f, ast.For) and is_name(f.target) and not f.orelse and len(f.body) == 1 and isinstance(f.body[0], ast.For)):
        fail(f, "filtering loop: outer loop not understood")
    nm = f.target.id
    it = ast.unparse(f.iter)
    if it == "sorted(errors)":
        over_sorted = True
    elif it == "errors":
        over_sorted = False
    else:
        fail(f.iter, "filtering loop: iterates over something else than sorted(errors) / errors")
    g = f.body[0]
    if not (is_name(g.target) and ast.unparse(g.iter) in (f"{listvar} or []", listvar) and not g.orelse and len(g.body) == 1 and isinstance(g.body[0], ast.If)
            and not g.body[0].orelse):
        fail(g, "filtering loop: inner loop not understood")
    pv = g.target.id
    i = g.body[0]
    t = i.test
    if not (isinstance(t, ast.Call) and is_name(t.func, "_path_under") and len(t.args) == 2 and not t.keywords):
        fail(t, "filtering loop: test is not _path_under(a, b)")
    a0, a1 = ast.unparse(t.args[0]), ast.unparse(t.args[1])
    if (a0, a1) == (f"{nm}[0]", pv):
        path_first = True
    elif (a0, a1) == (pv, f"{nm}[0]"):
        path_first = False
    else:
        fail(t, "filtering loop: _path_under arguments not understood")
    body = i.body
    not_in = False
    if len(body) == 1 and isinstance(body[0], ast.If) and not body[0].orelse:
        if ast.unparse(body[0].test) != f"{nm}[0] not in n_errors":
            fail(body[0], "filtering loop: inner guard not understood")
        not_in = True
        body = body[0].body
    remove = brk = False
    for k, st in enumerate(body):
        u = ast.unparse(st)
        if u == f"{bookkeeping}.append({nm})":
            continue
        if u == f"errors.remove({nm})" and not remove and not brk:
            remove = True
        elif isinstance(st, ast.Break) and k == len(body) - 1:
            brk = True
        else:
            fail(st, "filtering loop: statement not understood")
    return f"⟨{lb(over_sorted)}, {lb(path_first)}, {lb(not_in)}, {lb(remove)}, {lb(brk)}⟩"


def tr_top(fn):
    names = [a.arg for a in fn.args.args] + ["*"] + [a.arg for a in fn.args.kwonlyargs]
    if names != ["expected", "computed", "label", "*", "atol", "rtol", "forgive", "equal_phase", "quiet", "return_message", "return_handler"] or fn.args.vararg or fn.args.kwarg:
        fail(fn, "the parameters of compare_recursive changed")
    body = body_wo_doc(fn)
    refuse = first = None
    handler = False
    stages = []
    pending_forgive = None
    i = 0
    n = len(body)
    msg_names: set = set()
    while i < n:
        s = body[i]
        u = ast.unparse(s)
        if isinstance(s, ast.If) and isinstance(s.test, ast.Compare) and is_name(s.test.left, "atol") and len(s.body) == 1 and isinstance(s.body[0], ast.Raise):
            c = s.test.comparators[0]
            if not (len(s.test.ops) == 1 and isinstance(c, ast.Constant) and isinstance(c.value, int) and not isinstance(c.value, bool) and not s.orelse
                    and isinstance(s.body[0].exc, ast.Call) and is_name(s.body[0].exc.func, "ValueError") and first is None):
                fail(s, "atol refusal not understood")
            refuse = (cmpop(s.test.ops[0]), c.value)
        elif u == "if return_handler is None:\n    return_handler = _handle_return":
            handler = True
        elif isinstance(s, ast.Assign) and is_name(s.targets[0], "errors"):
            if first is not None or stages:
                fail(s, "errors assigned twice")
            first = rec_top_call(s.value)
        elif isinstance(s, ast.If) and u.startswith("if errors and equal_phase:") and not s.orelse:
            if first is None:
                fail(s, "phase stage before the recursion")
            b = s.body
            if not (len(b) == 5 and isinstance(b[0], ast.Assign) and is_name(b[0].targets[0], "n_errors") and ast.unparse(b[1]) == "n_errors = dict(n_errors)"
                    and isinstance(b[2], ast.If) and ast.unparse(b[2].test) == "equal_phase is False" and len(b[2].orelse) == 1 and isinstance(b[2].orelse[0], ast.If)
                    and ast.unparse(b[2].orelse[0].test) == "equal_phase is True" and len(b[2].orelse[0].orelse) == 1
                    and ast.unparse(b[3]) == "phased = []"):
                fail(s, "phase stage not understood")
            second = rec_top_call(b[0].value)

            def assigned(stmts):
                if not (len(stmts) == 1 and isinstance(stmts[0], ast.Assign) and is_name(stmts[0].targets[0], "equal_phase")):
                    fail(stmts[0], "phase stage: expected `equal_phase = <list>`")
                return plist_of(stmts[0].value, "equal_phase")

            on_false, on_true, other = assigned(b[2].body), assigned(b[2].orelse[0].body), assigned(b[2].orelse[0].orelse)
            stages.append(f".phase {second} {on_false} {on_true} {other} {filter_loop(b[4], 'equal_phase', 'phased')}")
        elif isinstance(s, ast.If) and ast.unparse(s.test) == "forgive is None":
            if first is None or pending_forgive is not None:
                fail(s, "forgive normalisation misplaced")

            def assigned_f(stmts):
                if not (len(stmts) == 1 and isinstance(stmts[0], ast.Assign) and is_name(stmts[0].targets[0], "forgive")):
                    fail(s, "forgive stage: expected `forgive = <list>`")
                return plist_of(stmts[0].value, "forgive")

            pending_forgive = (assigned_f(s.body), assigned_f(s.orelse))
        elif u == "forgiven = []":
            pass
        elif isinstance(s, ast.For) and ast.unparse(s.iter) in ("sorted(errors)", "errors") and isinstance(s.body[0], ast.For):
            if pending_forgive is None:
                fail(s, "filtering loop without its prefix list")
            stages.append(f".forgive {pending_forgive[0]} {pending_forgive[1]} {filter_loop(s, 'forgive', 'forgiven')}")
            pending_forgive = None
        elif u == "message = []":
            # the message: two non-empty lines per remaining entry, joined; the verdict is `len(<joined>) == 0`
            want = ["message = []", "for e in sorted(errors):\n    message.append(e[0])\n    message.append('    ' + e[1])", "ret_msg_str = '\\n'.join(message)",
                    "return return_handler(len(ret_msg_str) == 0, label, ret_msg_str, return_message, quiet)"]
            got = [ast.unparse(x) for x in body[i:]]
            if got != want:
                fail(s, "message / final return not understood")
            if pending_forgive is not None or not handler or refuse is None or first is None:
                fail(s, "a stage is missing before the final return")
            return refuse, first, stages
        elif msg_only(s, msg_names) and msg_names <= {"label"}:
            pass
        else:
            fail(s, "statement of compare_recursive not understood")
        i += 1
    fail(fn, "no final return")


# ---- emission ------------------------------------------------------------------------------------------------------
def _c(s: str) -> str:
    return s.replace("-/", "- /").replace("/-", "/ -")


def translate_source(src: str) -> str:
    tree = ast.parse(src)
    handler, hline = tr_handle_return(find_func(tree, "_handle_return"))
    values = tr_helper(find_func(tree, "compare_values"), True)
    exact = tr_helper(find_func(tree, "compare"), False)
    to_dict, branches, fall = tr_recursive(find_func(tree, "_compare_recursive"))
    refuse, first, stages = tr_top(find_func(tree, "compare_recursive"))
    under = tr_path_under(find_func(tree, "_path_under"))
    L = ["import QcelVerif.Model.CompareAst",
         "/-! GENERATED by harness/c19_src.py from qcelemental/testing.py (decision skeletons; see Model/CompareAst.lean) - do not edit -/",
         "namespace QcelVerif.Gen.CompareSrc", "open QcelVerif.CompareAst", "",
         f"/-- testing.py:{hline}  `_handle_return`: ⟨tested parameter, returned pair, returned value⟩ -/",
         f"def handleReturnSrc : Handler := {handler}", ""]
    for nm, prog in (("compareValuesSrc", values), ("compareSrc", exact)):
        L.append(f"def {nm} : List Stmt := [")
        for j, (term, line, text) in enumerate(prog):
            L.append(f"  /- testing.py:{line}  {_c(text)} -/")
            L.append(f"  {term}" + ("," if j + 1 < len(prog) else ""))
        L.append("]")
        L.append("")
    L.append("def compareRecursiveNodeSrc : RecProg := {")
    L.append(f"  modelToDict := [{', '.join(to_dict)}],")
    L.append("  branches := [")
    for j, (g, a, line, text) in enumerate(branches):
        L.append(f"    /- testing.py:{line}  {_c(text)} -/")
        L.append(f"    ({g}, {a})" + ("," if j + 1 < len(branches) else ""))
    L.append("  ],")
    L.append(f"  fallTag := {fall} }}")
    L.append("")
    L.append("/-- compare_recursive (testing.py): the atol refusal, the first recursion, the filtering stages in source order, _path_under -/")
    L.append("def compareRecursiveTopSrc : TopProg := {")
    L.append(f"  refuseOp := {refuse[0]}, refuseBound := {refuse[1]},")
    L.append(f"  first := {first},")
    L.append("  stages := [")
    for j, st in enumerate(stages):
        L.append(f"    {st}" + ("," if j + 1 < len(stages) else ""))
    L.append("  ],")
    L.append(f"  under := {under} }}")
    L.append("")
    L.append("end QcelVerif.Gen.CompareSrc")
    return "\n".join(L) + "\n"


def gen_compare_src(ctx=None) -> None:
    """lean/QcelVerif/Gen/CompareSrc.lean <- qcelemental/testing.py (decision skeletons of the comparison helpers)."""
    src = (common.REPO / "qcelemental" / "testing.py").read_text()
    body = translate_source(src)
    f = common.LEAN / "QcelVerif" / "Gen" / "CompareSrc.lean"
    f.parent.mkdir(exist_ok=True)
    if not f.exists() or f.read_text() != body:
        f.write_text(body)


if __name__ == "__main__":
    import sys

    print(translate_source(Path(sys.argv[1] if len(sys.argv) > 1 else "/repo/qcelemental/testing.py").read_text()))
