"""C17 translator: the LOOKUP LOGIC of the radii classes -> lean/QcelVerif/Gen/RadiiSrc.lean.

Reads, by `ast`, on every run, from common.REPO's working tree (nothing is imported):
  * qcelemental/covalent_radii.py    class CovalentRadii:    `get`, `__init__`
  * qcelemental/vanderwaals_radii.py class VanderWaalsRadii: `get`, `__init__`
  * qcelemental/datum.py             class Datum:            `to_units`
and prints the bodies, statement by statement, as terms of lean/QcelVerif/Model/RadiiAst.lean
(`Stmt` / `Expr` for `get` and `to_units`; `InitSpec` for the two loops of `__init__` and the `aliases` list).

No interpretation happens here.  The purely syntactic normalisations are:
  * a statement list is a right-nested `seq`; `elif` is an `else` holding one `if`; a missing `else` is `pass`;
  * names become variable numbers (parameters first, then locals in order of first assignment; the legend is printed);
  * `X in self.<table>.keys()` -> `inKeys X`, `self.<table>[X]` -> `tableGet X` (the attribute must be the dictionary that
    `__init__` of the same class creates), `periodictable.to_E(X)` -> `toE X`, `constants.conversion_factor(a, b)` ->
    `convFactor a b`, `X.to_units(u)` -> `toUnits X u`, `isinstance(X, str)` / `isinstance(X, Decimal)` -> `isStr` / `isDecimal`,
    `float(X)` -> `pyFloat X`, `X is None / is not None / is False / is True` -> `isNone / isNotNone / isFalse / isTrue`;
    a bare expression used as a condition stays what it is (the interpreter applies Python truthiness);
  * `raise C(...) [from e]` keeps the class (NotAnElementError / DataUnavailableError / KeyError), the message is dropped;
    `except KeyError [as e]` -> `tryKeyError`; docstrings, comments and `from .x import y` statements are dropped;
  * `__init__` is recognised by shape: `self.<table> = OrderedDict()`, the context test, `self.doi = data["doi"]`,
    `self.native_units = data["units"]`, `for r in data[...]: self.<table>[KEY] = Datum(...)`, the `else: raise KeyError`,
    `self.name = …`, `self.year = …` (not part of the lookup; skipped), `aliases = [tuples]`,
    `for alias in aliases: a, b, c, d = alias; self.<table>[KEY] = Datum(...)`.  KEY and the Datum arguments are
    translated as `FieldE` expressions (`r[i]`, `Decimal(·)`, `·.capitalize()`, `self.native_units`, `self.doi`).
Anything else raises `Unsupported` (the run then reports a broken obligation), never silently dropped.
"""
from __future__ import annotations

import ast

import common

FILES = {
    "cov": ("qcelemental/covalent_radii.py", "CovalentRadii"),
    "vdw": ("qcelemental/vanderwaals_radii.py", "VanderWaalsRadii"),
}
DATUM = ("qcelemental/datum.py", "Datum")
EXN = {"NotAnElementError": ".notAnElement", "DataUnavailableError": ".dataUnavailable", "KeyError": ".keyError"}
FIELDS = {"label": ".label", "units": ".units", "data": ".data"}


class Unsupported(Exception):
    pass


def bad(fname, node, msg):
    try:
        src = ast.unparse(node)
    except Exception:  # noqa
        src = type(node).__name__
    raise Unsupported(f"{fname}:{getattr(node, 'lineno', '?')}: {msg}: {src[:160]}")


def lean_bytes(s: str) -> str:
    return "[" + ", ".join(str(c) for c in s.encode("utf-8")) + "]"


def find_method(fname, cls_name, meth):
    path = common.REPO / fname
    tree = ast.parse(path.read_text())
    for node in tree.body:
        if isinstance(node, ast.ClassDef) and node.name == cls_name:
            for f in node.body:
                if isinstance(f, ast.FunctionDef) and f.name == meth:
                    return f
    raise Unsupported(f"{fname}: {cls_name}.{meth} not found")


def strip_doc(stmts):
    return [s for s in stmts if not (isinstance(s, ast.Expr) and isinstance(s.value, ast.Constant) and isinstance(s.value.value, str))]


class Body:
    """translation of one function body into Stmt / Expr"""

    def __init__(self, fname, fn: ast.FunctionDef, table_attr):
        self.fname = fname
        self.table = table_attr
        a = fn.args
        if a.vararg or a.kwarg or a.posonlyargs:
            bad(fname, fn, "unsupported signature")
        self.vars = [x.arg for x in a.args] + [x.arg for x in a.kwonlyargs]
        self.nparams = len(self.vars)
        self.defaults = {}
        for x, d in zip(a.args[len(a.args) - len(a.defaults):], a.defaults):
            self.defaults[x.arg] = d
        for x, d in zip(a.kwonlyargs, a.kw_defaults):
            if d is not None:
                self.defaults[x.arg] = d
        self.lean = self.block(strip_doc(fn.body))

    def var(self, name, node, create=False):
        if name not in self.vars:
            if not create:
                bad(self.fname, node, f"unknown name {name}")
            self.vars.append(name)
        return self.vars.index(name)

    def is_table(self, n):
        return isinstance(n, ast.Attribute) and isinstance(n.value, ast.Name) and n.value.id == "self" and n.attr == self.table and self.table is not None

    def expr(self, n) -> str:
        f = self.fname
        if isinstance(n, ast.Constant):
            if n.value is None:
                return ".none"
            if n.value is False:
                return ".litFalse"
            if n.value is True:
                return ".litTrue"
            if isinstance(n.value, str):
                return f"(.str {lean_bytes(n.value)})"
            bad(f, n, "unsupported constant")
        if isinstance(n, ast.Name):
            if n.id == "self" and self.vars and self.vars[0] == "self":
                return "(.var 0)"
            return f"(.var {self.var(n.id, n)})"
        if isinstance(n, ast.Attribute):
            if n.attr in FIELDS and not self.is_table(n):
                return f"(.attr {self.expr(n.value)} {FIELDS[n.attr]})"
            bad(f, n, "unsupported attribute")
        if isinstance(n, ast.Subscript):
            if self.is_table(n.value):
                return f"(.tableGet {self.expr(n.slice)})"
            bad(f, n, "unsupported subscript")
        if isinstance(n, ast.UnaryOp) and isinstance(n.op, ast.Not):
            return f"(.not {self.expr(n.operand)})"
        if isinstance(n, ast.BoolOp):
            op = ".and" if isinstance(n.op, ast.And) else ".or"
            parts = [self.expr(v) for v in n.values]
            out = parts[-1]
            for p in reversed(parts[:-1]):
                out = f"({op} {p} {out})"
            return out
        if isinstance(n, ast.BinOp):
            if isinstance(n.op, ast.Mult):
                return f"(.mul {self.expr(n.left)} {self.expr(n.right)})"
            bad(f, n, "unsupported binary operator")
        if isinstance(n, ast.IfExp):
            return f"(.ifExp {self.expr(n.test)} {self.expr(n.body)} {self.expr(n.orelse)})"
        if isinstance(n, ast.Compare):
            if len(n.ops) != 1:
                bad(f, n, "chained comparison")
            op, l, r = n.ops[0], n.left, n.comparators[0]
            if isinstance(op, ast.In):
                if (isinstance(r, ast.Call) and isinstance(r.func, ast.Attribute) and r.func.attr == "keys" and not r.args and not r.keywords
                        and self.is_table(r.func.value)) or self.is_table(r):
                    return f"(.inKeys {self.expr(l)})"
                bad(f, n, "`in` on something that is not the radius dictionary")
            if isinstance(op, (ast.Is, ast.IsNot)) and isinstance(r, ast.Constant):
                pos = isinstance(op, ast.Is)
                if r.value is None:
                    return f"({'.isNone' if pos else '.isNotNone'} {self.expr(l)})"
                if r.value is False:
                    return f"(.isFalse {self.expr(l)})" if pos else f"(.not (.isFalse {self.expr(l)}))"
                if r.value is True:
                    return f"(.isTrue {self.expr(l)})" if pos else f"(.not (.isTrue {self.expr(l)}))"
            bad(f, n, "unsupported comparison")
        if isinstance(n, ast.Call):
            if n.keywords or any(isinstance(a, ast.Starred) for a in n.args):
                bad(f, n, "keyword / starred arguments")
            fn = n.func
            if isinstance(fn, ast.Name):
                if fn.id == "isinstance" and len(n.args) == 2 and isinstance(n.args[1], ast.Name) and n.args[1].id in ("str", "Decimal"):
                    return f"({'.isStr' if n.args[1].id == 'str' else '.isDecimal'} {self.expr(n.args[0])})"
                if fn.id == "float" and len(n.args) == 1:
                    return f"(.pyFloat {self.expr(n.args[0])})"
                bad(f, n, "unsupported call")
            if isinstance(fn, ast.Attribute):
                if fn.attr == "to_E" and isinstance(fn.value, ast.Name) and fn.value.id == "periodictable" and len(n.args) == 1:
                    return f"(.toE {self.expr(n.args[0])})"
                if fn.attr == "conversion_factor" and isinstance(fn.value, ast.Name) and fn.value.id == "constants" and len(n.args) == 2:
                    return f"(.convFactor {self.expr(n.args[0])} {self.expr(n.args[1])})"
                if fn.attr == "to_units" and len(n.args) == 1:
                    return f"(.toUnits {self.expr(fn.value)} {self.expr(n.args[0])})"
                bad(f, n, "unsupported method call")
            bad(f, n, "unsupported call")
        bad(f, n, "unsupported expression")

    def block(self, stmts) -> str:
        stmts = [s for s in strip_doc(stmts) if not isinstance(s, ast.ImportFrom)]
        if not stmts:
            return ".pass"
        parts = [self.stmt(s) for s in stmts]
        out = parts[-1]
        for p in reversed(parts[:-1]):
            out = f"(.seq {p}\n  {out})"
        return out

    def stmt(self, s) -> str:
        f = self.fname
        if isinstance(s, ast.Pass):
            return ".pass"
        if isinstance(s, ast.Assign):
            if len(s.targets) != 1 or not isinstance(s.targets[0], ast.Name):
                bad(f, s, "unsupported assignment target")
            rhs = self.expr(s.value)
            return f"(.assign {self.var(s.targets[0].id, s, create=True)} {rhs})"
        if isinstance(s, ast.Return):
            return f"(.ret {self.expr(s.value) if s.value is not None else '.none'})"
        if isinstance(s, ast.Raise):
            e = s.exc
            if isinstance(e, ast.Call):
                e = e.func
            if not isinstance(e, ast.Name) or e.id not in EXN:
                bad(f, s, "unsupported raise")
            if s.cause is not None and not isinstance(s.cause, ast.Name):
                bad(f, s, "unsupported `from`")
            return f"(.raise {EXN[e.id]})"
        if isinstance(s, ast.Assert):
            return f"(.assert {self.expr(s.test)})"
        if isinstance(s, ast.If):
            return f"(.ite {self.expr(s.test)}\n  {self.block(s.body)}\n  {self.block(s.orelse)})"
        if isinstance(s, ast.Try):
            if s.finalbody or s.orelse or len(s.handlers) != 1:
                bad(f, s, "unsupported try shape")
            h = s.handlers[0]
            if not (isinstance(h.type, ast.Name) and h.type.id == "KeyError"):
                bad(f, s, "only `except KeyError` is supported")
            if h.name is not None:
                self.var(h.name, s, create=True)
            return f"(.tryKeyError {self.block(s.body)}\n  {self.block(h.body)})"
        bad(f, s, "unsupported statement")


# ---------------------------------------------------------------------------------------
# __init__


def is_self_attr(n, name=None):
    return isinstance(n, ast.Attribute) and isinstance(n.value, ast.Name) and n.value.id == "self" and (name is None or n.attr == name)


class Init:
    def __init__(self, fname, fn: ast.FunctionDef):
        self.fname = fname
        self.table = None
        self.row_loop = None
        self.aliases = []
        self.alias_loop = None
        self.skipped = []
        self.data_name = None
        for s in strip_doc(fn.body):
            self.top(s)
        if self.table is None or self.row_loop is None:
            bad(fname, fn, "__init__: dictionary creation or row loop not found")

    def top(self, s):
        f = self.fname
        if isinstance(s, ast.ImportFrom):
            if len(s.names) == 1 and s.module == "data":
                self.data_name = s.names[0].name
            return
        if isinstance(s, (ast.AnnAssign, ast.Assign)):
            tgt = s.target if isinstance(s, ast.AnnAssign) else (s.targets[0] if len(s.targets) == 1 else None)
            if is_self_attr(tgt) and isinstance(s.value, ast.Call) and ast.unparse(s.value.func) in ("collections.OrderedDict", "OrderedDict", "dict") and not s.value.args:
                if self.table is not None:
                    bad(f, s, "second dictionary")
                self.table = tgt.attr
                return
            if is_self_attr(tgt) and tgt.attr in ("name", "year"):
                self.skipped.append(tgt.attr)
                return
            if isinstance(tgt, ast.Name) and tgt.id == "aliases" and isinstance(s.value, ast.List):
                if self.row_loop is None or self.aliases:
                    bad(f, s, "`aliases` before the row loop / twice")
                self.aliases = [self.alias_tuple(t) for t in s.value.elts]
                return
            bad(f, s, "unsupported assignment in __init__")
        if isinstance(s, ast.If):
            # if context == "NAME": doi / native_units / row loop   else: raise KeyError
            t = s.test
            if not (isinstance(t, ast.Compare) and len(t.ops) == 1 and isinstance(t.ops[0], ast.Eq) and isinstance(t.left, ast.Name) and t.left.id == "context"
                    and isinstance(t.comparators[0], ast.Constant) and isinstance(t.comparators[0].value, str)):
                bad(f, s, "unsupported context test")
            if not (len(s.orelse) == 1 and isinstance(s.orelse[0], ast.Raise)):
                bad(f, s, "context test without `else: raise`")
            for b in s.body:
                self.in_context(b)
            return
        if isinstance(s, ast.For):
            if not (isinstance(s.iter, ast.Name) and s.iter.id == "aliases" and isinstance(s.target, ast.Name)) or s.orelse or self.alias_loop is not None:
                bad(f, s, "unsupported loop in __init__")
            body = strip_doc(s.body)
            if len(body) != 2:
                bad(f, s, "alias loop body must be: unpack; assignment")
            up = body[0]
            if not (isinstance(up, ast.Assign) and len(up.targets) == 1 and isinstance(up.targets[0], ast.Tuple) and isinstance(up.value, ast.Name) and up.value.id == s.target.id
                    and all(isinstance(e, ast.Name) for e in up.targets[0].elts)):
                bad(f, up, "unsupported tuple unpacking")
            names = [e.id for e in up.targets[0].elts]
            for tp in self.aliases_raw:
                if len(tp) != len(names):
                    bad(f, up, "tuple unpacking of the wrong length")
            self.alias_loop = self.loop_assign(body[1], lambda n: self.by_name(n, names))
            return
        bad(f, s, "unsupported statement in __init__")

    def in_context(self, b):
        f = self.fname
        if isinstance(b, ast.Assign) and len(b.targets) == 1 and is_self_attr(b.targets[0]) and b.targets[0].attr in ("doi", "native_units"):
            want = {"doi": "doi", "native_units": "units"}[b.targets[0].attr]
            v = b.value
            if not (isinstance(v, ast.Subscript) and isinstance(v.value, ast.Name) and v.value.id == self.data_name and isinstance(v.slice, ast.Constant) and v.slice.value == want):
                bad(f, b, f"self.{b.targets[0].attr} must be {self.data_name}[{want!r}]")
            return
        if isinstance(b, ast.For):
            if self.row_loop is not None or b.orelse or not isinstance(b.target, ast.Name):
                bad(f, b, "unsupported row loop")
            it = b.iter
            if not (isinstance(it, ast.Subscript) and isinstance(it.value, ast.Name) and it.value.id == self.data_name and isinstance(it.slice, ast.Constant)
                    and it.slice.value in ("covalent_radii", "vanderwaals_radii")):
                bad(f, b, "row loop over something else than the data rows")
            body = strip_doc(b.body)
            if len(body) != 1:
                bad(f, b, "row loop body must be one assignment")
            rv = b.target.id
            self.row_loop = self.loop_assign(body[0], lambda n: self.by_index(n, rv))
            return
        bad(f, b, "unsupported statement under the context test")

    def by_index(self, n, rv):
        if isinstance(n, ast.Subscript) and isinstance(n.value, ast.Name) and n.value.id == rv and isinstance(n.slice, ast.Constant) and type(n.slice.value) is int and n.slice.value >= 0:
            return f"(.item {n.slice.value})"
        return None

    def by_name(self, n, names):
        if isinstance(n, ast.Name) and n.id in names:
            return f"(.item {names.index(n.id)})"
        return None

    def field(self, n, item) -> str:
        r = item(n)
        if r is not None:
            return r
        if is_self_attr(n, "native_units"):
            return ".nativeUnits"
        if is_self_attr(n, "doi"):
            return ".doi"
        if isinstance(n, ast.Call) and not n.keywords:
            if isinstance(n.func, ast.Name) and n.func.id == "Decimal" and len(n.args) == 1:
                return f"(.decimal {self.field(n.args[0], item)})"
            if isinstance(n.func, ast.Attribute) and n.func.attr == "capitalize" and not n.args:
                return f"(.capitalize {self.field(n.func.value, item)})"
        bad(self.fname, n, "unsupported field expression")

    def loop_assign(self, s, item) -> str:
        f = self.fname
        if not (isinstance(s, ast.Assign) and len(s.targets) == 1 and isinstance(s.targets[0], ast.Subscript) and is_self_attr(s.targets[0].value, self.table)):
            bad(f, s, "loop body is not `self.<table>[key] = …`")
        key = self.field(s.targets[0].slice, item)
        c = s.value
        if not (isinstance(c, ast.Call) and isinstance(c.func, ast.Name) and c.func.id == "Datum" and len(c.args) == 3):
            bad(f, s, "right-hand side is not Datum(label, units, data, …)")
        kws = {}
        for k in c.keywords:
            if k.arg not in ("comment", "doi") or k.arg in kws:
                bad(f, s, "unsupported Datum keyword")
            kws[k.arg] = self.field(k.value, item)
        a = [self.field(x, item) for x in c.args]

        def opt(k):
            return f"(some {kws[k]})" if k in kws else "none"

        return f"{{ key := {key}, ctor := {{ label := {a[0]}, units := {a[1]}, data := {a[2]}, comment := {opt('comment')}, doi := {opt('doi')} }} }}"

    aliases_raw: list = []

    def alias_tuple(self, t) -> str:
        f = self.fname
        if not isinstance(t, ast.Tuple):
            bad(f, t, "alias entry is not a tuple")
        out = []
        for e in t.elts:
            if isinstance(e, ast.Constant) and isinstance(e.value, str):
                out.append(f".str {lean_bytes(e.value)}")
            elif (isinstance(e, ast.Attribute) and e.attr == "data" and isinstance(e.value, ast.Subscript) and is_self_attr(e.value.value, self.table)
                  and isinstance(e.value.slice, ast.Constant) and isinstance(e.value.slice.value, str)):
                out.append(f".tableData {lean_bytes(e.value.slice.value)}")
            else:
                bad(f, e, "unsupported alias component")
        self.aliases_raw = self.aliases_raw + [out]
        return "[" + ", ".join(out) + "]"

    def lean(self) -> str:
        al = "[" + ",\n      ".join(self.aliases) + "]"
        return (f"{{ rowLoop := {self.row_loop},\n    aliases := {al},\n    aliasLoop := "
                + (f"some {self.alias_loop}" if self.alias_loop is not None else "none") + " }")


def default_lean(fname, body: Body, name, kind):
    d = body.defaults.get(name)
    if d is None or not isinstance(d, ast.Constant):
        raise Unsupported(f"{fname}: keyword {name} of get has no literal default")
    v = d.value
    if kind == "str" and isinstance(v, str):
        return lean_bytes(v)
    if kind == "bool" and isinstance(v, bool):
        return "true" if v else "false"
    if kind == "none" and v is None:
        return "true"
    if kind == "none":
        return "false"
    raise Unsupported(f"{fname}: default of {name} is {v!r}")


def generate() -> str:
    out = ["import QcelVerif.Model.RadiiAst",
           "/-! GENERATED by harness/c17_src.py from qcelemental/covalent_radii.py, vanderwaals_radii.py and datum.py — do not edit.",
           "One `Stmt` per source statement; docstrings and `from … import …` statements are dropped.", ""]
    defs = []
    # Datum.to_units
    fn = find_method(DATUM[0], DATUM[1], "to_units")
    b = Body("datum.py", fn, None)
    if b.vars[:2] != ["self", "units"] or b.nparams != 2:
        raise Unsupported("datum.py: to_units must have the parameters (self, units)")
    d = b.defaults.get("units")
    if not (isinstance(d, ast.Constant) and d.value is None):
        raise Unsupported("datum.py: to_units(units=None) expected")
    out.append(f"variables of Datum.to_units (datum.py:{fn.lineno}): " + ", ".join(f"{i}={v}" for i, v in enumerate(b.vars)))
    defs.append(f"/-- `Datum.to_units` (datum.py:{fn.lineno}) -/\ndef toUnitsBody : Stmt :=\n  {b.lean}\n")
    for tag, (fname, cls) in FILES.items():
        short = fname.split("/")[-1]
        ini = Init(short, find_method(fname, cls, "__init__"))
        fn = find_method(fname, cls, "get")
        g = Body(short, fn, ini.table)
        if g.vars[:5] != ["self", "atom", "return_tuple", "units", "missing"] or g.nparams != 5:
            raise Unsupported(f"{short}: get must have the parameters (self, atom, *, return_tuple, units, missing)")
        out.append(f"variables of {cls}.get ({short}:{fn.lineno}; dictionary self.{ini.table}): " + ", ".join(f"{i}={v}" for i, v in enumerate(g.vars)))
        out.append(f"  {cls}.__init__: assignments to self.{', self.'.join(ini.skipped)} are not part of the lookup and are skipped")
        defs.append(f"/-- `{cls}.get` ({short}:{fn.lineno}) -/\ndef {tag}GetBody : Stmt :=\n  {g.lean}\n")
        defs.append(f"/-- keyword defaults of `{cls}.get` -/\ndef {tag}DefaultUnits : Bytes := {default_lean(short, g, 'units', 'str')}\n"
                    f"def {tag}DefaultReturnTuple : Bool := {default_lean(short, g, 'return_tuple', 'bool')}\n"
                    f"def {tag}DefaultMissingIsNone : Bool := {default_lean(short, g, 'missing', 'none')}\n")
        defs.append(f"/-- `{cls}.__init__`: row loop, `aliases`, alias loop -/\ndef {tag}Init : InitSpec :=\n  {ini.lean()}\n")
    out.append("-/")
    out.append("namespace QcelVerif.Gen.RadiiSrc\nopen QcelVerif.PStr QcelVerif.Radii.Src\n")
    out += defs
    out.append("end QcelVerif.Gen.RadiiSrc\n")
    return "\n".join(out)


def main(ctx=None):
    text = generate()
    path = common.LEAN / "QcelVerif" / "Gen" / "RadiiSrc.lean"
    if not path.exists() or path.read_text() != text:
        path.write_text(text)


if __name__ == "__main__":
    main()
    print((common.LEAN / "QcelVerif" / "Gen" / "RadiiSrc.lean").read_text())
