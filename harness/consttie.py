"""Cross-property tie of hard-coded constants (merged into every property module by `common.load_property`).

The hand-written Lean models (and, for a few values, the harness generators) hard-code numeric constants, keyword
defaults and small literal tables copied from the Python source.  On every run `translate(ctx)`:

  1. re-reads them from the working tree's sources by `ast` (`tools/gen_srcconsts.py`, never by importing; a shape it
     does not recognise is an error, never a guess) and rewrites `lean/QcelVerif/Gen/SrcConsts.lean`;
  2. raises — a broken obligation of the run — if a group of constants the property needs could not be translated;
  3. compares the few values that the property's *harness* hard-codes (defaults it omits from calls, parameters it
     hands to the model) with the source (`HARNESS_PINS`), and raises if one differs.

`lake build` of `QcelVerif.Props.ConstTie<Cxx>` then re-proves that every generated value equals the constant the
property's Lean model uses (by name where the model has a definition, else as the behaviour of the model function at
the boundary), so a changed constant in the source breaks a proof obligation whether or not a generated input
happens to expose it.  The theorems are listed in `EXTRA[Cxx]["theorems"]` and audited like every other theorem.

Not covered here (already tied elsewhere): C10 `_extension_map` / suffix tables (harness/c10.py gen_tables), C11 noise
constants and hash fields (Props/C11Spec.lean), C20 field/validator tables (Props/C20Spec.lean).  C14: no constants.
"""
from __future__ import annotations

import sys
from fractions import Fraction
from pathlib import Path

sys.path.insert(0, str(Path(__file__).resolve().parent.parent / "tools"))
import gen_srcconsts  # noqa: E402

# which groups of gen_srcconsts.GROUPS each property's ConstTie module imports values from
NEEDS = {
    "C04": ["from_arrays", "from_schema"],
    "C05": ["chgmult", "from_arrays"],
    "C06": ["nucleus"],
    "C07": ["from_arrays", "from_string"],
    "C08": ["to_string"],
    "C12": ["align", "molecule_align"],
    "C15": ["formula"],
    "C16": ["molecule"],
    "C17": ["radii"],
    "C18": ["connectivity", "misc"],
    "C19": ["testing"],
}


class ConstTieError(Exception):
    pass


def _src_float(values, group, name):
    for n, v, _ in values.get(group, []):
        if n == name:
            if v[0] != "float":
                raise ConstTieError(f"{name} is not a float literal in the source")
            x = float(v[1])
            return -x if v[2] else x
    raise ConstTieError(f"{name} was not translated")


def _src(values, group, name):
    for n, v, _ in values.get(group, []):
        if n == name:
            return v[1]
    raise ConstTieError(f"{name} was not translated")


# values hard-coded in a property's harness (read-only import of the harness module) vs the source.
# (property, description, getter(harness module) -> value, getter(values) -> value)
HARNESS_PINS = [
    ("C04", "harness/c04.py DEFAULT_ST['tooclose'] (omitted from the call when equal) vs from_arrays(tooclose=)",
     lambda m: m.DEFAULT_ST["tooclose"], lambda v: _src_float(v, "from_arrays", "from_arrays.tooclose")),
    ("C04", "harness/c04.py DEFAULT_ST['mtol'] vs from_arrays(mtol=)",
     lambda m: m.DEFAULT_ST["mtol"], lambda v: _src_float(v, "from_arrays", "from_arrays.mtol")),
    ("C04", "harness/c04.py DEFAULT_ST['speclabel'] vs from_arrays(speclabel=)",
     lambda m: m.DEFAULT_ST["speclabel"], lambda v: _src(v, "from_arrays", "from_arrays.speclabel")),
    ("C04", "harness/c04.py DEFAULT_ST['nonphysical'] vs from_arrays(nonphysical=)",
     lambda m: m.DEFAULT_ST["nonphysical"], lambda v: _src(v, "from_arrays", "from_arrays.nonphysical")),
    ("C04", "harness/c04.py DEFAULT_ST['zgf'] vs from_arrays(zero_ghost_fragments=)",
     lambda m: m.DEFAULT_ST["zgf"], lambda v: _src(v, "from_arrays", "from_arrays.zero_ghost_fragments")),
    ("C06", "harness/c06.py DOC_DEFAULTS['mtol'] (what an omitted option means) vs reconcile_nucleus(mtol=)",
     lambda m: m.DOC_DEFAULTS["mtol"], lambda v: _src_float(v, "nucleus", "reconcile_nucleus.mtol")),
    ("C06", "harness/c06.py DOC_DEFAULTS['speclabel'] vs reconcile_nucleus(speclabel=)",
     lambda m: m.DOC_DEFAULTS["speclabel"], lambda v: _src(v, "nucleus", "reconcile_nucleus.speclabel")),
    ("C06", "harness/c06.py DOC_DEFAULTS['nonphysical'] vs reconcile_nucleus(nonphysical=)",
     lambda m: m.DOC_DEFAULTS["nonphysical"], lambda v: _src(v, "nucleus", "reconcile_nucleus.nonphysical")),
    ("C07", "harness/c07.py _TC2 (the squared closeness threshold of the knife-edge filter) vs from_input_arrays(tooclose=)",
     lambda m: m._TC2, lambda v: Fraction(_src_float(v, "from_arrays", "from_input_arrays.tooclose")) ** 2),
    ("C12", "harness/c12.py aconv_units(True) (a_convergence of mols_align=True in units of 1e-8 A) vs align.py",
     lambda m: m.aconv_units(True), lambda v: sys.modules["c12"].aconv_units(_src_float(v, "align", "B787.a_convergence_true"))),
    ("C12", "harness/c12.py aconv_units(False) vs align.py",
     lambda m: m.aconv_units(False), lambda v: sys.modules["c12"].aconv_units(_src_float(v, "align", "B787.a_convergence_false"))),
    ("C16", "harness/c16.py NOISE vs 10 ** (-GEOMETRY_NOISE) of molecule.py",
     lambda m: m.NOISE, lambda v: float(_src(v, "molecule", "orient.noise_base")) ** (-_src(v, "molecule", "molecule.GEOMETRY_NOISE"))),
    ("C16", "harness/c16.py FLUSH8 vs float_prep's 5 ** (-(GEOMETRY_NOISE + 1)) of molecule.py",
     lambda m: m.FLUSH8, lambda v: float(_src(v, "molecule", "float_prep.zero_band_base")) ** (-(_src(v, "molecule", "molecule.GEOMETRY_NOISE") + _src(v, "molecule", "float_prep.zero_band_offset")))),
]


def _check_pins(prop: str, values) -> list:
    bad = []
    pins = [p for p in HARNESS_PINS if p[0] == prop]
    if not pins:
        return bad
    mod = sys.modules.get(prop.lower())
    if mod is None:  # `./check --setup` loads it too; a stand-alone call of translate() does not need the pins
        return bad
    for _, what, hget, sget in pins:
        try:
            h = hget(mod)
        except Exception as e:  # the harness no longer has the attribute: not this tie's business
            bad.append(f"{what}: harness value unavailable ({type(e).__name__}: {e})")
            continue
        try:
            s = sget(values)
        except ConstTieError as e:
            bad.append(f"{what}: {e}")
            continue
        num = lambda x: isinstance(x, (int, float, Fraction)) and not isinstance(x, bool)  # noqa: E731
        same = (Fraction(h) == Fraction(s)) if num(h) and num(s) else (h == s)
        if not same:
            bad.append(f"{what}: harness has {h!r}, the source now says {s!r}")
    return bad


def translate(ctx=None):
    """regenerate Gen/SrcConsts.lean (idempotent, ~50 ms); raise if this property's constants cannot be tied"""
    import common

    values, errors = gen_srcconsts.extract(common.REPO)
    gen_srcconsts.write(values, errors)
    prop = getattr(ctx, "prop", None)
    if prop is None or prop.upper() not in NEEDS:
        return
    prop = prop.upper()
    problems = [f"group {g}: {errors[g]}" for g in NEEDS[prop] if g in errors]
    problems += _check_pins(prop, values)
    if problems:
        raise ConstTieError("ConstTie" + prop + ": " + " || ".join(problems))


translate.__name__ = "consttie.translate"

_TB = ("ConstTie: tools/gen_srcconsts.py (reads the constants / defaults / literal tables below from the working tree by `ast` and prints Lean terms; "
       "an unrecognised source shape raises). The float literals are re-checked in the kernel (decimal text = exact value, bits = nearest double, "
       "value of the bits), so CPython's float parser is not trusted for them. Tied: ")

EXTRA = {
    "C04": {
        "translators": [translate],
        "targets": ["QcelVerif.Props.ConstTieC04"],
        "theorems": [
            ("QcelVerif.FromArrays.float_literals_ok", "[regenerated from from_arrays.py] the float literals tooclose, mtol, the input_units_to_au window and the Bohr factor: decimal text, exact value, nearest double (ties to even) and the double's exact value belong together"),
            ("QcelVerif.FromArrays.tooclose_default_matches_source", "the model's dfltTooclose is the double of the literal default tooclose= of from_arrays; from_input_arrays and validate_and_fill_geometry declare the same default"),
            ("QcelVerif.FromArrays.mtol_default_matches_source", "the model's dfltMtol is the double of the literal default mtol= of from_arrays; from_input_arrays and validate_and_fill_nuclei declare the same default"),
            ("QcelVerif.FromArrays.overlap_screen_matches_source", "for every tooclose and pair of points the model flags the pair iff its squared distance is strictly below tooclose*tooclose; the source's test is `dists < tooclose ** 2`"),
            ("QcelVerif.FromArrays.units_accepted_matches_source", "the unit words the model accepts after capitalize are the source's list ['Angstrom','Bohr'] in order; the default unit of from_arrays / from_input_arrays / validate_and_fill_units is the model's Angstrom"),
            ("QcelVerif.FromArrays.units_refused_outside_source_list", "for every input: a unit word whose capitalised form is not in the source's list is refused by validateUnits (never repaired)"),
            ("QcelVerif.FromArrays.iutau_window_matches_source", "for every input with valid connectivity and an accepted unit word: a supplied input_units_to_au x is accepted iff |x - default| < the source's window literal (0.05, compared exactly), else ValidationError"),
            ("QcelVerif.FromArrays.bohr_factor_matches_source", "the default conversion factor for Bohr is the source's literal 1.0"),
            ("QcelVerif.FromArrays.bondorder_range_matches_source", "for all integer atom indices a, b and every order o: normBond refuses iff a or b is below the source's floor 0 or o is outside the source's closed range [0, 5]; otherwise (min, max, o)"),
            ("QcelVerif.FromArrays.from_schema_call_matches_source", "for every recognised schema with a contiguous fragment pattern: fromSchema = fromArrays on units='Bohr', input_units_to_au=None, speclabel=False as written in from_schema's call, and from_arrays' own defaults for tooclose / mtol / zero_ghost_fragments (the call passes none of them)"),
        ],
        "trusted_base": [_TB + "from_arrays.py defaults tooclose/mtol/speclabel/nonphysical/zero_ghost_fragments/units, `dists < tooclose**2`, accepted unit words, the 0.05 window, bond-order range [0,5], "
                         "from_schema.py's from_arrays(...) keywords; harness/c04.py DEFAULT_ST is compared with the source defaults by the translator on every run."],
    },
    "C05": {
        "translators": [translate],
        "targets": ["QcelVerif.Props.ConstTieC05"],
        "theorems": [
            ("QcelVerif.ChgMult.chgmult_float_literals_ok", "[regenerated from chgmult.py] the float literals 0.0 (S4 default charge, ghost charge): decimal text, exact value, double and its value belong together"),
            ("QcelVerif.ChgMult.s5_range_matches_source", "for every specification without a total multiplicity: candM = range(lo, hi+1) with lo/hi the high-spin sums under the source's defaults 1 and 2 (_apply_default(..., 1) / (..., 2))"),
            ("QcelVerif.ChgMult.s6_missing_range_matches_source", "for every specification: missingMult is computed with the source's defaults 2 / 1 and is the source's (0, 0) when nothing is missing"),
            ("QcelVerif.ChgMult.s7_s6_candidates_match_source", "for every specification: an unspecified fragment multiplicity is tried over reversed(range(max(lo, 1), hi+1)) then 1 then 2 — floor and the two appended defaults as in the source, in its order"),
            ("QcelVerif.ChgMult.s4_candidates_match_source", "for every specification: an unspecified fragment charge is tried as the unallocated charge then the source's default 0.0"),
            ("QcelVerif.ChgMult.ghost_rewriting_matches_source", "zero_ghost_fragments with a ghost fragment present: totals forgotten, ghost fragments pinned to the source's charge 0.0 and multiplicity 1"),
            ("QcelVerif.ChgMult.zero_ghost_default_matches_source", "with the source's default zero_ghost_fragments=False (also from_arrays' default) the specification is not rewritten"),
            ("QcelVerif.ChgMult.r9_matches_source", "for every one-fragment candidate: the fragment rule demands the source's R9 values (charge 0, multiplicity 1) of a ghost fragment"),
            ("QcelVerif.ChgMult.r3_matches_source", "every candidate accepted by rulesOk has total and fragment multiplicities >= the source's _mult_ok bound 1"),
        ],
        "trusted_base": [_TB + "chgmult.py default zero_ghost_fragments, the S4/S5/S6/S7 default values and floor, the ghost rewriting values, R9's (0, 1), _mult_ok's bound."],
    },
    "C06": {
        "translators": [translate],
        "targets": ["QcelVerif.Props.ConstTieC06"],
        "theorems": [
            ("QcelVerif.Nucleus.nucleus_float_literals_ok", "[regenerated from nucleus.py] the float literals mtol=1.0e-3, mmtol=0.5 and the nonphysical mass floor 0.5: decimal text, exact value, nearest double and its value belong together"),
            ("QcelVerif.Nucleus.nonphysical_mass_floor_matches_source", "for every rounding function and mass: with nonphysical the model's mass test is x > 0.5 (strict) with the source's literal"),
            ("QcelVerif.Nucleus.physical_mass_window_matches_source", "whenever offerZ answers, its mass test is the closed window [fl(mmin - mmtol), fl(mmax + mmtol)] over the element's range with the source's mmtol = 0.5"),
            ("QcelVerif.Nucleus.mass_number_ranges_match_source", "for all bounds and x: the mass-number tests are x == -1 or x >= 1 (nonphysical) / x == -1 or amin <= x <= amax, with the source's sentinel and floor"),
            ("QcelVerif.Nucleus.unknown_A_sentinel_matches_source", "for all tables and masses: massToA is round(mass) or the source's sentinel -1; the sentinel exactly when the nuclide is not tabulated or its mass is > mtol away"),
            ("QcelVerif.Nucleus.mtol_edge_inside", "a mass exactly mtol away from the nuclide's mass passes the mass-number clue's test (<= mtol), as in the source"),
        ],
        "trusted_base": [_TB + "nucleus.py defaults speclabel/nonphysical/mtol, mmtol, the nonphysical mass floor and A floor, the unknown-A sentinel, the closedness of the mtol and mass-window tests; "
                         "harness/c06.py DOC_DEFAULTS is compared with the source defaults by the translator on every run."],
    },
    "C07": {
        "translators": [translate],
        "targets": ["QcelVerif.Props.ConstTieC07"],
        "theorems": [
            ("QcelVerif.TextToMol.text_float_literals_ok", "[regenerated from from_arrays.py] from_input_arrays' float defaults tooclose and mtol: decimal text, exact value, nearest double and its value belong together"),
            ("QcelVerif.TextToMol.text_options_match_source", "for every processed text: the from_arrays options of the text route are speclabel as written in from_string's call and from_input_arrays' defaults for tooclose / mtol / nonphysical / zero_ghost_fragments (from_string passes none of them; from_input_arrays forwards them unchanged)"),
            ("QcelVerif.TextToMol.text_settings_match_source", "the reconciler settings of the text route (textSettings) are those source values"),
            ("QcelVerif.TextToMol.text_default_unit_matches_source", "a text naming no unit is read in from_input_arrays' default unit; the model's two unit words are the source's accepted list"),
        ],
        "trusted_base": [_TB + "from_string.py's from_input_arrays(speclabel=True, ...) call (no tooclose/mtol/nonphysical/zero_ghost_fragments keywords), from_input_arrays' defaults and its forwarding; "
                         "harness/c07.py _TC2 is compared with the source default by the translator."],
    },
    "C08": {
        "translators": [translate],
        "targets": ["QcelVerif.Props.ConstTieC08"],
        "theorems": [
            ("QcelVerif.ToString.dtypes_match_source", "[regenerated from to_string.py] the keys of default_units (source order) and the branches of the dtype chain are exactly the model's fourteen dtypes, read with the driver's parseDtype?"),
            ("QcelVerif.ToString.default_units_match_source", "every entry of the source's default_units dict is the model's defaultUnit (one decide over the table)"),
            ("QcelVerif.ToString.formats_match_source", "every branch of the source: atom/ghost format literal, whether the caller's atom_format/ghost_format is honoured (literal / default-unless-given / given-if-truthy), xyze, and use of _atoms_formatter equal the model's formats (probed with overrides 'A', 'G', '')"),
            ("QcelVerif.ToString.to_string_defaults_match_source", "width=17, prec=12, units/atom_format/ghost_format=None, _atoms_formatter(xyze=False), empty ghost format drops ghosts"),
        ],
        "trusted_base": [_TB + "to_string.py default_units, the per-dtype atom_format/ghost_format assignments and xyze flags, width/prec defaults."],
    },
    "C12": {
        "translators": [translate],
        "targets": ["QcelVerif.Props.ConstTieC12"],
        "theorems": [
            ("QcelVerif.B787.align_float_literals_ok", "[regenerated from align.py] nine float literals (uno_cutoff defaults, a_convergence values, best_rmsd init, mirror pre-test constants, permutative atol, cost scale): decimal text, exact value, nearest double and its value belong together"),
            ("QcelVerif.B787.best0_matches_source", "the model's initial best (units of 1e-8 A) is the source's best_rmsd = 100.0 times 10^decimals of np.around(temp_rmsd, decimals=8)"),
            ("QcelVerif.B787.trial_update_matches_source", "for every state and trial: improvement iff temp < best (strict), early exit iff best < a_convergence (strict) and not run_to_completion"),
            ("QcelVerif.B787.a_convergence_matches_source", "PIN of harness-supplied arguments: mols_align=True means the double 1e-3 (100000 units), False means 0.0; defaults mols_align=False, run_to_completion=False"),
            ("QcelVerif.B787.uno_cutoff_defaults_match_source", "PIN: default uno_cutoff of B787 and _plausible_atom_orderings is the double 1e-3 the harness hard-codes; default algorithm hungarian_uno; mirror pre-test uses 0.1 / 1e-6; run_mirror/atoms_map/run_resorting default False"),
            ("QcelVerif.B787.molecule_align_defaults_match_source", "Molecule.align declares the same defaults as B787 (uno_cutoff, mols_align, run_to_completion, run_mirror, atoms_map, run_resorting; generic_ghosts=False) and forwards the six options unchanged without algorithm="),
            ("QcelVerif.Uno.edge_test_matches_source", "an entry of the reduced matrix is an edge iff it is strictly below the cutoff"),
            ("QcelVerif.Uno.class_cost_matches_source", "for all classes: the per-class cost entry is (K*sumC - K*sumR)^2 with the source's K = 100.0 and exponent 2"),
            ("QcelVerif.Uno.permutative_atol_matches_source", "PIN: the permutative filter's np.allclose atol is 1.0 (what the harness hands the model)"),
            ("QcelVerif.Uno.kabsch_short_circuit_is_exact", "kabsch_align's early return is guarded by np.array_equal(R, C) and nothing else (translator refuses any other test): the repaired close-geometry defect cannot silently return"),
        ],
        "trusted_base": [_TB + "align.py B787 keyword defaults, the a_convergence chain, best_rmsd=100.0, decimals=8, strict loop tests, mirror pre-test constants, _plausible_atom_orderings defaults, "
                         "allclose atol, `reducedcost < uno_cutoff`, the 100.0 cost scale and square, kabsch_align's array_equal guard. Values that are ARGUMENTS of the model (a_convergence, default uno_cutoff, atol) are pinned, "
                         "and harness/c12.py aconv_units(True/False) is compared with the source by the translator."],
    },
    "C15": {
        "translators": [translate],
        "targets": ["QcelVerif.Props.ConstTieC15"],
        "theorems": [
            ("QcelVerif.Formula.orders_match_source", "[regenerated from molecular_formula.py] parseOrder reads exactly the source's supported_orders, refuses every other word, and the default order of both functions is alphabetical"),
            ("QcelVerif.Formula.count_rule_matches_source", "for every symbol and count: the count is printed iff it exceeds the source's bound 1; a symbol without digits counts 1"),
            ("QcelVerif.Formula.hill_symbols_match_source", "for every symbol list: Hill order puts the source's 'C' then 'H' first"),
        ],
        "trusted_base": [_TB + "molecular_formula.py supported_orders, default order, the `c > 1` rule, the implicit count, the Hill test."],
    },
    "C16": {
        "translators": [translate],
        "targets": ["QcelVerif.Props.ConstTieC16"],
        "theorems": [
            ("QcelVerif.Orient.orient_noise_matches_source", "[regenerated from molecule.py] the phase threshold the driver uses is B ** (-GEOMETRY_NOISE) with the source's base 10 and GEOMETRY_NOISE = 8"),
            ("QcelVerif.Orient.phase_test_matches_source", "for every threshold, sign and entry: an undecided column skips entries with |val| < noise (strict) and flips iff val < 0 (strict)"),
            ("QcelVerif.Orient.zero_band_matches_source", "for every d and value: float_prep zeroes the rounded entry iff |k| * B^(d+O) < 10^d with the source's base 5 and offset 1"),
        ],
        "trusted_base": [_TB + "molecule.py GEOMETRY_NOISE, `geom_noise = 10 ** (-GEOMETRY_NOISE)`, the two strict tests of the phase loop, float_prep's zero band 5 ** (-(around + 1)); "
                         "harness/c16.py NOISE and FLUSH8 are compared with the source by the translator."],
    },
    "C17": {
        "translators": [translate],
        "targets": ["QcelVerif.Props.ConstTieC17"],
        "theorems": [
            ("QcelVerif.Radii.radii_get_defaults_match_source", "[regenerated from covalent_radii.py / vanderwaals_radii.py] get(units='bohr', return_tuple=False, missing=None) for both tables; the model's bBohr is that unit word"),
            ("QcelVerif.Radii.missing_returned_as_given_matches_source", "for every table/key without a radius: missing is returned unchanged when return_tuple is off, else DataUnavailable — the source's `if missing is not None and return_tuple is False: return missing`"),
        ],
        "trusted_base": [_TB + "the keyword defaults of CovalentRadii.get / VanderWaalsRadii.get and the missing-value branch."],
    },
    "C18": {
        "translators": [translate],
        "targets": ["QcelVerif.Props.ConstTieC18"],
        "theorems": [
            ("QcelVerif.Measure.measure_float_literals_ok", "[regenerated from connectivity.py / misc.py] threshold=1.2, the two 1.8 fall-back radii, the -1.0 factor: decimal text, exact value, nearest double and its value belong together"),
            ("QcelVerif.Measure.missing_radius_matches_source", "the model's fall-back radius missing18 is the double of both source literals (missing=1.8 and the NotAnElementError handler's 1.8)"),
            ("QcelVerif.Measure.clip_bounds_match_source", "for all points: the model's cosine is clip(dot/denom, lo, hi) with the source's bounds (-1, 1)"),
            ("QcelVerif.Measure.dihedral_first_vector_matches_source", "for all points: the dihedral model's first vector carries the source's factor -1.0"),
            ("QcelVerif.Measure.bond_criterion_matches_source", "for every threshold and pair: bonded iff the cutoff is positive and the squared distance strictly below its square (the source's dists < cutoff)"),
            ("QcelVerif.Measure.threshold_default_matches_source", "PIN of a harness-supplied argument: the default threshold is the double 1.2 the harness hands the model when the keyword is omitted"),
            ("QcelVerif.Measure.default_connectivity_matches_source", "default_connectivity defaults to None and is applied only when truthy (None and 0 give plain pairs)"),
        ],
        "trusted_base": [_TB + "connectivity.py threshold / default_connectivity defaults, both 1.8 fall-back radii, the strict criterion; misc.py clip bounds, the -1.0 factor, degrees defaults."],
    },
    "C19": {
        "translators": [translate],
        "targets": ["QcelVerif.Props.ConstTieC19"],
        "theorems": [
            ("QcelVerif.Compare.testing_float_literals_ok", "[regenerated from testing.py] atol=1.0e-6 and rtol=1.0e-16 of compare_values / compare_recursive / compare_molrecs: decimal text, exact value, nearest double and its value belong together"),
            ("QcelVerif.Compare.tolerance_defaults_match_source", "the model's atolDefault / rtolDefault are the doubles of compare_recursive's literals; compare_values and compare_molrecs declare the same defaults"),
            ("QcelVerif.Compare.flag_defaults_match_source", "options left out of compare_values mean the source's defaults equal_nan / equal_phase / passnone = False"),
            ("QcelVerif.Compare.proto_compare_defaults_match_source", "a.compare(b) without keywords is compare_recursive at the source's default tolerances with forgive=None, equal_phase=False (ProtoModel.compare forwards **kwargs only); compare_molrecs defaults forgive=None, relative_geoms='exact'"),
            ("QcelVerif.Compare.atol_refusal_matches_source", "for every input: atol >= the source's bound 1 makes both recursion models raise ValueError (the former decimal-places reading 10**-atol is refused)"),
            ("QcelVerif.Compare.atol_refusal_iff_source_bound", "on modelled inputs the wide model raises iff atol >= the source's bound"),
            ("QcelVerif.Compare.massaged_keys_match_source", "compare_molrecs normalises exactly the source's four keys in the source's order; every other field is compared as it is; each listed key has a real normaliser"),
            ("QcelVerif.Compare.provenance_pop_matches_source", "for every provenance dict: the source's key 'version' is removed when present, KeyError when absent"),
        ],
        "trusted_base": [_TB + "testing.py defaults of compare_values / compare_recursive / compare_molrecs, the `atol >= 1` refusal, massage_dicts' keys and popped key, the forwarding of atol/rtol/forgive; basemodels.py ProtoModel.compare's **kwargs forwarding."],
    },
}
