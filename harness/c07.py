"""C07 — molecule text reads back as written; parsing is layout-insensitive and total.

Streams (all from ctx.rng):
  A  round trip     Molecule -> to_string(xyz|xyz+|psi4, Bohr|Angstrom, prec 8..14) -> from_string /
                    Molecule.from_data / to_file+from_file; writer text also diffed against the Lean writer model (M2)
  B  layout         layout-preserving rewrites of the writer's texts -> identical from_string record
  C  totality       byte-level mutations of valid texts + grammar-alphabet token soups under xyz, xyz+, psi4
  S  separators     fixed single-blank texts with NON-default charge / multiplicity (charged, open-shell, several fragments
                    with distinct charges, efp lines) x every [\t ,]+ spelling on every separator-bearing line kind (xyz count line,
                    xyz+ chg/mult(+name) line, CHGMULT lines, atom lines, efp lines; trailing run where the grammar allows one)
                    -> identical from_string record and Molecule hash (kind oracle:layout_separators)
  T  token sweep    one-atom molecules for every element of the shipped table x written-token shapes (real/ghost x label
                    '' / '_word' / digits) through the stream-A round-trip oracle and the RW model lines (table-wide instance of
                    Props/C07Label.lean `written_token_reconciles` on the implementation)
  M1 correspondence every text of A/B/C/S (plus keyword/efp spellings) through the Lean line-filter model, compared with
                    the implementation's outcome class and its `return_processed=True` dictionary
  E2E correspondence the same texts through Driver/C07b.lean (text layer + from_input_arrays mapping + from_arrays with the C06
                    reconciler and the C05 stage) against from_string(...)['qm'] field by field and Molecule.from_data's
                    fields; every stream-A writer call as validated record + printed coordinates through writeMol + readMol.
                    The fixed keyword / separator texts are sent to both drivers first (never cut by the case budget).
"""
from __future__ import annotations

import contextlib
import io
import os
import re as _re
import tempfile
import warnings
from fractions import Fraction

import numpy as np

import c07_flow
import c07_regex
from common import Ctx, Finding, Outcome, err_class

PROPERTY = "C07"
# the text grammar (every pattern the xyz / xyz+ / psi4 routes of from_string.py and filter_comments apply) is regenerated from the
# working tree on every run: harness/c07_regex.py -> lean/QcelVerif/Gen/FromStringRegex.lean
TRANSLATORS = [c07_regex.gen_fromstring_regex, c07_flow.gen_fromstring_flow]
LEAN_TARGETS = ["QcelVerif.Props.C07", "QcelVerif.Lemmas.MolTextJoin", "QcelVerif.Props.C07Text", "QcelVerif.Driver.C07",
                "QcelVerif.Model.TextToMol", "QcelVerif.Driver.C07b", "QcelVerif.Props.C07E2E", "QcelVerif.Props.C07Hash",
                "QcelVerif.Lemmas.C07Label", "QcelVerif.Props.C07Label", "QcelVerif.Props.C07Full",
                # the text grammar regenerated from the source, the generic engine on it, and M1's recognisers proved equal to it
                "QcelVerif.Gen.FromStringRegex", "QcelVerif.Model.RegexOps", "QcelVerif.Model.MolTextRe", "QcelVerif.Driver.C07c",
                "QcelVerif.Lemmas.RegexKit", "QcelVerif.Lemmas.C07ReBridge", "QcelVerif.Lemmas.C07ReShapes", "QcelVerif.Lemmas.C07ReNumber",
                "QcelVerif.Lemmas.C07ReSep", "QcelVerif.Lemmas.C07ReComment", "QcelVerif.Lemmas.C07ReXyz1strict", "QcelVerif.Lemmas.C07ReXyz1",
                "QcelVerif.Lemmas.C07ReChgmult", "QcelVerif.Lemmas.C07ReNumberI", "QcelVerif.Lemmas.C07ReAtomShapes", "QcelVerif.Lemmas.C07ReAtomLine",
                "QcelVerif.Lemmas.C07ReSimpleNuc", "QcelVerif.Lemmas.C07ReNucleus", "QcelVerif.Lemmas.C07ReUnits", "QcelVerif.Lemmas.C07ReKeywords",
                "QcelVerif.Lemmas.C07ReEfp", "QcelVerif.Lemmas.C07ReFrags", "QcelVerif.Props.C07Regex",
                # the composition of the psi4 reader regenerated from from_string.py's statements (harness/c07_flow.py), its evaluator, the theorems, the driver
                "QcelVerif.Model.MolTextFlow", "QcelVerif.Gen.FromStringFlow", "QcelVerif.Props.C07Flow", "QcelVerif.Props.C07FlowMints", "QcelVerif.Driver.C07d"]
DRIVER = "QcelVerif/Driver/C07.lean"
THEOREMS = [
    ("QcelVerif.C07Flow.universals_flow_eq", "_filter_universals as regenerated statement by statement from from_string.py (four found-flags, strip, com/orient/bohrang/symmetry tried in the source's order while not yet found, non-empty lines kept, callbacks' stores), run by the evaluator on ANY list of classified lines from a fresh record = M1's univGo on the non-blank lines: same units / fix_com / fix_orientation / fix_symmetry, same remnant lines in order, every statement interpreted"),
    ("QcelVerif.C07Flow.filterFragment_flow_eq", "filter_fragment as regenerated from from_string.py, run on ANY fragment lines from ANY record: fragment separator from the atoms read so far, labels / coordinates of the Cartesian atom lines, the FIRST CHGMULT line (None, None when there is none) appended exactly as M1's fragSum summarises the fragment; the remnant is the lines M1 counts as remnant"),
    ("QcelVerif.C07Flow.mints_flow_eq", "_filter_mints as regenerated (fragment loop; system CHGMULT header taken in the FIRST fragment only and only when it is that fragment's sole line; filter_fragment on every other fragment; non-empty remnants kept) followed by the leftover-text MoleculeFormatError and the return = M1's mints (assemble) on EVERY list of fragments free of blank lines, from the record the earlier filters hand over"),
    ("QcelVerif.C07Flow.noBlank_reaches", "no blank line reaches _filter_mints: what univGo leaves of the non-blank lines, split at markers and passed through efpGo, holds no blank line (hypothesis of mints_flow_eq discharged)"),
    ("QcelVerif.C07Flow.psi4_flow_eq", "the psi4 reader regenerated from the source - parse_as_psi4_ish's chain pubchem, universals, libefp, mints in the source's order, the statements of _filter_universals and _filter_mints / filter_fragment, the leftover-text raise, the return - equals M1's parsePsi4Lines on EVERY list of classified lines (_filter_pubchem / _filter_libefp run as M1 models them)"),
    ("QcelVerif.C07Flow.srcRead_eq_parseText_partial", "PARTIAL: the reader regenerated from from_string.py (head filter_comments(molstr.strip()), line split, per-line strip, and for psi4 the regenerated chain) = M1's parseText for EVERY text and each of xyz / xyz+ / psi4; partial because the xyz / xyz+ routes of the regenerated reader are M1's parseXyzLines (_filter_xyz not regenerated), _filter_libefp / _filter_pubchem are M1's, and the joins / splits between the filters are read at line level"),
    ("QcelVerif.C07Flow.read_write_psi4_src", "read_write_psi4_text restated over the regenerated reader: the psi4 TEXT writePsi4 prints for any well-formed record, read by the statements of from_string.py, gives exactly projectPsi4 r"),
    ("QcelVerif.C07Flow.read_write_xyzplus_src_partial", "PARTIAL: read_write_xyzplus_text restated over the regenerated reader, whose xyz+ route is still M1's (_filter_xyz not regenerated; only the head of from_string and the line split are the source's)"),
    ("QcelVerif.C07Flow.srcRead_total", "totality restated over the regenerated reader: on ANY text it returns a processed record, MoleculeFormatError, or out-of-scope exactly where M1 declares out-of-scope (pubchem line, three-point efp form) - no .unknown statement or uninterpretable store is ever met"),
    ("QcelVerif.C07Flow.forLines_universals", "the regenerated universals line loop from any M1 state (embedded as flags + record) over any lines = univGo from that state, blank lines dropped"),
    ("QcelVerif.C07Flow.shape_universals", "SHAPE [rfl]: the regenerated _filter_universals is: flags cleared, one loop (strip; com, orient, bohrang, symmetry each under `if not X_found`, in this order, on every line; `if line:` keep), return of the newline-joined remnant"),
    ("QcelVerif.C07Flow.shape_mints", "SHAPE [rfl]: the regenerated _filter_mints is one loop over the `--` fragments (strip; FIRST fragment a lone CHGMULT line -> system charge/multiplicity, every other through filter_fragment; non-empty remnant kept) and NOTHING after it but the return; filter_fragment is: separator from the atoms so far, first CHGMULT line is the fragment's, Cartesian atom lines consumed into elbl/geom, None/None when no CHGMULT line"),
    ("QcelVerif.C07Flow.shape_dispatch", "SHAPE [rfl]: from_string's head is strip then filter_comments; parse_as_psi4_ish chains pubchem, universals, libefp, mints in this order, raises MoleculeFormatError on leftover text, then returns; the dtype dispatch sends xyz/xyz+ to parse_as_xyz_ish(strict=True/False), psi4/psi4+ to parse_as_psi4_ish(unsettled=False/True)"),
    ("QcelVerif.MolText.tokens_roundtrip", "splitting the join of non-empty separator-free tokens (any non-empty [\\t ,]+ runs between them) returns the tokens"),
    ("QcelVerif.MolText.strip_join", "surrounding blanks disappear: strip (pad ++ joined tokens ++ pad) = joined tokens"),
    ("QcelVerif.MolText.isNumber_fixed", "every fixed-point string [-]d+.d+ (what '{:.{prec}f}' prints for a finite double, prec >= 1) is accepted by the NUMBER recogniser"),
    ("QcelVerif.MolText.numVal_fixed", "the decimal value read from [-]d+.d+ is exactly (+-)(digits as a natural number) * 10^-(number of decimals)"),
    ("QcelVerif.MolText.isNumber_int", "an optionally '-'-signed natural number (how charges are written) is accepted by NUMBER and read back as that integer"),
    ("QcelVerif.MolText.nucleus_roundtrip", "decoding the written nucleus token (elem+label, '@'elem, 'Gh('elem+label')') gives back ghost flag, symbol and user label for every 1-3 letter symbol and grammar-conformant label"),
    ("QcelVerif.MolText.simple_nucleus_accepts", "a 1-3 letter symbol is accepted by the strict-xyz nucleus recogniser"),
    ("QcelVerif.MolText.read_write_xyz", "strict xyz: reading the lines written for a ghost-free record in Angstrom gives its symbols and printed coordinates (units Angstrom), nothing left over (printed atom count a parameter)"),
    ("QcelVerif.MolText.read_write_xyzplus", "xyz+: reading the written lines gives symbols, ghost markers, printed coordinates, unit marker, total charge and multiplicity"),
    ("QcelVerif.MolText.read_write_psi4", "psi4: reading the written lines gives labels (symbol, ghost, user label), printed coordinates, units, total and per-fragment charge/multiplicity, fragment boundaries, no_com/no_reorient, nothing left over - any number of fragments"),
    ("QcelVerif.MolText.sepsGo_bounds", "with non-empty fragments the fragment boundaries read back are the running atom counts n1, n1+n2, ..."),
    ("QcelVerif.MolText.classify_atomLine", "a written atom line (17-wide padded label, three right-justified 17-wide numbers, two-blank gaps) is tokenised and classified as exactly that atom line"),
    ("QcelVerif.MolText.blank_lines_insensitive_psi4", "psi4 line reader: inserting blank lines anywhere does not change the result"),
    ("QcelVerif.MolText.blank_lines_insensitive_xyz", "xyz / xyz+ line readers: inserting blank lines after the two header lines does not change the result"),
    ("QcelVerif.MolText.comment_suffix_removed", "filter_comments (as repaired): s ++ '#' ++ c  ->  s for comment-free s not ending in a backslash and c without newline (the character before '#' is kept)"),
    ("QcelVerif.MolText.numVal_plus", "a leading '+' does not change the value read"),
    ("QcelVerif.MolText.numVal_leading_zero", "leading zeros of the integer part do not change the value read"),
    ("QcelVerif.MolText.numVal_trailing_zero", "a trailing zero of the fraction does not change the value read"),
    ("QcelVerif.MolText.isNumber_exp_case", "E, e, D and d exponent letters are interchangeable (accepted alike, same value)"),
    ("QcelVerif.MolText.parse_total", "the text-level model returns either a processed record or MoleculeFormatError (or declares the text outside its scope) - by construction; its content is the correspondence"),
    ("QcelVerif.MolText.written_psi4_clean", "every line writePsi4 prints for a record meeting RecOk holds no '#' and no newline and begins and ends with a non-blank character (last one not a backslash)"),
    ("QcelVerif.MolText.written_xyz_clean", "every line writeXyz prints for a record meeting XyzOk (title text without '#'/newline) holds no '#' and no newline and is not blank; all but the title line begin and end with a non-blank character"),
    ("QcelVerif.MolText.textLines_join", "for lines without '#'/newline whose first and last are not blank: strip -> filter_comments -> split('\\n') -> per-line strip of their '\\n'-join gives the per-line strip of the lines"),
    ("QcelVerif.MolText.textLines_comments", "the same with an arbitrary '#comment' (no newline) after any line whose line part does not end in a backslash: the stripped line parts come back"),
    ("QcelVerif.MolText.read_write_psi4_text", "psi4, TEXT level: the whole reader model (outer strip, filter_comments, line split, per-line strip, line filters) on '\\n'.join(written lines)+'\\n' gives projectPsi4 r for every record meeting RecOk"),
    ("QcelVerif.MolText.read_write_xyzplus_text", "xyz+, TEXT level: the whole reader model on the written text gives projectXyzPlus r for every record meeting XyzOk whose title text holds no '#'/newline"),
    ("QcelVerif.MolText.read_write_xyz_text", "strict xyz, TEXT level: the whole reader model on the text written for a ghost-free Angstrom record gives projectXyz r"),
    ("QcelVerif.MolText.parseText_frame", "whitespace (incl. empty lines) before and after ANY text does not change what the reader model returns, for every dtype"),
    ("QcelVerif.MolText.psi4_layout_insensitive", "two laid-out psi4 texts (lines with optional comments, surrounding whitespace) with the same non-blank stripped line parts read alike"),
    ("QcelVerif.MolText.xyz_layout_insensitive", "xyz / xyz+: the same with the two header lines kept in place"),
    ("QcelVerif.MolText.psi4_text_layout", "any laid-out text whose non-blank stripped line parts are the written psi4 lines reads back as projectPsi4 r"),
    ("QcelVerif.MolText.xyzplus_text_layout", "any laid-out text whose header line parts strip to the written header lines and whose non-blank stripped body line parts are the written atom lines reads back as projectXyzPlus r"),
    ("QcelVerif.MolText.xyz_text_layout", "the same for strict xyz and projectXyz r"),
    ("QcelVerif.MolText.read_write_psi4_text_comments", "the written psi4 text with an arbitrary '#comment' after any of its lines and arbitrary whitespace around it still reads back as projectPsi4 r"),
    ("QcelVerif.MolText.psi4_insert_blank_line", "inserting a blank or comment-only line between two lines of a laid-out psi4 text does not change what is read"),
    # ---- end to end (Model/TextToMol.lean: text layer -> from_input_arrays mapping -> from_arrays (C04) with the C06 reconciler and the C05 stage)
    ("QcelVerif.TextToMol.read_text_psi4", "composed reader on the psi4 TEXT written for any record meeting RecOk = validation (from_input_arrays + from_arrays) of exactly the fields the psi4 text carries"),
    ("QcelVerif.TextToMol.read_text_xyzplus", "the same for the xyz text read as xyz+ (any title text without '#'/newline)"),
    ("QcelVerif.TextToMol.read_text_xyz", "the same for strict xyz (Angstrom, ghost-free)"),
    ("QcelVerif.TextToMol.fromArrays_textInp", "assembly: for a validated record r (fixed point of from_arrays) and a text input whose tokens alone re-derive r's atoms, whose coordinates pass the closeness screen, whose fragment arguments are accepted with r's separators and whose charge stage returns r's values, from_arrays returns r with the text's unit and coordinates (name/comment/connectivity/input_units_to_au dropped)"),
    ("QcelVerif.TextToMol.read_write_validated_psi4_partial", "PARTIAL (a): a validated record written as psi4 text and read through the whole composed reader comes back with the printed coordinates and the text's unit, every other carried field unchanged - hypotheses: text carries the record's integers/separators, printed coordinates pass the 0.1 screen in the text's unit, each written nucleus token alone is answered with the record's atom (hlab, not proved), charge stage result (hcm)"),
    ("QcelVerif.TextToMol.read_write_validated_psi4_multi_partial", "PARTIAL (a), psi4 with several fragments: hcm discharged (the text states exactly the specification the record was validated with); only hlab remains"),
    ("QcelVerif.TextToMol.read_write_validated_psi4_single_partial", "PARTIAL (a), psi4 with one fragment: hcm discharged by vfc_single_totals_absent; only hlab remains"),
    ("QcelVerif.TextToMol.vfc_single_totals_absent", "C05 on a single-fragment psi4 text: validate_and_fill_chgmult with the fragment's charge/multiplicity given and the totals absent returns what it returns with the totals given as well"),
    ("QcelVerif.TextToMol.read_write_validated_xyzplus_partial", "PARTIAL (a), xyz+: single-fragment record without user labels comes back with printed coordinates, unit, total charge/multiplicity, frame flags off - hlab and the C05 step (totals given, fragment values absent) are hypotheses"),
    ("QcelVerif.TextToMol.stages_of_fix", "a fixed point of from_arrays passes its own fragment stage and charge stage with its own values (what from_arrays_idempotent's conclusion provides to the text round trip)"),
    ("QcelVerif.TextToMol.readMol_documented", "(c) every outcome of the composed reader is a validated record, the empty record, MoleculeFormatError, ValidationError, NotAnElementError, or an explicit out-of-scope / model-gap declaration - a statement about the model (by its type); that from_string matches it is the correspondence"),
    ("QcelVerif.TextToMol.readMol_gap_only_c06_other", "(c) the model-gap outcome can only arise from the C06 model's own 'other' class (table lookup that cannot happen on the shipped table); the C05 'malformed' class is excluded by proof"),
    ("QcelVerif.TextToMol.readMol_formatError_iff", "(c) the composed reader raises MoleculeFormatError exactly when the text layer does"),
    ("QcelVerif.TextToMol.roundtrip_same_canon", "(b) for a record without connectivity: if every coordinate read back has the same 8-decimal float_prep image [bohr] as the stored one, the molecule read back has the same C11 canonical hash fields, whatever the text's unit/name/comment/frame flags"),
    ("QcelVerif.TextToMol.roundtrip_same_hash", "(b) hence the same hash (C11 hash_of_canon)"),
    ("QcelVerif.TextToMol.printed_same_prep", "PARTIAL (b): coordinates read back within 1e-10 bohr (>= 10 printed decimals) of stored ones that are not within 0.02e-8 of a rounding boundary have the same float_prep image (C11 round_stable); 8 and 9 decimals need the exact margin (oracle only)"),
    # ---- the written nucleus token alone re-derives the atom (Props/C07Label.lean): hlab discharged
    ("QcelVerif.TextToMol.matchNucleus_written", "(i) C06's BACKTRACKING model of the compiled NUCLEUS regex (greedy first, alternatives in source order) decodes the three token shapes the writers print - elem+label, '@'elem+label, 'Gh('elem+label')' - into exactly (ghost marker as written, no A, E = elem, user = label or absent when empty, no Z, no mass), for ALL 1-3 letter symbols and ALL grammar-conformant labels (SymOk/LblOk: the conformance predicates inside AtomOk/RecOk/XyzOk of every round-trip theorem); structural, no size bound"),
    ("QcelVerif.TextToMol.parseLabel_nucPsi4", "parse_nucleus_label (C06 model) of the psi4 token of an atom = (symbol, real/ghost flag, user label), nothing else"),
    ("QcelVerif.TextToMol.parseLabel_nucXyz", "the same for the xyz token elem / '@'elem: symbol and real/ghost flag, no user label"),
    ("QcelVerif.TextToMol.written_token_decoders_agree", "M1's hand-written NUCLEUS recogniser (classifies the line) and C06's backtracking matcher (reads the token inside reconcile_nucleus) decode a written psi4 token to the same ghost flag, symbol and user label"),
    ("QcelVerif.TextToMol.label_only_eq_symbol_clue", "(ii) ANY periodic table / rounding function / range table: if reconcile_nucleus(E=elem) - under any tolerance - answers o, then the written psi4 token alone as label (speclabel=True) is answered with o's (A, Z, E, mass), the token's real/ghost flag and the lower-cased user label"),
    ("QcelVerif.TextToMol.shipped_symbols_ok", "shipped table [decide +kernel over the regenerated element rows]: every element symbol is 1-3 ASCII letters, so (i) covers the whole shipped periodic table"),
    ("QcelVerif.TextToMol.written_token_reconciles", "(ii) shipped table, rd64: for every atom that is the default isotope of a shipped element (A = to_A(Z), mass = float(to_mass(Z))) with a grammar-conformant lower-case label, real or ghost, reconcile_nucleus(label=psi4 token, speclabel=True, from_string's settings) returns exactly the record's (A, Z, E, mass, real, label)"),
    ("QcelVerif.TextToMol.written_xyz_token_reconciles", "the same for the xyz token (elem / '@'elem) and an atom without user label"),
    ("QcelVerif.TextToMol.written_token_answer_is_default", "CONVERSE, any table: whatever reconcile_nucleus answers to a written token has A = to_A(Z) and mass = float(to_mass(Z)) - the token names no mass number and no mass (C06 reconcile_default)"),
    ("QcelVerif.TextToMol.isotope_not_carried", "hence an atom whose mass is not its element's default mass is never the answer to its own written token: isotope substitution is not carried by xyz/xyz+/psi4 and 'format-carriability' (Carried) cannot be weakened"),
    ("QcelVerif.TextToMol.writeMol_ignores_isotopes", "the writers print neither mass numbers nor masses nor atomic numbers: records differing only there have the same text in every format, unit and precision"),
    ("QcelVerif.TextToMol.validated_labels_lower", "every user label of a record returned by from_arrays (C06 reconciler, shipped table, any rounding) is lower-case, so the lower-case clause of Carried is free for validated records"),
    ("QcelVerif.TextToMol.hlab_of_carried", "hlab for psi4 text: for any number of carried atoms, the written tokens, each alone, are answered by the reconciler with the record's atoms in order"),
    ("QcelVerif.TextToMol.hlab_xyz_of_carried", "hlab for xyz/xyz+ text (atoms without user labels)"),
    # ---- Props/C07Full.lean: the end-to-end theorems without hlab / hcm, and the headline
    ("QcelVerif.TextToMol.read_write_validated_psi4_multi", "(a) FULL, psi4 with several fragments: a validated record (fixed point of from_arrays; C06 reconciler over the shipped table under rd64) whose atoms are format-carried (default isotopes, conforming lower-case labels), written as psi4 text that carries its integers and read through the whole composed reader, comes back with the printed coordinates and the text's unit, every other carried field unchanged - no hlab, no hcm; remaining hypotheses: printed numbers convert to the record's integers / to g (float() parameter) and g passes the 0.1 screen in the text's unit"),
    ("QcelVerif.TextToMol.read_write_validated_psi4_single", "(a) FULL, psi4 with one fragment (single charge/multiplicity line taken as the fragment's, totals completed by C05)"),
    ("QcelVerif.TextToMol.read_write_validated_psi4", "(a) FULL, psi4, either shape the writer prints"),
    ("QcelVerif.TextToMol.vfc_single_fragment_absent", "C05 on a single-fragment xyz+ text: validate_and_fill_chgmult with the totals given and the fragment's charge/multiplicity absent returns what it returns with everything given"),
    ("QcelVerif.TextToMol.read_write_validated_xyzplus", "(a) FULL, xyz+: validated single-fragment record of format-carried atoms without user labels comes back with printed coordinates, unit, total charge/multiplicity, frame flags off - no hlab, no hcm"),
    ("QcelVerif.TextToMol.text_roundtrip_same_hash", "HEADLINE: a validated molecule stored in Bohr without connectivity, of format-carried atoms, written as psi4 text in Bohr with >= 10 decimals (coordinates read back within 1e-10 of stored ones that are not within 0.02e-8 of an 8-decimal rounding boundary) and read back through the whole composed reader is a molecule record - the original with the printed coordinates, still in Bohr - with the SAME C11 hash; every hypothesis explicit (fixed point, RecOk, Carried, float()/int() of the printed numbers, closeness screen, precision, FlOk of the hash's rounding)"),
    # ---- Props/C07Regex.lean: M1's hand recognisers = the generic regex engine on the ASTs regenerated from the source (every string)
    ("QcelVerif.C07Regex.number_eq_regex", "NUMBER: re.compile(NUMBER, re.VERBOSE).fullmatch(token), computed by the generic backtracking engine on the AST regenerated from regex.py, succeeds exactly when M1's hand recogniser isNumber accepts the token - every string"),
    ("QcelVerif.C07Regex.number_extent", "NUMBER inside a line: from any cursor the ways the NUMBER body can match are exactly the splits of the remaining text into a token accepted by isNumber and a rest, only the cursor moving (what the CHGMULT theorems build on)"),
    ("QcelVerif.C07Regex.number_group_whole", "a full match of NUMBER captures the whole token in group 1 (the text _float is given)"),
    ("QcelVerif.C07Regex.sep_eq_regex", "SEP: re.split(r'[\\t ,]+', s) by the engine on the regenerated AST = M1's separator splitter splitSep, every string (same fields, empty first/last field kept)"),
    ("QcelVerif.C07Regex.comment_eq_regex", "filter_comments: re.sub(r'(^|[^\\\\])#.*', r'\\1', s) by the engine on the pattern re-read from util/misc.py = M1's character-by-character comment stripper filterComments, every string (the character before '#' is kept, a backslash protects '#', the comment ends before the newline)"),
    ("QcelVerif.C07Regex.xyz1strict_eq_regex", "xyz1strict = \\A(\\d+)\\Z: matched exactly when M1's isNatLine accepts the line, group nat = the line"),
    ("QcelVerif.C07Regex.xyz1_eq_regex", "xyz1 (IGNORECASE): acceptance and the unit as process_bohrang reads the groups uang / ubohr = M1's matchXyz1 (maximal digit run, maximal [\\s,] run, then nothing or bohr | au | ang)"),
    ("QcelVerif.C07Regex.xyz2_eq_regex", "xyz2 = \\A CHGMULT as a PREFIX match: acceptance and the texts of groups chg / mult of the first way to match (greedy: longest multiplicity digits) = M1's matchXyz2"),
    ("QcelVerif.C07Regex.cgmp_eq_regex", "cgmp = \\A CHGMULT \\Z: acceptance and the texts of groups chg / mult = M1's line classifier answering .cgmp with the first separator field and the multiplicity"),
    ("QcelVerif.C07Regex.cgmp_parts", "whenever M1 classifies a line as a CHGMULT line, the number it stores is parseNumber of exactly the text the regex captures as chg"),
    ("QcelVerif.C07Regex.nucleus_extent", "NUCLEUS inside a line: from the start of a line the nucleus group of atom_cartesian (NUCLEUS under IGNORECASE, groups renumbered, conditional ')' on gh2) takes exactly the prefixes M1's hand recogniser isNucleus accepts - every accepted prefix, backtracking included - and captures the prefix as group nucleus"),
    ("QcelVerif.C07Regex.atom_eq_regex", "atom_cartesian = \\A(NUCLEUS) SEP (x NUMBER) SEP (y NUMBER) SEP (z NUMBER)\\Z (IGNORECASE): acceptance and the texts of groups nucleus / x / y / z = M1's line classifier answering .atom with the four separator fields, every string"),
    ("QcelVerif.C07Regex.atomStrict_eq_regex", "atom_cartesian_strict (SIMPLENUCLEUS = 1-3 letters | 1-3 digits): acceptance and group texts = M1's strict atom line (an atom line whose label passes isSimpleNucleus), every string"),
    ("QcelVerif.C07Regex.atom_parts", "whenever M1 classifies a line as an atom line, its label is the text the regex captures as nucleus and its three numbers are parseNumber of the texts captured as x / y / z"),
    ("QcelVerif.C07Regex.atom_line_structure", "generic atom line: for ANY nucleus pattern whose extent at line start is a hand predicate P (no separator inside, not empty), \\A(N) SEP NUMBER SEP NUMBER SEP NUMBER\\Z read through its groups = 'exactly four separator fields: P, NUMBER, NUMBER, NUMBER'"),
    ("QcelVerif.C07Regex.com_eq_regex", "com = \\A(no_com|nocom)\\Z (IGNORECASE) matched exactly when M1's classifier answers .com, every string"),
    ("QcelVerif.C07Regex.orient_eq_regex", "orient = \\A(no_reorient|noreorient)\\Z (IGNORECASE) matched exactly when M1's classifier answers .orient, every string"),
    ("QcelVerif.C07Regex.sym_eq_regex", "symmetry = \\Asymmetry[\\s=]+(\\w+)\\Z (IGNORECASE): acceptance and the lower-cased text of group pg = M1's classifier answering .sym pg, every string"),
    ("QcelVerif.C07Regex.efp_eq_regex", "efpxyzabc = \\A efp SEP (\\w+) (SEP NUMBER) x 6 ENDL \\Z (IGNORECASE): acceptance and the texts of groups efpfile, x, y, z, a, b, c = M1's classifier answering .efp (eight separator fields, optional trailing separator run), every string"),
    ("QcelVerif.C07Regex.frags_eq_regex", "fragment_marker: re.split(r'^\\s*--\\s*$' [MULTILINE], text) by the engine, each piece cut into its non-empty stripped lines as the callers do, = M1's line view (the non-empty stripped lines split at lines that are exactly '--'), EVERY text - blank lines, surrounding whitespace incl. \\s* running over newlines"),
    ("QcelVerif.C07Regex.shapes_keywords_efp_marker", "SHAPE obligations [rfl]: fragment_marker = ^ \\s* - - \\s* $ (MULTILINE anchors); efpxyzabc = \\A case-folded 'efp' SEP (1 (2 \\w+)) (SEP NUMBER) for groups 3,5,7,9,11,13, [\\t ,]* $ \\Z"),
    ("QcelVerif.MolText.fragmentMarker_shape", "shape [rfl]: fragment_marker stage decomposition"),
    ("QcelVerif.MolText.efpxyzabc_shape", "shape [rfl]: efpxyzabc stage decomposition"),
    ("QcelVerif.C07Regex.units_eq_regex_partial", "PARTIAL: bohrang (units? [\\s=]+ bohr|au|a.u.|ang|angstrom, IGNORECASE) as process_bohrang reads its groups = M1's classifier answering .units Bohr/Angstrom, for every string WITHOUT a newline (every line of a text); soundness (regex match => M1 answer) holds for every string"),
    ("QcelVerif.C07Regex.units_newline_counterexample", "the newline hypothesis is needed: on 'units a\\nu\\n' M1's classifyUnits (dots of a.u. = any character) answers Bohr, the regex ('.' excludes newline) does not match - never reachable from a text, whose lines hold no newline"),
    ("QcelVerif.C07Regex.shapes_nucleus_units", "SHAPE obligations [rfl]: the NUCLEUS group of atom_cartesian = ghost / label / mass / close stages; bohrang = case-folded 'unit' s? [\\s=]+ (unit words) \\Z"),
    ("QcelVerif.MolText.atomCartesian_shape", "shape [rfl]: atom_cartesian = \\A (group 1 NUCLEUS) SEP (16 NUMBER) SEP (18 NUMBER) SEP (20 NUMBER) \\Z"),
    ("QcelVerif.MolText.atomCartesianStrict_shape", "shape [rfl]: atom_cartesian_strict = \\A (group 1 SIMPLENUCLEUS) SEP (5 NUMBER) SEP (7 NUMBER) SEP (9 NUMBER) \\Z"),
    ("QcelVerif.MolText.com_shape", "shape [rfl]: com = \\A group1(n o (_com | com)) \\Z, case-folded"),
    ("QcelVerif.MolText.orient_shape", "shape [rfl]: orient = \\A group1(n o (_reorient | reorient)) \\Z, case-folded"),
    ("QcelVerif.MolText.symmetry_shape", "shape [rfl]: symmetry = \\A 'symmetry' [\\s=]+ group1(\\w+) \\Z, case-folded"),
    ("QcelVerif.MolText.bohrang_shape", "shape [rfl]: bohrang stage decomposition"),
    ("QcelVerif.C07Regex.anchored_sub_is_match", "re.sub / re.subn / re.search with a pattern that starts with \\A can only match at the start of the line: the substitution is decided by re.match (any pattern, any string)"),
    ("QcelVerif.C07Regex.anchored_patterns", "every line pattern of from_string.py that the model treats through re.match does start with \\A in the regenerated AST (xyz1strict, xyz1, xyz2, cgmp, atom_cartesian, atom_cartesian_strict, com, orient, bohrang, symmetry, efpxyzabc)"),
    ("QcelVerif.C07Regex.generated_cannot_match_empty", "the scanned patterns (comment, SEP, fragment_marker) cannot match the empty string and no regenerated AST repeats a nullable body, so neither CPython's empty-match rules nor the engine's fuel ever matter"),
    ("QcelVerif.C07Regex.shapes", "SHAPE obligations [rfl]: each regenerated AST (NUMBER, SEP, comment, xyz1strict, xyz1, xyz2, CHGMULT, cgmp, atom_cartesian, atom_cartesian_strict) is the stage decomposition its proof walks through - an edit of the pattern in the source that changes CPython's parse tree breaks this"),
    ("QcelVerif.MolText.number_shape", "shape [rfl]: NUMBER = group 1 of (.num | num. | num), each sign? digits . digits exponent?"),
    ("QcelVerif.MolText.comment_shape", "shape [rfl]: the comment pattern = group 1 (^ | [^\\\\]) then '#' then greedy [^\\n]*"),
    ("QcelVerif.MolText.xyz1strict_shape", "shape [rfl]: xyz1strict = \\A group1(\\d+) \\Z"),
    ("QcelVerif.MolText.xyz1_shape", "shape [rfl]: xyz1 = \\A group1(\\d+) [\\s,]* (unit group)? \\Z with case-folded bohr | au | ang"),
    ("QcelVerif.MolText.xyz2_shape", "shape [rfl]: xyz2 = \\A CHGMULT"),
    ("QcelVerif.MolText.cgmp_shape", "shape [rfl]: cgmp = \\A CHGMULT \\Z"),
    ("QcelVerif.MolText.sep_shape", "shape [rfl]: SEP = greedy [\\t ,]+"),
    ("QcelVerif.Regex.search_bos", "engine: search with a \\A-anchored pattern = match at the start"),
    ("QcelVerif.TextToMol.deuterium_not_carried", "test [decide +kernel, whole pipeline on the shipped table]: a deuterium record and the plain 1H record are both fixed points of from_arrays, are written as the same text, and that text reads back as the 1H record - isotope information is genuinely not carried"),
]
TRUSTED_BASE = [
    "Lean 4.33 kernel; axioms per theorem audited on every run (subset of propext, Classical.choice, Quot.sound)",
    "hand-written models Model/MolText.lean: M1 (filter_comments, strip, line filters of from_string.py with hand-written recognisers for NUMBER/NUCLEUS/CHGMULT/keywords) and M2 (xyz/xyz+/psi4 writers of to_string.py as token lines + token-line reader). M1's RECOGNISERS for NUMBER, SEP, the comment pattern, xyz1strict, xyz1, xyz2, cgmp, atom_cartesian (incl. NUCLEUS inside the line), atom_cartesian_strict, com, orient, symmetry and bohrang (lines without newline) are no longer trusted transcriptions: each is proved equal, for every string, to the generic regex engine on the AST regenerated from the source (Props/C07Regex.lean). efpxyzabc and the fragment_marker split (against M1's marker lines) likewise. Still hand-written and tied differentially only: the three-point efp form (efppoints; M1 declares it out of scope), the order in which the line filters apply the recognisers (_filter_xyz, _filter_universals, _filter_libefp, _filter_mints), str.strip / str.split, and M2",
    "harness/c07_regex.py:gen_fromstring_regex + harness/regex_gen.py (translator): executes regex.py from the working tree, takes pattern and flags of every compiled pattern from the from_string module imported from QCEL_REPO (refuses a module imported from elsewhere), reads filter_comments' inline re.sub (pattern, template '\\1') and the entry point of every use site (re.sub / re.subn / re.split / .match) from the syntax trees - any other shape raises; parses each pattern with CPython's re._parser and re-encodes the parse tree constructor by constructor (IGNORECASE folded into ASCII classes, each class cross-checked on all 128 ASCII characters; unsupported constructs and nullable repetitions refused)",
    "the generic regex engine Model/RegexEngine.lean (C06's: proved equal to its list-of-successes semantics, fuel-irrelevant) and Model/RegexOps.lean (the left-to-right scan of re.sub / re.split for patterns that cannot match the empty string - proved for the three scanned patterns) stand for CPython's `re`; that they reproduce it is checked three-way on every run (Driver/C07c.lean: X lines on all 19 regenerated patterns in match/search(/fullmatch) mode with spans and every group; L/N/C/F lines CPython | engine | M1 hand recogniser on every generated line, token and text), ASCII only",
    "CPython float formatting '{:.{prec}f}' and float() parsing are parameters (assumed correctly rounded): printed coordinate strings are supplied to the writer model, exact decimal values returned by the reader model are compared with the implementation's doubles via fractions.Fraction",
    "validation after the text layer IS modelled: Model/TextToMol.lean composes M1 with from_input_arrays' field mapping (hand-written from from_string.py:264-290 / from_arrays.py:15-133) and the existing from_arrays model (C04) with the C06 model of reconcile_nucleus over the periodic table regenerated from /repo and the C05 model of validate_and_fill_chgmult; the composition is tied to /repo by differential correspondence (Driver/C07b.lean: every text of streams A/B/C through readMol against from_string(...)['qm'] field by field - geometry and masses as exact rationals of the doubles - and against Molecule.from_data's fields; every writer call through writeMol + readMol)",
    "float(token) is the parameter rd (driver: Nucleus.rd64, round-to-nearest-even binary64, the same function the C04b/C06 drivers use); to_string's unit conversion and '{:.{prec}f}' stay parameters of the writer (printed coordinates supplied)",
    "the closeness screen is evaluated exactly in the model and in floating point by numpy: texts with an atom pair within 1e-12 of the squared threshold are not compared (counted as E2E:hairline_not_compared)",
    "Molecule.from_data geometry is compared with the model's coordinates (x Angstrom->bohr factor) under the 8-decimal construction rounding and float_prep's zero band (C11's model), not bit-exactly; all other Molecule fields exactly",
    "the label theorems (Props/C07Label.lean, C07Full.lean) are about C06's hand-written backtracking model of the NUCLEUS regex (Model/Nucleus.lean, tied to CPython's `re` by C06's P lines and by this check's R/RW lines) and about the C06 reconciler over the periodic table regenerated from /repo (`shipped_elements_default`, `shipped_symbols_ok`: decide +kernel on every run); `rd64` stands for float() (checked by C06's D lines)",
    "in the hlab-free theorems the text-level record m (what to_string is given) is related to the validated record r by explicit hypotheses (same symbols/real flags/labels: Carried; printed integers convert to r's charges, multiplicities, separators) - that to_string builds m from r this way (Model/TextToMol.toTextRec) is tied by the RW lines, not proved from from_arrays' invariant",
    "harness/c07_flow.py (translator, by `ast` on the file text): prints the statements of _filter_universals, _filter_mints, filter_fragment, parse_as_psi4_ish and the head + dtype dispatch of from_string one-to-one into Gen/FromStringFlow.lean (normalisations listed in its docstring: callbacks printed in place at their re.sub/re.subn use, `if unsettled` flattened into tagged statements, names -> constructors); any other statement becomes `.unknown \"<source>\"`, which breaks the shape theorems",
    "the flow evaluator Model/MolTextFlow.lean runs those statements on M1's LINE CLASSES: 'pattern p matches the line' is read off classify (licensed by the _eq_regex theorems of Props/C07Regex.lean), line.strip() is the identity on textLines' lines, and the text plumbing between the filters (\"\\n\".join / split, re.split(fragment_marker) of the re-joined text, \"\\n--\\n\".join, molinit.update of disjoint keys) is read at line level (fragments = M1's splitMarkers; one record threaded through the filters) - that reading is trusted/differential (frags_eq_regex covers the marker split itself)",
    "PROVED about the regenerated statements, for every input (Props/C07Flow.lean, C07FlowMints.lean): _filter_universals = M1's univGo; filter_fragment / _filter_mints = M1's fragSum / mints; the chain of parse_as_psi4_ish with its leftover-text error = M1's parsePsi4Lines; the whole regenerated reader = M1's parseText. NOT translated (still hand model M1, differential only): _filter_xyz, _filter_libefp, _filter_pubchem, the psi4+ callbacks and patterns (printed, never run)",
    "harness/c07.py generators, layout rewriter and the Python oracle",
]
ASSUMPTIONS = [
    "ASCII texts only; the token 'pubchem' (network) is never generated and the model declares such lines out of scope",
    "integer total/fragment charges (the writers print int(charge)); default isotopes for the hash clause (no format carries masses)",
    "xyz text is read back with dtype='xyz' only when it is strict-conformant (no ghost atoms, Angstrom); otherwise as 'xyz+' (to_string documents both restrictions)",
    "auto-detection (dtype=None) is exercised on writer output and layout rewrites only; psi4+ (zmatrix) is not exercised",
    "texts without any atom: bare from_string returns {} (documented missing_enabled_return_qm='none') - reported under its own finding kind (known finding); the Molecule.from_data route must raise a documented error",
    "efp lines: the model covers the single-line `efp file x y z a b c` form; `efp file` + three point lines is declared out of model scope",
    "regex tie: the Lean theorems hold for every List Char; CPython's `re` is compared on ASCII texts only (\\d \\w \\s are the ASCII parts of the Unicode categories). Line-level recognisers are compared on lines (no newline inside: they come from str.split('\\n')); patterns of the psi4+ dialect (atom_vcart, atom_zmat1-4, variable) and pubchemre are checked to be used through re.sub only and are not translated",
    "composed reader (readMol): additionally out of scope (answer `oos`, counted) are non-integer charges, charges/multiplicities beyond 1e9 (from_arrays/chgmult models are integer models) and numbers with |x| >= 2^1023; with efp fragments present only the 'qm' part is compared (fix_com/fix_orientation/fix_symmetry forced as from_input_arrays does)",
    "theorem (a) is about records whose atoms are format-carried - default isotope of a shipped element (A = to_A(Z), mass = float(to_mass(Z))), grammar-conformant lower-case user label (empty, '_'+word characters, or digits) - and whose printed coordinates pass the 0.1 closeness screen in the text's unit (known finding C07-tooclose-in-text-units otherwise); isotope-substituted atoms are proved NOT to be carried (written_token_answer_is_default, deuterium_not_carried)",
    "the headline hash theorem is for psi4 text in Bohr of a molecule stored in Bohr, >= 10 printed decimals away from 8-decimal rounding boundaries; Angstrom texts need the Angstrom->Bohr product (one more float operation) and 8-9 decimals the exact margin - both oracle-checked only",
]
RULE = (
    "A: validated molecules of 1-12 atoms (whole periodic table weighted to H-Ar, ghosts, user labels '_word'/'digits', 1-4 contiguous "
    "fragments, charged/open-shell, Bohr/Angstrom input, frame flags, coordinates with 0-10 decimals incl. large and tiny ones) x "
    "{xyz, xyz+, psi4} x {Bohr, Angstrom} x prec 8..14; B: per valid text several random layout rewrites (blank lines, surrounding "
    "blanks, [\\t ,]+ separators, symbol/keyword/Gh case, +/leading-zero/trailing-zero/exponent(E,e,D,d) respellings of the same decimal, "
    "'#' comments); C: 1-3 byte/line/token mutations of valid texts and line-structured token soups over the grammar alphabet, each under "
    "xyz, xyz+, psi4. A case is distinct by (stream, dtype, text) and non-trivial when the text differs from plain writer output or the "
    "molecule has ghosts/labels/>1 fragment/non-zero charge. End-to-end stream: every (dtype, text) of A/B/C (same budget as M1) is also "
    "sent to Driver/C07b.lean (`R` lines) and every stream-A writer call as a validated record + printed coordinates (`RW` lines: "
    "writeMol then readMol). S: 11 fixed single-blank texts with non-default charge/multiplicity (charged, open-shell, 2-3 fragments with "
    "distinct charges, ghost fragment, efp lines) x 15 separator spellings (blank(s), tab(s), comma, comma+blanks, mixtures, doubled commas) applied "
    "uniformly, with and without a trailing run where the grammar has one, plus random per-gap mixtures; stream B additionally varies the "
    "separator after the multiplicity on the xyz+ title line. The fixed keyword and separator texts go to the model drivers first. "
    "T (token sweep): one-atom validated molecules for EVERY element Z = 1..117 of the shipped table x written-token shapes (real | ghost x label '' | '_'+word "
    "characters | digits; quick 2, thorough 6 of 10 shapes per element, rotating with element and seed) through the stream-A round-trip oracle (psi4, and xyz+ for label-free atoms) and the RW lines. "
    "RX (regex tie): the stripped comment-free lines, their [\\t ,]+ tokens, the raw texts and the comment-free texts of the cases sent to the M1 driver (fixed near-miss lists first: count lines, CHGMULT lines, atom lines, keyword "
    "spellings, efp lines, number tokens, comment/backslash texts, marker texts; then a seeded sample: quick 3500 lines / 3000 tokens / 1200 + 1200 texts, thorough 10x) through Driver/C07c.lean - every line through all 12 line-level "
    "recognisers (hand | engine), tokens through NUMBER, texts through filter_comments and the fragment split - and compared with CPython's re applied as the library applies it (re.subn with a callback reading the named groups, "
    ".match, re.split, filter_comments itself); plus X lines: each of the 19 regenerated patterns on its own kind of input in match / search (/ fullmatch) mode, span and all groups. A case is non-trivial when some recogniser matches. "
    "Flow three-way: every P line (all streams, xyz / xyz+ / psi4) is also answered by the reader regenerated from from_string.py's statements (Driver/C07d.lean) and must equal M1's answer textually and the implementation field by field (counts flow:*; quick: all P lines, thorough: the first 40000, priority texts first)."
)
LEVEL_TEXT = (
    "proof, partial: the M2 theorems (tokenisation, number/nucleus recognisers accept and decode what the writers print, "
    "read(write r) = project r for xyz/xyz+/psi4 with any number of fragments - on the written lines and on the written TEXT through strip, "
    "filter_comments and the line split -, blank-line/comment/surrounding-whitespace/number-respelling invariance) are proved for all "
    "records (xyz title text assumed free of '#' and newline). REGEX TIE (Props/C07Regex.lean): the text grammar is regenerated from the source on every run (every pattern the xyz/xyz+/psi4 routes "
    "compile, with the flags and entry points of their use sites, and filter_comments' pattern: Gen/FromStringRegex.lean) and M1's hand recognisers are PROVED equal - same acceptance, same captured texts, every string - "
    "to the generic backtracking engine on those ASTs for NUMBER (token and extent inside a line), SEP as splitter, the comment pattern with its \\1 template, xyz1strict, xyz1 (incl. unit groups), xyz2 (prefix match, greedy first "
    "way), cgmp, atom_cartesian (NUCLEUS inside a line with its ghost markers, labels, mass and conditional ')'; groups nucleus/x/y/z), atom_cartesian_strict, com, orient, symmetry and - for lines without a newline, shown necessary - bohrang, "
    "each resting on a shape obligation by rfl that an edit of the pattern breaks; \\A-anchored re.sub is proved to be re.match. efpxyzabc and the fragment_marker split over the whole text "
    "(vs M1's marker lines) are proved as well. ALL of this is additionally compared three-way (CPython re | engine on the regenerated AST | M1) on every generated line, token and text; only efppoints (three-point EFP form, outside M1) has no theorem. "
    "What is NOT proved is the composition of the recognisers by the line "
    "filters (which recogniser is tried on which line, first-occurrence rules, remnants): the M1 = from_string tie as a whole therefore stays differential, with its leaves now proved or regenerated. END TO END: the whole of from_string - text layer, from_input_arrays field mapping, from_arrays with nucleus "
    "reconciliation (C06 model over the regenerated periodic table), charge/multiplicity completion (C05 model) and fragments - is now one executable Lean function "
    "(readMol) tied to the implementation by correspondence on every generated text (validated record compared field by field, error classes, Molecule.from_data fields); "
    "proved for all records: reading the written text = validating exactly the carried fields; a validated record (fixed point of from_arrays) written as psi4 (one or several fragments) "
    "comes back unchanged except for the printed coordinates and the text's unit - the label step is now PROVED: C06's backtracking NUCLEUS matcher decodes every token the writers print "
    "(all 1-3 letter symbols, all grammar-conformant labels, real/'@'/'Gh(' shapes) and, for every element of the regenerated periodic table, the token alone is answered by the reconciler "
    "with the atom itself whenever the atom is format-carried (default isotope, conforming lower-case label); conversely only default isotopes can be answered, so isotope-substituted atoms "
    "are provably not carried by any of the formats; xyz+ likewise including its C05 step (totals given, fragment values absent). The (a) theorems stay conditional on what is a parameter or a known finding: "
    "float()/int() of the printed numbers give the record's integers and the coordinates g, and g passes the closeness screen in the text's unit (false in the known-finding class). "
    "HEADLINE (text_roundtrip_same_hash): psi4 text in Bohr with >= 10 decimals read back is a molecule with the same C11 hash - all hypotheses explicit; "
    "equal 8-decimal float_prep images of the coordinates give equal C11 canonical fields and hash (sufficient printed precision proved for >= 10 decimals, "
    "8-9 decimals and Angstrom texts oracle-checked); the composed reader's error type has only the three documented classes plus explicit out-of-scope/model-gap declarations (a property of the model - "
    "totality of from_string itself remains oracle-checked on generated texts). Still PARTIAL: M1/readMol = from_string (above the proved recognisers: line-filter control flow, atom/keyword/efp recognisers, strip/split) and toTextRec = to_string's view of the record are differential ties; "
    "that the Lean engine behaves as CPython's re is differential (ASCII). "
    "COMPOSITION TIE (Props/C07Flow.lean, C07FlowMints.lean; partial): the statements of _filter_universals, _filter_mints / filter_fragment, parse_as_psi4_ish and the head + dtype dispatch of from_string are regenerated from the source on every run "
    "(Gen/FromStringFlow.lean) and run by an evaluator on M1's line classes (pattern matches = the proved recognisers); PROVED for every input: regenerated _filter_universals = univGo (which keyword is tried on which line, first-occurrence rule, stored fields, remnant lines), "
    "regenerated filter_fragment / _filter_mints = fragSum / mints (system header in the first fragment only, first CHGMULT line per fragment, atoms, separators, None/None, remnants), the chain pubchem-universals-libefp-mints with the leftover-text MoleculeFormatError = parsePsi4Lines, "
    "hence the regenerated reader = M1's parseText for every text; read_write_psi4_text and the totality statement are restated over the regenerated reader, read_write_xyzplus only nominally (partial). Each rests on a shape obligation [rfl] that an edit of those bodies breaks; "
    "all of it is also compared three-way (implementation | regenerated reader | M1) on every generated text. Still NOT regenerated: _filter_xyz (so the xyz / xyz+ route of the M1 = from_string tie stays differential), _filter_libefp, _filter_pubchem; "
    "the line-level reading of the joins / splits between the filters (\"\\n\".join, re.split(fragment_marker) of the re-joined text, molinit.update) is trusted / differential."
)
TECHNIQUE = "Lean 4 proofs about a token/line-level model of writers and reader and about its composition with the from_arrays/C06/C05 models + Lean 4 proofs that the model's recognisers equal a generic regex engine on the patterns regenerated from the source + differential correspondence of the line-filter model against from_string(return_processed=True) and of the composed model against from_string()['qm'] / Molecule.from_data + Python oracle"

WS = "\t\n\x0b\x0c\r\x1c\x1d\x1e\x1f "
ALLOWED = {"MoleculeFormat", "Validation", "NotAnElement"}


# --------------------------------------------------------------------------------------
# implementation access


def _qcel():
    import qcelemental as qcel

    return qcel


M1_CASES = []  # (dtype, text, implementation outcome) collected by impl_parse for the model correspondence
W_CASES = []  # (driver line, implementation text, case)
MOL_CASES = {}  # (dtype, text) -> Molecule.from_data outcome, collected by impl_molecule (end-to-end correspondence)
RW_CASES = []  # (driver line, implementation text, from_string outcome of that text, case)
M1_PRIO = []  # like M1_CASES, for the fixed keyword / separator texts: sent to the drivers FIRST (never cut by the budget)
_PRIO = [False]


def impl_parse(text: str, dtype, collect=True):
    """from_string outcome: ('ok', molrec, processed) | ('empty', molrec, processed) | ('err', class, message)"""
    from qcelemental.molparse import from_string

    try:
        res = from_string(text, dtype=dtype, return_processed=True)
    except BaseException as e:  # noqa
        if isinstance(e, (KeyboardInterrupt, SystemExit)):
            raise
        r = ("err", err_class(e), str(e)[:200])
    else:
        rec, proc = res
        if not isinstance(rec, dict) or not rec.get("qm"):
            r = ("empty", rec, proc)
        else:
            r = ("ok", rec, proc)
    if collect and dtype is not None and all(ord(c) < 128 for c in text):
        (M1_PRIO if _PRIO[0] else M1_CASES).append((dtype, text, r))
    return r


def impl_molecule(text: str, dtype):
    qcel = _qcel()
    try:
        r = ("ok", qcel.models.Molecule.from_data(text, dtype=dtype))
    except BaseException as e:  # noqa
        if isinstance(e, (KeyboardInterrupt, SystemExit)):
            raise
        r = ("err", err_class(e), str(e)[:200])
    if dtype is not None:
        MOL_CASES[(dtype, text)] = r
    return r


def canon_rec(rec):
    """from_string molrec -> comparable tuple (floats exactly, via hex)"""
    q = rec["qm"]

    def fl(x):
        return float(x).hex()

    out = {
        "units": q["units"],
        "geom": [fl(x) for x in np.asarray(q["geom"]).ravel()],
        "elea": [int(x) for x in q["elea"]],
        "elez": [int(x) for x in q["elez"]],
        "elem": [str(x) for x in q["elem"]],
        "mass": [fl(x) for x in q["mass"]],
        "real": [bool(x) for x in q["real"]],
        "elbl": [str(x) for x in q["elbl"]],
        "seps": [int(x) for x in q["fragment_separators"]],
        "c": fl(q["molecular_charge"]),
        "m": int(q["molecular_multiplicity"]),
        "fc": [fl(x) for x in q["fragment_charges"]],
        "fm": [int(x) for x in q["fragment_multiplicities"]],
        "fix_com": bool(q["fix_com"]),
        "fix_orientation": bool(q["fix_orientation"]),
        "fix_symmetry": q.get("fix_symmetry"),
        "efp": None,
    }
    if rec.get("efp"):
        e = rec["efp"]
        out["efp"] = [list(e["fragment_files"]), list(e["hint_types"]), [[fl(x) for x in h] for h in e["geom_hints"]]]
    return out


# --------------------------------------------------------------------------------------
# molecule generator

_WORDS = ["a", "x1", "mine", "A", "Ab3", "frag_2", "_", "0", "q9",
          # labels that spell the grammar's own keywords / number shapes: a label is data, never a directive
          "nocom", "no_com", "noreorient", "no_reorient", "com", "reorient", "bohr", "ang", "angstrom", "au", "units", "unit_bohr", "symmetry", "symmetry_c1",
          "c2v", "gh", "efp", "pubchem", "1e5", "0_1", "d2", "x_nocom_y", "2_no_reorient_3"]


def _elements():
    qcel = _qcel()
    return [qcel.periodictable.to_E(z) for z in range(1, 118)]


def gen_spec(rng):
    els = gen_spec.els
    nat = rng.choice([1, 1, 2, 2, 3, 3, 4, 4, 5, 6, 7, 8, 10, 12])
    nfr = min(nat, rng.choice([1, 1, 1, 2, 2, 3, 4]))
    cuts = sorted(rng.sample(range(1, nat), nfr - 1)) if nfr > 1 else []
    elem, real, elbl = [], [], []
    for _ in range(nat):
        r = rng.random()
        z = rng.randint(1, 18) if r < 0.7 else rng.randint(1, 117)
        elem.append(els[z - 1])
        real.append(rng.random() > 0.15)
        r = rng.random()
        elbl.append("" if r < 0.6 else ("_" + rng.choice(_WORDS)) if r < 0.8 else str(rng.choice([0, 1, 2, 7, 13, 205])))
    if rng.random() < 0.08:  # a whole ghost fragment
        lo = ([0] + cuts)[rng.randrange(nfr)]
        hi = (cuts + [nat])[([0] + cuts).index(lo)]
        for i in range(lo, hi):
            real[i] = False
    # coordinates: distinct lattice sites, jittered, printed with `dec` decimals
    side = 3 if nat <= 8 else 4
    sites = rng.sample([(i, j, k) for i in range(side) for j in range(side) for k in range(side)], nat)
    dec = rng.choice([0, 1, 3, 6, 8, 10])
    scale = rng.choice([1.5, 1.5, 1.5, 2.25, 40.0, 700.0])
    off = [rng.choice([0.0, 0.0, -3.0, 1000.0 if scale > 10 else 0.0]) for _ in range(3)]
    for tiny_ok in (True, False):
        geom = []
        for s in sites:
            for a in range(3):
                v = s[a] * scale + off[a] - scale + (rng.uniform(-0.3, 0.3) if dec else 0.0)
                if tiny_ok and rng.random() < 0.04:
                    v = rng.choice([1e-7, -3e-7, 5.2e-7, -1e-9, 0.0])
                    t = "{:.10f}".format(v)
                else:
                    t = "{:.{d}f}".format(v, d=dec)
                geom.append(t)
        xyz = np.array([float(x) for x in geom]).reshape(-1, 3)
        dmin = min([np.linalg.norm(xyz[i] - xyz[j]) for i in range(nat) for j in range(i)] or [9.0])
        if dmin >= 0.5:  # well clear of the 0.1 [native units] closeness screen in either unit
            break
    units = rng.choice(["Bohr", "Angstrom"])
    # charges / multiplicities per fragment (kept satisfiable)
    qcel = _qcel()
    fc, fm = [], []
    bounds = [0] + cuts + [nat]
    for k in range(nfr):
        zs = sum(qcel.periodictable.to_Z(elem[i]) for i in range(bounds[k], bounds[k + 1]) if real[i])
        c = rng.choice([0, 0, 0, 0, 1, -1, 2, -2])
        if zs - c < 0 or zs == 0:
            c = 0
        ne = zs - c
        m = (ne % 2) + 1
        if ne >= m + 1 and rng.random() < 0.3:
            m += 2
        fc.append(c)
        fm.append(m)
    # total multiplicity: usually left to the completion (high-spin sum); sometimes a LOWER, parity-correct coupling of open-shell
    # fragments (two doublets as a singlet, triplet + doublet as a doublet): the texts carry the total as written, not a re-derived one
    mm = None
    hs = 1 + sum(m - 1 for m in fm)
    if nfr >= 2 and hs >= 3 and rng.random() < 0.5:
        mm = rng.choice(list(range(hs - 2, 0, -2)))
    spec = {
        "mm": mm,
        "elem": elem, "real": real, "elbl": elbl, "geom": geom, "units": units, "seps": cuts, "fc": fc, "fm": fm,
        "fix_com": rng.random() < 0.35, "fix_orientation": rng.random() < 0.35,
        "name": rng.choice([None, None, None, "mol1", "water_dimer", "X"]),
        "iso": None, "canon": rng.random() < 0.5,
    }
    if rng.random() < 0.04 and "H" in elem:
        spec["iso"] = elem.index("H")  # deuterium at that atom: no text format carries it
    elif rng.random() < 0.05:
        # a user mass that is no nuclide's (mass number unknown, -1) on some atoms — not all: like an isotope, no text format carries it
        k = rng.randint(1, max(1, nat - 1))
        spec["moff"] = {str(i): rng.choice([0.3, -0.2, 0.51]) for i in rng.sample(range(nat), k)}
    return spec


def build(spec):
    """spec -> validated Molecule (None if from_arrays refuses the charge/multiplicity combination)."""
    qcel = _qcel()
    from qcelemental.molparse import from_arrays, to_schema

    kw = {}
    if spec.get("name"):
        kw["name"] = spec["name"]
    if spec.get("iso") is not None:
        elea = [None] * len(spec["elem"])
        elea[spec["iso"]] = 2
        kw["elea"] = elea
    if spec.get("moff"):
        ms = [float(qcel.periodictable.to_mass(e)) for e in spec["elem"]]
        for i, d in spec["moff"].items():
            ms[int(i)] = round(ms[int(i)] + d, 6)
        kw["mass"] = ms
    try:
        rec = from_arrays(
            geom=[float(x) for x in spec["geom"]], elem=spec["elem"], real=spec["real"], elbl=spec["elbl"], units=spec["units"],
            fragment_separators=spec["seps"], fragment_charges=[float(c) for c in spec["fc"]], fragment_multiplicities=spec["fm"],
            fix_com=spec["fix_com"], fix_orientation=spec["fix_orientation"], speclabel=False,
            **({"molecular_multiplicity": spec["mm"]} if spec.get("mm") else {}), **kw,
        )
        if spec.get("canon"):  # validating constructor: geometry rounded to 8 decimals [Bohr]
            return qcel.models.Molecule(**to_schema(rec, dtype=2), validate=True)
        return qcel.models.Molecule(**to_schema(rec, dtype=2))
    except Exception as e:  # noqa
        if err_class(e) == "Validation":
            return None
        raise


def factor_for(units_out):
    qcel = _qcel()
    return 1.0 if units_out == "Bohr" else qcel.constants.bohr2angstroms


# --------------------------------------------------------------------------------------
# stream A: round trip


def hash_stable(m, f, prec):
    """Is every coordinate's 8-decimal rounding [Bohr] (what the hash sees) determined by its `prec`-decimal print in the
    requested unit?  (Printing at finite precision and re-rounding may legitimately move a coordinate that sits next to a
    rounding boundary; the property promises coordinates to the printed precision, hence the hash only in this case.)"""
    for x in np.asarray(m.geometry).ravel().tolist():
        back = float("{:.{p}f}".format(x * f, p=prec)) / f
        dev = abs(back - x) + 1e-12 + 1e-13 * abs(x)
        t = x * 1e8
        margin = (0.5 - abs(t - round(t))) * 1e-8
        if not margin > dev:
            return False
    return True


def frag_lists(m):
    return [[int(i) for i in f] for f in m.fragments]


def _roundtrip_case(ctx, out: Outcome, spec, fmt, units_out, prec, want_model=True):
    """Returns list of (text, dtype) produced (for the other streams)."""
    case = {"stream": "roundtrip", "spec": spec, "fmt": fmt, "units": units_out, "prec": prec}
    m = build(spec)
    if m is None:
        out.count("A:spec_refused_by_from_arrays")
        return None
    out.evaluations += 1
    out.count(f"A:{fmt}:{units_out}")
    out.count(f"A:prec{prec}")
    nat = len(m.symbols)
    ghosts = not all(bool(x) for x in m.real)
    nfr = len(m.fragments)
    out.count(f"A:nfr{nfr}")
    if ghosts:
        out.count("A:with_ghosts")
    if any(spec["elbl"]):
        out.count("A:with_labels")

    def bad(kind, detail, observed=None, expected=None):
        out.violations.append(Finding("oracle:" + kind, case, observed=observed, expected=expected, detail=detail))

    try:
        text = m.to_string(fmt, units_out, prec=prec)
    except Exception as e:  # noqa
        bad("roundtrip_write", f"to_string raised {type(e).__name__}: {e}")
        return None
    if ghosts or any(spec["elbl"]) or nfr > 1 or any(spec["fc"]):
        out.nontrivial(("A", fmt, text))
    if want_model and all(ord(c) < 128 for c in text):
        W_CASES.append((w_line(m, fmt, units_out, prec), text, case))
        RW_CASES.append((rw_line(m, fmt, units_out, prec), text, "psi4" if fmt == "psi4" else "xyz+", case))
    f = factor_for(units_out)
    want = (np.asarray(m.geometry).ravel() * f).tolist()
    tol = [0.5 * 10.0 ** (-prec) + 4 * np.spacing(abs(w)) for w in want]
    readers = []
    if fmt == "psi4":
        readers = ["psi4", None]
    else:
        readers = ["xyz+", None]  # auto-detection must reach a dialect that reads the writer's own text, whatever the unit spelt on the count line
        if not ghosts and units_out == "Angstrom":
            readers += ["xyz"]
    default_mass = spec.get("iso") is None and not spec.get("moff")
    for rd in readers:
        tag = f"{fmt}->{rd or 'auto'}"
        r = impl_parse(text, rd)
        if r[0] != "ok":
            bad("roundtrip_read", f"{tag}: writer output is not read back: {r[1] if r[0]=='err' else 'no molecule'}", observed=text)
            continue
        q = r[1]["qm"]
        carries_all = rd in ("psi4",) or (rd is None and fmt == "psi4")
        carries_cm = carries_all or rd == "xyz+"
        # -- record level (requested unit, printed precision)
        if [str(x) for x in q["elem"]] != [str(x) for x in m.symbols]:
            bad("roundtrip_fields", f"{tag}: elements differ", observed=[str(x) for x in q["elem"]], expected=[str(x) for x in m.symbols])
        if q["units"] != units_out:
            bad("roundtrip_fields", f"{tag}: units {q['units']} != {units_out}")
        got = np.asarray(q["geom"]).ravel().tolist()
        if len(got) != len(want):
            bad("roundtrip_fields", f"{tag}: {len(got)//3} atoms read, {nat} written")
            continue
        for i, (g, w, t) in enumerate(zip(got, want, tol)):
            if not abs(g - w) <= t:
                bad("roundtrip_coords", f"{tag}: coordinate {i} read {g!r}, written value {w!r} (prec {prec})", observed=g, expected=w)
                break
        if carries_cm:
            if [bool(x) for x in q["real"]] != [bool(x) for x in m.real]:
                bad("roundtrip_fields", f"{tag}: ghost flags differ")
            if float(q["molecular_charge"]) != float(m.molecular_charge) or int(q["molecular_multiplicity"]) != int(m.molecular_multiplicity):
                bad("roundtrip_fields", f"{tag}: total charge/multiplicity differ", observed=[float(q["molecular_charge"]), int(q["molecular_multiplicity"])],
                    expected=[float(m.molecular_charge), int(m.molecular_multiplicity)])
        if carries_all:
            if [str(x) for x in q["elbl"]] != [str(x) for x in m.atom_labels]:
                bad("roundtrip_fields", f"{tag}: user labels differ", observed=[str(x) for x in q["elbl"]], expected=[str(x) for x in m.atom_labels])
            seps = [fr[0] for fr in frag_lists(m)][1:]
            if [int(x) for x in q["fragment_separators"]] != seps:
                bad("roundtrip_fields", f"{tag}: fragment boundaries differ", observed=[int(x) for x in q["fragment_separators"]], expected=seps)
            if [float(x) for x in q["fragment_charges"]] != [float(x) for x in m.fragment_charges] or [int(x) for x in q["fragment_multiplicities"]] != [int(x) for x in m.fragment_multiplicities]:
                bad("roundtrip_fields", f"{tag}: fragment charges/multiplicities differ")
            if bool(q["fix_com"]) != bool(m.fix_com) or bool(q["fix_orientation"]) != bool(m.fix_orientation):
                bad("roundtrip_fields", f"{tag}: frame flags differ")
        # -- Molecule level (hash)
        mm = impl_molecule(text, rd)
        if mm[0] != "ok":
            bad("roundtrip_read", f"{tag}: Molecule.from_data fails on writer output: {mm[1]}", observed=text)
            continue
        m2 = mm[1]
        gtol = (0.5 * 10.0 ** (-prec)) / f + 0.5e-8 + 1e-11
        zflip = np.where(np.abs(m.geometry) < 6e-7, 5.2e-7, 0.0)  # float_prep zeroes |x| < 5**-9 after rounding
        if m2.geometry.shape != m.geometry.shape or not np.all(np.abs(m2.geometry - m.geometry) <= gtol + zflip + 1e-15 * np.abs(m.geometry)):
            bad("roundtrip_coords", f"{tag}: Molecule geometry (Bohr) outside printed precision")
        hash_demanded = default_mass and hash_stable(m, f, prec) and (
            carries_all or (rd == "xyz+" and nfr == 1)
            or (nfr == 1 and float(m.molecular_charge) == 0.0 and not ghosts and int(m.molecular_multiplicity) == 1 + (sum(int(z) for z in m.atomic_numbers) % 2))
        )
        if hash_demanded:
            out.count("A:hash_demanded")
            if m2.get_hash() != m.get_hash():
                bad("roundtrip_hash", f"{tag}: hash changed across {fmt}/{units_out}/prec={prec}", observed=m2.get_hash(), expected=m.get_hash())
        else:
            out.count("A:hash_not_demanded")
    return text


def _file_roundtrip(ctx, out: Outcome, spec, ext):
    case = {"stream": "file", "spec": spec, "ext": ext}
    m = build(spec)
    if m is None:
        return
    qcel = _qcel()
    out.evaluations += 1
    out.count("A:file" + ext)
    ghosts = not all(bool(x) for x in m.real)
    nfr = len(m.fragments)
    with tempfile.TemporaryDirectory(dir=str(ctx.work)) as d:
        p = os.path.join(d, "mol" + ext)
        try:
            m.to_file(p)
            if ext == ".xyz" and ghosts:
                m2 = qcel.models.Molecule.from_file(p, dtype="xyz+")
            else:
                m2 = qcel.models.Molecule.from_file(p)
        except Exception as e:  # noqa
            out.violations.append(Finding("oracle:roundtrip_file", case, detail=f"to_file/from_file raised {type(e).__name__}: {e}"))
            return
    ok = [str(x) for x in m2.symbols] == [str(x) for x in m.symbols]
    zflip = np.where(np.abs(m.geometry) < 6e-7, 5.2e-7, 0.0)
    ok = ok and m2.geometry.shape == m.geometry.shape and bool(np.all(np.abs(m2.geometry - m.geometry) <= 0.5e-12 * 1.9 + 0.5e-8 + 1e-11 + zflip + 1e-15 * np.abs(m.geometry)))
    if ext != ".xyz":
        ok = ok and [bool(x) for x in m2.real] == [bool(x) for x in m.real] and frag_lists(m2) == frag_lists(m)
        ok = ok and [str(x) for x in m2.atom_labels] == [str(x) for x in m.atom_labels]
        ok = ok and float(m2.molecular_charge) == float(m.molecular_charge) and int(m2.molecular_multiplicity) == int(m.molecular_multiplicity)
        ok = ok and bool(m2.fix_com) == bool(m.fix_com) and bool(m2.fix_orientation) == bool(m.fix_orientation)
        if spec.get("iso") is None and not spec.get("moff") and hash_stable(m, 1.0, 12):  # psi4 files: Bohr, prec 12
            ok = ok and m2.get_hash() == m.get_hash()
    if not ok:
        out.violations.append(Finding("oracle:roundtrip_file", case, detail=f"molecule changed across to_file/from_file ({ext})"))


# --------------------------------------------------------------------------------------
# stream B: layout rewrites of writer output

_NUMRE = _re.compile(r"^([-+]?)(\d*)(?:\.(\d*))?$")


def respell_number(rng, tok):
    """Another spelling of exactly the same decimal value (sign kept, also for zero)."""
    mo = _NUMRE.match(tok)
    if not mo or (mo.group(2) == "" and not mo.group(3)):
        return tok
    sign, ip, fp = mo.group(1), mo.group(2) or "", mo.group(3) or ""
    r = rng.random()
    if r < 0.25:
        return tok
    if sign == "" and rng.random() < 0.3:
        sign = "+"
    if rng.random() < 0.3:
        ip = "0" * rng.randint(1, 3) + ip
    if rng.random() < 0.4:
        fp = fp.rstrip("0")
    elif rng.random() < 0.3:
        fp = fp + "0" * rng.randint(1, 3)
    if ip.strip("0") == "" and fp != "" and rng.random() < 0.3:
        ip = ""  # ".5" form
    exp = ""
    if rng.random() < 0.4:
        # shift the decimal point by k digits and compensate in the exponent
        k = rng.randint(-3, 3)
        digs_i, digs_f = (ip or "0"), fp
        if k > 0:  # move point right by k: value*10^k, exponent -k
            digs_f = digs_f + "0" * max(0, k - len(digs_f))
            digs_i, digs_f = digs_i + digs_f[:k], digs_f[k:]
        elif k < 0:
            digs_i = "0" * max(0, -k - len(digs_i) + 1) + digs_i
            digs_i, digs_f = digs_i[:k], digs_i[k:] + digs_f
        ip, fp = digs_i, digs_f
        es = "-" if k > 0 else rng.choice(["", "+"])
        exp = rng.choice("eEdD") + (es if k != 0 else rng.choice(["", "+", "-"])) + rng.choice(["", "0"]) + str(abs(k))
    if fp == "":
        body = ip + rng.choice(["", "."]) if ip else "0"
    else:
        body = ip + "." + fp
    return sign + body + exp


def _exact(tok):
    t = tok.replace("D", "e").replace("d", "e")
    mo = _re.match(r"^([-+]?)(\d*)\.?(\d*)(?:[eE]([-+]?\d+))?$", t)
    sign, ip, fp, ex = mo.group(1), mo.group(2), mo.group(3), int(mo.group(4) or 0)
    return (sign == "-", Fraction(int((ip + fp) or "0")) * Fraction(10) ** (ex - len(fp)))


def recase(rng, s):
    return "".join(c.upper() if rng.random() < 0.5 else c.lower() for c in s)


def recase_nucleus(rng, tok):
    """vary case of Gh and of the element symbol only (user labels are case-sensitive data)"""
    mo = _re.match(r"^(@|[Gg][Hh]\()?([A-Za-z]{1,3})(.*)$", tok)
    if not mo:
        return tok
    gh, sym, rest = mo.group(1) or "", mo.group(2), mo.group(3)
    if gh.lower() == "gh(":
        gh = recase(rng, "gh") + "("
    return gh + recase(rng, sym) + rest


def _sep(rng):
    return rng.choice([" ", "  ", "\t", ",", ", ", " ,", "\t\t", " \t ", ",\t", "    "])


def _pad(rng):
    # surrounding whitespace in str.strip()'s sense: blanks and tabs mostly, now and then the other ASCII whitespace characters
    # (form feed, vertical tab, carriage return, the FS/GS/RS/US separators) that a line-splitting routine may treat as line ends
    if rng.random() < 0.12:
        return rng.choice(["\x0c", "\x0b", "\r", "\x1c", "\x1d", "\x1e", "\x1f", " \x0c", "\x0b\t"])
    return rng.choice(["", "", " ", "\t", "   ", " \t"])


def _comment(rng):
    body = "".join(rng.choice("abc XYZ 0123 #!,.;:'\"()=-+_@\\\t") for _ in range(rng.randint(0, 12)))
    return rng.choice(["#", " #", "\t# ", " # "]) + body


def relayout(rng, text, fmt, knobs=None):
    """A layout-preserving rewrite of writer output `text` (fmt in xyz|xyz+|psi4). Returns (new_text, set of knobs used)."""
    allk = ["blank", "pad", "sep", "case", "num", "comment"]
    if knobs is None:
        knobs = {k for k in allk if rng.random() < 0.55} or {rng.choice(allk)}
    lines = text.split("\n")
    while lines and lines[-1] == "":
        lines.pop()
    outl = []
    xyz = fmt in ("xyz", "xyz+")
    strict = fmt == "xyz"
    for i, ln in enumerate(lines):
        toks = ln.split()
        role = "atom"
        if xyz and i == 0:
            role = "nat"
        elif xyz and i == 1:
            role = "title"
        elif toks == ["--"]:
            role = "marker"
        elif toks and toks[0] in ("units", "no_com", "no_reorient"):
            role = "kw"
        elif len(toks) == 2:
            role = "cgmp"
        sep = (lambda: _sep(rng)) if "sep" in knobs else (lambda: "  ")
        if role == "atom" and len(toks) != 4:
            new = ln.strip()  # not a line the writers are expected to print: left alone (stream A reports it)
        elif role == "atom":
            nuc, xs = toks[0], toks[1:]
            if "case" in knobs:
                nuc = recase_nucleus(rng, nuc)
            if "num" in knobs:
                xs = [respell_number(rng, x) for x in xs]
            new = nuc + sep() + xs[0] + sep() + xs[1] + sep() + xs[2]
        elif role == "cgmp":
            c, mu = toks
            if "num" in knobs:
                c = respell_number(rng, c)
                mu = "0" * rng.randint(0, 2) + mu
            new = c + (sep() if "sep" in knobs else " ") + mu
        elif role == "title" and len(toks) < 2:
            new = ln.strip()
        elif role == "title":
            c, mu, rest = toks[0], toks[1], ln.split(None, 2)[2] if len(toks) > 2 else ""
            if "num" in knobs and not strict:
                c = respell_number(rng, c)
                mu = "0" * rng.randint(0, 2) + mu
            # xyz2 = \A CHGMULT is a prefix match: whatever follows the multiplicity is free text, so ANY separator run may
            # follow it - in particular a comma directly after the multiplicity
            new = c + (sep() if "sep" in knobs else " ") + mu + (sep() if "sep" in knobs else " ") + rest
        elif role == "nat" and not toks:
            new = ""
        elif role == "nat":
            n = toks[0]
            if "num" in knobs:
                n = "0" * rng.randint(0, 2) + n
            if len(toks) > 1:
                u = recase(rng, toks[1]) if "case" in knobs else toks[1]
                new = n + (rng.choice([" ", "  ", "\t", ",", ", ", " \t"]) if "sep" in knobs else " ") + u
            else:
                new = n
        elif role == "kw":
            ws = [recase(rng, t) if "case" in knobs else t for t in toks]
            new = (rng.choice([" ", "  ", "\t", " \t "]) if "sep" in knobs else " ").join(ws)
        else:
            new = ln.strip()
        if "pad" in knobs:
            new = _pad(rng) + new + _pad(rng)
        if "comment" in knobs and rng.random() < 0.4 and not (strict and i == 0 and False):
            new = new + _comment(rng)
        outl.append(new)
        can_insert = (not xyz) or i >= 1
        if can_insert:
            if "blank" in knobs and rng.random() < 0.3:
                outl.extend(rng.choice([[""], ["   "], ["\t"], ["", ""]]))
            if "comment" in knobs and rng.random() < 0.15:
                outl.append(_pad(rng) + _comment(rng).lstrip())
    new_text = "\n".join(outl)
    if "blank" in knobs or "pad" in knobs:
        new_text = rng.choice(["", "\n", " \n\n", "\t"]) + new_text + rng.choice(["", "\n", "\n\n  ", " "])
    else:
        new_text += "\n"
    return new_text, knobs


def _layout_case(ctx, out: Outcome, text, fmt, dtype, new_text, knobs):
    case = {"stream": "layout", "text": text, "fmt": fmt, "dtype": dtype, "rewritten": new_text, "knobs": sorted(knobs)}
    out.evaluations += 1
    for k in knobs:
        out.count("B:knob:" + k)
    out.count(f"B:{fmt}->{dtype or 'auto'}")
    a = impl_parse(text, dtype)
    b = impl_parse(new_text, dtype)
    if a[0] != "ok":
        return  # reported by stream A
    out.nontrivial(("B", dtype, new_text))
    if b[0] != "ok":
        out.violations.append(Finding("oracle:layout", case, observed=(b[1] if b[0] == "err" else "no molecule"), expected="same molecule",
                                      detail=f"layout rewrite ({','.join(sorted(knobs))}) is not read: {b[2] if b[0]=='err' else ''}"))
        return
    ca, cb = canon_rec(a[1]), canon_rec(b[1])
    if ca != cb:
        diff = [k for k in ca if ca[k] != cb[k]]
        out.violations.append(Finding("oracle:layout", case, observed={k: cb[k] for k in diff}, expected={k: ca[k] for k in diff},
                                      detail=f"layout rewrite ({','.join(sorted(knobs))}) changes the parse result in {diff}"))


def _title_case(ctx, out: Outcome, text, fmt, dtype, rng):
    """xyz / xyz+: the second line is free text.  With the title emptied as the reference, a title (or a line inserted after a
    blank title) that consists of a comment only must give the same parse result: comments are layout, and in a format where
    the line POSITION matters a comment-only line must stay a (blank) line."""
    lines = text.split("\n")
    if len(lines) < 3:
        return
    ref = "\n".join([lines[0], ""] + lines[2:])
    a = impl_parse(ref, dtype)
    if a[0] != "ok":
        return
    c = _comment(rng).lstrip()
    variants = {"comment-only title": [lines[0], c] + lines[2:], "indented comment-only title": [lines[0], rng.choice(["  ", "\t", " \t "]) + c] + lines[2:],
                "blank title with trailing comment": [lines[0], rng.choice([" ", "\t"]) + c] + lines[2:]}
    if dtype != "xyz":
        variants["blank title, then a comment-only line"] = [lines[0], "", c] + lines[2:]
    name = rng.choice(sorted(variants))
    new_text = "\n".join(variants[name])
    case = {"stream": "layout", "text": ref, "fmt": fmt, "dtype": dtype, "rewritten": new_text, "knobs": ["title:" + name]}
    out.evaluations += 1
    out.count("B:title:" + name)
    out.nontrivial(("Bt", dtype, new_text))
    b = impl_parse(new_text, dtype)
    if b[0] != "ok":
        out.violations.append(Finding("oracle:layout", case, observed=(b[1] if b[0] == "err" else "no molecule"), expected="same molecule",
                                      detail=f"{name}: not read ({b[2] if b[0]=='err' else ''})"))
        return
    ca, cb = canon_rec(a[1]), canon_rec(b[1])
    if ca != cb:
        diff = [k for k in ca if ca[k] != cb[k]]
        out.violations.append(Finding("oracle:layout", case, observed={k: cb[k] for k in diff}, expected={k: ca[k] for k in diff},
                                      detail=f"{name} instead of an empty title changes the parse result in {diff}"))


# --------------------------------------------------------------------------------------
# stream C: totality

_ALPHA = "0123456789" * 3 + ".-+eEdD" * 2 + " \t,\n" * 3 + "@()_#=\\" * 2 + "HhGgCcOoNnLlIiaubrsxyz" + "".join(chr(i) for i in range(0, 128) if i not in (10,))
NUMS = ["0", "1", "-1", "+2", "0.0", "1.5", "-.5", "3.", "1e3", "1.0D0", "2d-1", "1E+2", "00.10", "1e400", "-0.0", "12345678901234567890",
        "1e-400", "0.5", "0.9", "1.1", "2.2", "4", "5", "-3.3", "7.7e0", "1e-9", ".", "-", "1e", "1.e", "e5", "1.2.3", "--1", "1d", "0x10", "1_0", "inf", "nan", "-inf", "1e+", "+.5e-0"]
NUCS = ["He", "h", "LI", "@He", "Gh(He)", "gh(h)", "Gh(He", "He)", "4He", "3he", "He_a", "He3", "2", "2_x", "He@4.00260325", "Gh(4He_a@4.0026)", "999",
        "Xx", "@", "Gh(", "Q", "U", "Uuo", "og", "1H", "2H", "D", "T", "H@2.014", "0", "118", "119", "X", "x1", "He@1.0", "1h@1.007825", "C13", "13C",
        "C_13", "H", "H", "O", "C", "N", "Ne", "@2", "Gh(2)", "0_a", "00", "001", "1_", "H@1.", "He@0.0", "He@4.", "@He@4.0026", "Gh(He)@4.0",
        "Gh(He@4.0026)", "7He", "He@99.0", "5He@4.0026", "4He@5.0", "Gh(@He)", "@Gh(He)", "Hee", "Heee", "H_", "H__", "1234", "12_3", "He@4", "@@He", "gH(O1)"]
KWS = ["units bohr", "units ang", "unit = au", "units=a.u.", "UNITS Angstrom", "units a0u1", "units\tau", "units , au", "no_com", "nocom", "No_Reorient", "noreorient",
       "symmetry c1", "symmetry = C2v", "symmetry", "symmetry c 1", "units", "units nm", "--", "--", " -- ", "---", "-- --", "efp h2o 0 0 0 0 0 0", "efp h2o 1.0 2 3 4 5 6",
       "efp nh3\n0 0 0\n1 0 0\n0 1 0", "efp", "efp h2o 1 2 3 4 5", "EFP c6h6 0.0,0.0,0.0 1.0,2.0,3.0", "no_com no_reorient", "units bohr ang"]
JUNK = ["", "   ", "#c", "x", "He 0 0", "He 0 0 0 0", "0 0 0", "He,0,0,0,", ",He 0 0 0", "He 0 0 0 #x", "\\# He 0 0 0", "a = 1.0", "He 1 1.0", "O\nH 1 0.9",
        "He 0 0 0\\", "1 1 1", "\x0b", "\x1c", "\r", "He 0 0 0\r", "He\x0b0 0 0", "He 0 0 0\x00", "He 0 0 0\x1f", "\x1eHe 0 0 0", "He 0 0 0 \\#c", "He 0 0\\#0 1", "H 0 0 0#"]


def mutate(rng, text):
    s = text
    for _ in range(rng.choice([1, 1, 1, 2, 3])):
        r = rng.random()
        if r < 0.55 and s:
            i = rng.randrange(len(s) + 1)
            op = rng.random()
            c = rng.choice(_ALPHA)
            if op < 0.4:
                s = s[:i] + c + s[i:]
            elif op < 0.7 and i < len(s):
                s = s[:i] + s[i + 1:]
            elif i < len(s):
                s = s[:i] + c + s[i + 1:]
        else:
            lines = s.split("\n")
            op = rng.random()
            i = rng.randrange(len(lines))
            if op < 0.2:
                lines.insert(i, lines[rng.randrange(len(lines))])
            elif op < 0.4 and len(lines) > 1:
                del lines[i]
            elif op < 0.55 and len(lines) > 1:
                j = rng.randrange(len(lines))
                lines[i], lines[j] = lines[j], lines[i]
            elif op < 0.7:
                toks = lines[i].split()
                if len(toks) > 1:
                    a, b = rng.randrange(len(toks)), rng.randrange(len(toks))
                    toks[a], toks[b] = toks[b], toks[a]
                    lines[i] = " ".join(toks)
            elif op < 0.85:
                toks = lines[i].split()
                if toks:
                    a = rng.randrange(len(toks))
                    toks[a] = rng.choice(NUMS + NUCS)
                    lines[i] = " ".join(toks)
            else:
                lines.insert(i, rng.choice(KWS + JUNK))
            s = "\n".join(lines)
    return s


def soup(rng, dt):
    sp = lambda: rng.choice([" ", "  ", "\t", ",", ", "])  # noqa
    num = lambda: rng.choice(NUMS[:26]) if rng.random() < 0.85 else rng.choice(NUMS)  # noqa
    nuc = lambda: rng.choice(NUCS)  # noqa
    L = []
    if dt != "psi4" and rng.random() < 0.9:
        L.append(rng.choice(["1", "2", "3", "03", "2 au", "2 bohr", "2 ang", "2,AU", "2 angstrom", "2au", "-1", "2.0", "", "2 ,, \t au", "2 a.u."]))
        L.append(rng.choice(["title", "0 1", "1 2 x", "", "0 1 #c", "#c", "-1 1", "1.0 2", "0 0", "0", "1 2.5 x", "0 1x", "0,1", "1e0 2", ".5 2"]))
    for _ in range(rng.randint(0, 7)):
        r = rng.random()
        if r < 0.6:
            L.append(nuc() + sp() + num() + sp() + num() + sp() + num())
        elif r < 0.72:
            L.append(rng.choice(["0", "1", "-1", "2", "0.0", "1.5", "+1", "1e0", "1D0", "-0"]) + sp() + rng.choice(["1", "2", "3", "0", "01", "4", "5", "10"]))
        elif r < 0.9:
            L.append(rng.choice(KWS))
        else:
            L.append(rng.choice(JUNK))
    return "\n".join(L)


def is_excluded(text):
    return "pubchem" in text.lower() or any(ord(c) > 127 for c in text)


def _total_case(ctx, out: Outcome, text, dtype, origin):
    case = {"stream": "total", "text": text, "dtype": dtype}
    out.evaluations += 1
    r = impl_parse(text, dtype)
    if r[0] == "err":
        out.count(f"C:{dtype}:{r[1]}")
        if r[1] not in ALLOWED:
            out.violations.append(Finding("oracle:totality", case, observed=r[1], expected="molecule | MoleculeFormatError | ValidationError | NotAnElementError",
                                          detail=f"from_string(dtype={dtype!r}) raised {r[1]}: {r[2]}"))
        else:
            out.nontrivial(("C", dtype, text))
        return r
    if r[0] == "empty":
        out.count(f"C:{dtype}:no_atoms")
        out.violations.append(Finding("oracle:totality_no_atoms", case, observed="from_string returned an empty record",
                                      expected="molecule or documented error", detail="text without any atom line: bare from_string returns neither a molecule nor an error"))
        # the Molecule.from_data route must refuse such a text with a documented error (repaired in /repo: cf5096f)
        mm = impl_molecule(text, dtype)
        if mm[0] == "ok" or mm[1] not in ALLOWED:
            out.violations.append(Finding("oracle:totality", case, observed=("molecule" if mm[0] == "ok" else mm[1]), expected="documented error",
                                          detail=f"Molecule.from_data(dtype={dtype!r}) on a text without atoms: {'returned a molecule' if mm[0]=='ok' else mm[1] + ': ' + mm[2]}"))
        return r
    out.count(f"C:{dtype}:molecule")
    out.nontrivial(("C", dtype, text))
    mm = impl_molecule(text, dtype)
    if mm[0] == "err" and mm[1] not in ALLOWED:
        out.violations.append(Finding("oracle:totality", case, observed=mm[1], expected="molecule or documented error",
                                      detail=f"Molecule.from_data(dtype={dtype!r}) raised {mm[1]}: {mm[2]}"))
    return r



def _guarded(name, raw, case_of):
    """An exception inside the oracle code itself means the implementation handed back something that is not a
    well-formed molecule record / text (e.g. a record without 'geom'): report it as a violation with the case as
    replay instead of crashing the harness."""

    def f(ctx, out, *a, **k):
        try:
            return raw(ctx, out, *a, **k)
        except Exception as e:  # noqa
            import traceback

            tb = traceback.format_exc().strip().splitlines()[-3:]
            out.violations.append(Finding("oracle:malformed_result", case_of(*a, **k), observed=f"{type(e).__name__}: {e}",
                                          expected="a well-formed molecule record", detail=f"{name}: the oracle could not read the implementation's result: " + " | ".join(tb)))
            return None

    return f


roundtrip_case = _guarded("roundtrip", _roundtrip_case, lambda spec, fmt, units_out, prec, want_model=True: {"stream": "roundtrip", "spec": spec, "fmt": fmt, "units": units_out, "prec": prec})
file_roundtrip = _guarded("file", _file_roundtrip, lambda spec, ext: {"stream": "file", "spec": spec, "ext": ext})
layout_case = _guarded("layout", _layout_case, lambda text, fmt, dtype, new_text, knobs: {"stream": "layout", "text": text, "fmt": fmt, "dtype": dtype, "rewritten": new_text, "knobs": sorted(knobs)})
_total_guarded = _guarded("total", _total_case, lambda text, dtype, origin: {"stream": "total", "text": text, "dtype": dtype})


def total_case(ctx, out, text, dtype, origin):
    r = _total_guarded(ctx, out, text, dtype, origin)
    return r if r is not None else ("err", "other:harness", "")



# --------------------------------------------------------------------------------------
# stream S: separators on every line kind that has them (molecules with NON-default charge / multiplicity, so that a
# dropped chg/mult line changes the result)

SEPS_ALL = [" ", "  ", "\t", ",", ", ", " ,", " , ", ",\t", "\t,", "\t\t", ",,", " ,, ", "\t ,\t", ",  ", "    "]
SEP_BASES = [  # (dtype, text with single blanks between tokens)
    ("xyz+", "2\n-1 1 HO\nO 0 0 0\nH 0 0 0.96"),
    ("xyz+", "2 au\n0 3 OHe\nO 0 0 0\n@He 0 0 3"),
    ("xyz+", "1\n1 2\nHe 0 0 0"),
    ("xyz+", "3 ang\n1 4 2nd try\nC 0 0 0\nH 0 0 1.1\nH 0 1.1 0"),
    ("xyz+", "2\n2 1 1e0 x\nBe 0 0 0\n@H 0 0 2"),
    ("psi4", "1 2\nHe 0 0 0"),
    ("psi4", "-1 2\n--\n-1 1\nO 0 0 0\nH 0 0 0.96\n--\n0 2\nN 0 0 4\nunits angstrom"),
    ("psi4", "0 3\n--\n0 2\nH 0 0 0\n--\n0 2\nH_b 0 0 4\nunits bohr\nno_com"),
    ("psi4", "1 1\n--\n1 1\nLi 0 0 0\n--\n0 1\nGh(He_a) 0 0 3\n--\n0 1\nHe 0 3 0"),
    ("psi4", "efp h2o 0.5 1 2 3 4 5\n--\n1 2\nHe 0 0 9"),
    ("psi4", "1 2\nHe 0 0 9\n--\nefp nh3 0 0 0 0 0 0\n--\nEFP c6h6 1 2 3 4 5 6"),
]


def _sep_line_kind(dt, i, toks):
    """'fixed' (no [\\t ,]+ separators on this line kind), 'sep' (separators between tokens), 'sep+endl' (and a trailing run)"""
    low = [t.lower() for t in toks]
    if dt == "xyz+" and i == 0:
        return "sep"  # xyz1: \\d+[\\s,]*unit
    if dt == "xyz+" and i == 1:
        return "sep+endl"  # xyz2: prefix match, anything may follow the multiplicity
    if not toks or toks == ["--"] or low[0] in ("units", "unit", "no_com", "nocom", "no_reorient", "noreorient", "symmetry"):
        return "fixed"
    if low[0] == "efp":
        return "sep+endl"  # efpxyzabc ends with ENDL
    return "sep"  # atom lines, CHGMULT lines


def sep_variant(dt, text, pick, endl):
    """text with every separator of every separator-bearing line replaced by pick() and, where the grammar has ENDL /
    free trailing text, followed by endl()"""
    out = []
    for i, ln in enumerate(text.split("\n")):
        toks = ln.split(" ")
        kind = _sep_line_kind(dt, i, toks)
        if kind == "fixed" or len(toks) < 2 and kind != "sep+endl":
            out.append(ln)
            continue
        new = toks[0]
        for t in toks[1:]:
            new += pick() + t
        if kind == "sep+endl":
            new += endl()
        out.append(new)
    return "\n".join(out)


def _seplayout_case(ctx, out: Outcome, dt, base, variant):
    case = {"stream": "seplayout", "dtype": dt, "text": base, "rewritten": variant}
    out.evaluations += 1
    out.count("S:separator_rewrites")
    a = impl_parse(base, dt)
    b = impl_parse(variant, dt)
    if a[0] != "ok":
        out.violations.append(Finding("oracle:layout_separators", case, observed=a[1] if a[0] == "err" else "no molecule", expected="molecule",
                                      detail="a plain single-blank text of the separator stream is not read"))
        return
    out.nontrivial(("S", dt, variant))
    if b[0] != "ok":
        out.violations.append(Finding("oracle:layout_separators", case, observed=(b[1] if b[0] == "err" else "no molecule"), expected="same molecule",
                                      detail=f"separator rewrite is not read: {b[2] if b[0]=='err' else ''}"))
        return
    ca, cb = canon_rec(a[1]), canon_rec(b[1])
    if ca != cb:
        diff = [k for k in ca if ca[k] != cb[k]]
        out.violations.append(Finding("oracle:layout_separators", case, observed={k: cb[k] for k in diff}, expected={k: ca[k] for k in diff},
                                      detail=f"varying [\\t ,]+ separators changes the parse result in {diff}"))
        return
    ma, mb = impl_molecule(base, dt), impl_molecule(variant, dt)
    if ma[0] == "ok" and (mb[0] != "ok" or mb[1].get_hash() != ma[1].get_hash()):
        out.violations.append(Finding("oracle:layout_separators", case, observed=(mb[1].get_hash() if mb[0] == "ok" else mb[1]), expected=ma[1].get_hash(),
                                      detail="varying [\\t ,]+ separators changes the Molecule hash"))


seplayout_case = _guarded("seplayout", _seplayout_case, lambda dt, base, variant: {"stream": "seplayout", "dtype": dt, "text": base, "rewritten": variant})


def sep_stream(ctx, out: Outcome):
    rng = ctx.rng
    for dt, base in SEP_BASES:
        variants = []
        for sp in SEPS_ALL:  # the same separator everywhere; no / same trailing run
            variants.append(sep_variant(dt, base, lambda: sp, lambda: ""))
            variants.append(sep_variant(dt, base, lambda: sp, lambda: sp))
        for _ in range(ctx.scale(12, 60)):  # mixtures
            variants.append(sep_variant(dt, base, lambda: rng.choice(SEPS_ALL), lambda: rng.choice(["", "", ",", " ", "\t", ", ", " ,"])))
        for v in dict.fromkeys(variants):
            seplayout_case(ctx, out, dt, base, v)

# --------------------------------------------------------------------------------------
# correspondence with the Lean models


def hx(t: str) -> str:
    return t.encode("ascii").hex() if t else "-"


def exact_to_float(tok: str) -> float:
    """'<+|-><mantissa>e<exp10>' -> the correctly rounded double (what float() must give for that decimal)"""
    neg = tok[0] == "-"
    mant, ex = tok[1:].split("e")
    mant, ex = int(mant), int(ex)
    if mant == 0:
        v = 0.0
    else:
        mag = len(str(mant)) + ex
        if mag > 320:
            v = float("inf")
        elif mag < -340:
            v = 0.0
        else:
            fr = Fraction(mant) * (Fraction(10) ** ex)
            try:
                v = float(fr)
            except OverflowError:
                v = float("inf")
    return -v if neg else v


def same_float(a: float, b: float) -> bool:
    return float(a).hex() == float(b).hex()


def m1_compare(dtype, text, r, ml):
    """None if model line `ml` agrees with implementation outcome `r`, else a description."""
    if ml == "oos":
        return None
    if ml == "bad-op":
        return "driver could not read the line"
    if ml.startswith("err"):
        return None if (r[0] == "err" and r[1] == "MoleculeFormat") else f"model: MoleculeFormatError, implementation: {r[0]} {r[1] if r[0]=='err' else ''}"
    if r[0] == "err":
        if r[1] == "MoleculeFormat":
            return "implementation: MoleculeFormatError, model: parsed"
        return None  # text layer parsed; validation (other properties) refused, or an oracle violation reported elsewhere
    proc = r[2]
    f = dict(kv.split("=", 1) for kv in ml[3:].split(";"))

    def lst(x):
        return [] if x == "-" else x.split(",")

    try:
        u = {"Bohr": "B", "Angstrom": "A", None: "-"}[proc.get("units")]
        if f["u"] != u:
            return f"units {u} vs model {f['u']}"
        if f["com"] != ("1" if proc.get("fix_com") else "0") or f["ori"] != ("1" if proc.get("fix_orientation") else "0"):
            return "fix_com/fix_orientation differ"
        if f["sym"] != (hx(proc["fix_symmetry"]) if proc.get("fix_symmetry") is not None else "-"):
            return "fix_symmetry differs"
        c, mu = proc.get("molecular_charge"), proc.get("molecular_multiplicity")
        if (f["c"] == "-") != (c is None) or (c is not None and not same_float(c, exact_to_float(f["c"]))):
            return f"molecular_charge {c!r} vs model {f['c']}"
        if (f["m"] == "-") != (mu is None) or (mu is not None and int(f["m"]) != mu):
            return f"molecular_multiplicity {mu!r} vs model {f['m']}"
        if [hx(x) for x in proc.get("elbl", [])] != lst(f["elbl"]):
            return "elbl differs"
        g = lst(f["geom"])
        ig = list(proc.get("geom", []))
        if len(g) != len(ig) or any(not same_float(a, exact_to_float(b)) for a, b in zip(ig, g)):
            return f"geom differs: {ig!r} vs model {g!r}"
        if [str(x) for x in proc.get("fragment_separators", [])] != lst(f["seps"]):
            return "fragment_separators differ"
        if f["fc"] != "x":
            ifc, ifm = proc.get("fragment_charges", []), proc.get("fragment_multiplicities", [])
            mfc, mfm = lst(f["fc"]), lst(f["fm"])
            if len(ifc) != len(mfc) or any(((a is None) != (b == "N")) or (a is not None and not same_float(a, exact_to_float(b))) for a, b in zip(ifc, mfc)):
                return f"fragment_charges {ifc!r} vs model {mfc!r}"
            if len(ifm) != len(mfm) or any(((a is None) != (b == "N")) or (a is not None and int(b) != a) for a, b in zip(ifm, mfm)):
                return f"fragment_multiplicities {ifm!r} vs model {mfm!r}"
        me = lst(f["efp"])
        files, types, hints = proc.get("fragment_files", []), proc.get("hint_types", []), proc.get("geom_hints", [])
        if len(me) != len(files) or any(t != "xyzabc" for t in types):
            return "efp fragments differ"
        for e, fl, h in zip(me, files, hints):
            parts = e.split(":")
            if parts[0] != hx(fl) or len(parts) - 1 != len(h) or any(not same_float(a, exact_to_float(b)) for a, b in zip(h, parts[1:])):
                return "efp fragment differs"
    except (KeyError, ValueError, IndexError) as e:  # malformed model line
        return f"cannot read model line: {e!r}"
    return None


def w_line(m, fmt, units_out, prec):
    """driver line for the writer model: the record + CPython's printed numbers (the parameter of M2)"""
    f = factor_for(units_out)
    geom = (np.asarray(m.geometry) * f).reshape(-1, 3)
    frs = []
    for k, fr in enumerate(m.fragments):
        atoms = []
        for i in fr:
            i = int(i)
            xs = ["{:.{p}f}".format(float(x), p=prec) for x in geom[i]]
            atoms.append(",".join([str(m.symbols[i]), "1" if m.real[i] else "0", hx(str(m.atom_labels[i]))] + xs))
        frs.append(";".join([f"{int(m.fragment_charges[k])},{int(m.fragment_multiplicities[k])}"] + atoms))
    return "|".join(["W", "psi4" if fmt == "psi4" else "xyz", "1" if units_out == "Bohr" else "0", "1" if m.fix_com else "0",
                     "1" if m.fix_orientation else "0", str(int(m.molecular_charge)), str(int(m.molecular_multiplicity)), hx(m.name), "/".join(frs)])


def run_models(ctx, out: Outcome, budget):
    if not ctx.model_available:
        out.notes.append("Lean driver unavailable: model correspondence skipped, oracle only")
        return
    seen, cases = set(), []
    for dt, t, r in M1_PRIO + M1_CASES:
        if (dt, t) in seen:
            continue
        seen.add((dt, t))
        cases.append((dt, t, r))
        if len(cases) >= budget:
            break
    lines = [f"P|{dt}|{hx(t)}" for dt, t, _ in cases] + [w[0] for w in W_CASES]
    res = ctx.run_model(DRIVER, lines)
    for (dt, t, r), ml in zip(cases, res):
        out.count("M1:" + ("oos" if ml == "oos" else "formatError" if ml.startswith("err") else "parsed"))
        if ml.startswith("ok") and r[0] in ("ok", "empty") and (r[2].get("fragment_files")):
            out.count("M1:efp_parsed")
        d = m1_compare(dt, t, r, ml)
        if d is not None:
            out.mismatches.append(Finding("mismatch:M1", {"stream": "m1", "text": t, "dtype": dt}, observed=(r[0], r[1] if r[0] == "err" else None), expected=ml[:300], detail=d))
    # three-way on the same P lines: implementation | reader regenerated from from_string.py's statements (Driver/C07d.lean) | M1
    nflow = min(len(cases), ctx.scale(16000, 40000))  # thorough: the first 40000 P lines (priority texts first) - keeps the tier inside its budget
    c07_flow.flow_stream(ctx, out, cases[:nflow], res[:nflow], m1_compare, hx)
    for (line, text, case), ml in zip(W_CASES, res[len(cases):]):
        out.count("M2:writer_lines")
        if ml != hx(text):
            out.mismatches.append(Finding("mismatch:M2-writer", case, observed=text, expected=ml[:200], detail="to_string text differs from the Lean writer model"))
    out.evaluations += len(lines)
    run_e2e(ctx, out, cases)
    # three-way regex tie: CPython re | generic engine on the ASTs regenerated from the source | M1's hand recognisers
    c07_regex.regex_stream(ctx, out, cases)



# --------------------------------------------------------------------------------------
# end-to-end correspondence: Driver/C07b.lean = text layer + from_input_arrays mapping + from_arrays (C04) with the
# C06 reconciler and the C05 charge/multiplicity model, against from_string(...)["qm"] and Molecule.from_data(...)

DRIVER_B = "QcelVerif/Driver/C07b.lean"
HAIRLINE = "hairline"
_TC2 = Fraction(0.1) ** 2


def _plist(tok, f):
    if not tok.startswith("L"):
        raise ValueError(tok)
    return [] if tok == "L" else [f(x) for x in tok[1:].split(",")]


def _pstr(tok):
    if not tok.startswith("'"):
        raise ValueError(tok)
    return tok[1:]


def _pbool(tok):
    return {"T": True, "F": False}[tok]


def parse_model_rec(ml):
    p = ml.split("|")
    if len(p) != 17 or p[0] != "ok":
        raise ValueError("not a record line")
    return {
        "units": _pstr(p[1]), "geom": _plist(p[2], Fraction), "elea": _plist(p[3], int), "elez": _plist(p[4], int),
        "elem": _plist(p[5], _pstr), "mass": _plist(p[6], Fraction), "real": _plist(p[7], _pbool), "elbl": _plist(p[8], _pstr),
        "seps": _plist(p[9], int), "c": int(p[10]), "fc": _plist(p[11], int), "m": int(p[12]), "fm": _plist(p[13], int),
        "fix_com": _pbool(p[14]), "fix_orientation": _pbool(p[15]), "fix_symmetry": None if p[16] == "~" else _pstr(p[16]),
    }


def _hairline(geom):
    """some atom pair sits (numerically) on the 0.1 closeness threshold: the implementation decides it in floating
    point (einsum of float differences against 0.1**2), the model exactly - such texts are not compared"""
    g = [Fraction(float(x)) for x in geom]
    n = len(g) // 3
    for i in range(n):
        for j in range(i):
            d2 = sum((g[3 * i + a] - g[3 * j + a]) ** 2 for a in range(3))
            if abs(d2 - _TC2) < Fraction(1, 10 ** 12):
                return True
    return False


def e2e_compare(dtype, text, r, ml):
    """None if the composed model's answer `ml` agrees with from_string's outcome `r`; HAIRLINE; else a description"""
    if ml == "oos":
        return None
    if ml in ("bad-op", "gap"):
        return f"driver answered {ml!r}"
    if ml == "empty":
        return None if r[0] == "empty" else f"model: no atoms (empty record), implementation: {r[0]} {r[1] if r[0]=='err' else ''}"
    if ml.startswith("err "):
        cls = ml[4:]
        if r[0] == "err" and r[1] == cls:
            return None
        if cls == "Validation" and r[0] == "ok" and _hairline(r[1]["qm"]["geom"]):
            return HAIRLINE
        return f"model: {cls}Error, implementation: {r[0]} {r[1] if r[0]=='err' else ''}"
    try:
        f = parse_model_rec(ml)
    except (ValueError, KeyError, IndexError) as e:
        return f"cannot read model line: {e!r}"
    if r[0] != "ok":
        if r[0] == "err" and r[1] == "Validation" and "too close" in r[2] and _hairline([float(x) for x in f["geom"]]):
            return HAIRLINE
        return f"model: validated molecule, implementation: {r[0]} {r[1] if r[0]=='err' else ''}"
    q = r[1]["qm"]
    fr = lambda x: Fraction(float(x))  # noqa
    checks = [
        ("units", q["units"], f["units"]),
        ("geom", [fr(x) for x in np.asarray(q["geom"]).ravel()], f["geom"]),
        ("elea", [int(x) for x in q["elea"]], f["elea"]),
        ("elez", [int(x) for x in q["elez"]], f["elez"]),
        ("elem", [str(x) for x in q["elem"]], f["elem"]),
        ("mass", [fr(x) for x in q["mass"]], f["mass"]),
        ("real", [bool(x) for x in q["real"]], f["real"]),
        ("elbl", [str(x) for x in q["elbl"]], f["elbl"]),
        ("fragment_separators", [int(x) for x in q["fragment_separators"]], f["seps"]),
        ("molecular_charge", fr(q["molecular_charge"]), Fraction(f["c"])),
        ("fragment_charges", [fr(x) for x in q["fragment_charges"]], [Fraction(x) for x in f["fc"]]),
        ("molecular_multiplicity", int(q["molecular_multiplicity"]), f["m"]),
        ("fragment_multiplicities", [int(x) for x in q["fragment_multiplicities"]], f["fm"]),
        ("fix_com", bool(q["fix_com"]), f["fix_com"]),
        ("fix_orientation", bool(q["fix_orientation"]), f["fix_orientation"]),
        ("fix_symmetry", q.get("fix_symmetry"), f["fix_symmetry"]),
    ]
    bad = [k for k, a, b in checks if a != b]
    if bad:
        k = bad[0]
        a, b = [(a, b) for kk, a, b in checks if kk == k][0]
        return f"validated record differs in {bad}: {k}: implementation {a!r} vs model {b!r}"
    return None


def mol_compare(mm, ml):
    """Molecule.from_data(text, dtype) against the composed model's record (None = agree)"""
    try:
        f = parse_model_rec(ml)
    except (ValueError, KeyError, IndexError) as e:
        return f"cannot read model line: {e!r}"
    if mm[0] != "ok":
        return f"model: validated molecule, Molecule.from_data: {mm[1]}: {mm[2]}"
    M = mm[1]
    fr = lambda x: Fraction(float(x))  # noqa
    nat = len(f["elem"])
    bounds = [0] + f["seps"] + [nat]
    frags = [list(range(bounds[k], bounds[k + 1])) for k in range(len(bounds) - 1)]
    checks = [
        ("symbols", [str(x) for x in M.symbols], f["elem"]),
        ("atomic_numbers", [int(x) for x in M.atomic_numbers], f["elez"]),
        ("mass_numbers", [int(x) for x in M.mass_numbers], f["elea"]),
        ("masses", [fr(x) for x in M.masses], f["mass"]),
        ("real", [bool(x) for x in M.real], f["real"]),
        ("atom_labels", [str(x) for x in M.atom_labels], f["elbl"]),
        ("molecular_charge", fr(M.molecular_charge), Fraction(f["c"])),
        ("molecular_multiplicity", int(M.molecular_multiplicity), f["m"]),
        ("fragment_charges", [fr(x) for x in M.fragment_charges], [Fraction(x) for x in f["fc"]]),
        ("fragment_multiplicities", [int(x) for x in M.fragment_multiplicities], f["fm"]),
        ("fragments", frag_lists(M), frags),
        ("fix_com", bool(M.fix_com), f["fix_com"]),
        ("fix_orientation", bool(M.fix_orientation), f["fix_orientation"]),
        ("fix_symmetry", M.fix_symmetry, f["fix_symmetry"]),
    ]
    bad = [k for k, a, b in checks if a != b]
    if bad:
        k = bad[0]
        a, b = [(a, b) for kk, a, b in checks if kk == k][0]
        return f"Molecule differs from the model record in {bad}: {k}: {a!r} vs model {b!r}"
    # geometry: stored in bohr, rounded to 8 decimals at construction (molecule.py:381-384) - compared with the exact
    # product under that tolerance (the rounding itself is C11's model)
    fac = Fraction(1) if f["units"] == "Bohr" else Fraction(1.0 / _qcel().constants.bohr2angstroms)
    got = np.asarray(M.geometry).ravel().tolist()
    if len(got) != len(f["geom"]):
        return "Molecule geometry has a different length"
    for g, w in zip(got, f["geom"]):
        w = w * fac
        if not np.isfinite(g):  # the unit conversion overflowed (|x| within a factor 2 of the largest double): not compared
            continue
        if g == 0.0 and abs(w) < Fraction(5151, 10 ** 10):
            continue  # float_prep's zero band: a coordinate whose 8-decimal rounding is below 5**-9 is stored as 0 (C11/C16 known finding)
        if abs(Fraction(g) - w) > Fraction(5000001, 10 ** 15) + abs(w) * Fraction(1, 10 ** 14):
            return f"Molecule geometry {g!r} is not the model's {float(w)!r} [bohr] rounded to 8 decimals"
    return None


def _hx_list(xs):
    return "L" + ",".join(hx(str(x)) for x in xs)


def rw_line(m, fmt, units_out, prec):
    """driver line `RW`: the validated record as the writers see it + CPython's printed numbers"""
    f = factor_for(units_out)
    geom = (np.asarray(m.geometry) * f).ravel()
    frs = frag_lists(m)
    tb = lambda b: "T" if b else "F"  # noqa
    return "|".join([
        "RW", "psi4" if fmt == "psi4" else "xyz", tb(units_out == "Bohr"), hx(m.name),
        _hx_list(m.symbols), "L" + ",".join(tb(bool(x)) for x in m.real), _hx_list(m.atom_labels),
        "L" + ",".join(str(fr[0]) for fr in frs[1:]), str(int(m.molecular_charge)),
        "L" + ",".join(str(int(x)) for x in m.fragment_charges), str(int(m.molecular_multiplicity)),
        "L" + ",".join(str(int(x)) for x in m.fragment_multiplicities), tb(m.fix_com), tb(m.fix_orientation),
        "L" + ",".join("{:.{p}f}".format(float(x), p=prec) for x in geom),
    ])


def run_e2e(ctx, out: Outcome, cases):
    """cases: the (dtype, text, from_string outcome) triples already sent to the M1 driver"""
    lines = [f"R|{dt}|{hx(t)}" for dt, t, _ in cases] + [w[0] for w in RW_CASES]
    if not lines:
        return
    res = ctx.run_model(DRIVER_B, lines)
    for (dt, t, r), ml in zip(cases, res):
        kind = "oos" if ml == "oos" else "empty" if ml == "empty" else ml.replace(" ", ":") if ml.startswith("err") else "molecule" if ml.startswith("ok|") else ml
        out.count("E2E:" + kind)
        d = e2e_compare(dt, t, r, ml)
        if d == HAIRLINE:
            out.count("E2E:hairline_not_compared")
            continue
        if d is not None:
            out.mismatches.append(Finding("mismatch:E2E", {"stream": "m1", "text": t, "dtype": dt}, observed=(r[0], r[1] if r[0] == "err" else None), expected=ml[:400], detail=d))
            continue
        if ml.startswith("ok|") and (dt, t) in MOL_CASES:
            out.count("E2E:molecule_from_data_compared")
            d = mol_compare(MOL_CASES[(dt, t)], ml)
            if d is not None:
                out.mismatches.append(Finding("mismatch:E2E-molecule", {"stream": "m1", "text": t, "dtype": dt}, observed=str(MOL_CASES[(dt, t)][1])[:200], expected=ml[:400], detail=d))
    for (line, text, rd, case), ml in zip(RW_CASES, res[len(cases):]):
        out.count("E2E:write_then_read")
        parts = ml.split("|", 1)
        if len(parts) != 2:
            out.mismatches.append(Finding("mismatch:E2E-writer", case, observed=text, expected=ml[:200], detail="driver could not read the RW line"))
            continue
        if parts[0] != hx(text):
            out.mismatches.append(Finding("mismatch:E2E-writer", case, observed=text, expected=parts[0][:200], detail="to_string text differs from writeMol of the validated record"))
            continue
        d = e2e_compare(rd, text, impl_parse(text, rd, collect=False), parts[1])
        if d == HAIRLINE:
            out.count("E2E:hairline_not_compared")
        elif d is not None:
            out.mismatches.append(Finding("mismatch:E2E", case, observed=text, expected=parts[1][:400], detail="readMol (writeMol r): " + d))
    out.evaluations += len(lines)

# --------------------------------------------------------------------------------------
# run


def run(ctx: Ctx) -> Outcome:
    out = Outcome()
    with contextlib.redirect_stdout(io.StringIO()), warnings.catch_warnings(), np.errstate(all="ignore"):
        warnings.simplefilter("ignore")
        _run(ctx, out)
    return out


def _run(ctx: Ctx, out: Outcome):
    rng = ctx.rng
    gen_spec.els = _elements()
    M1_CASES.clear()
    M1_PRIO.clear()
    W_CASES.clear()
    MOL_CASES.clear()
    RW_CASES.clear()
    nmol = ctx.scale(220, 2200)
    valid = []  # (text, fmt, readers)
    for _ in range(nmol):
        spec = gen_spec(rng)
        combos = [(f, u) for f in ("xyz", "xyz+", "psi4") for u in ("Bohr", "Angstrom")]
        rng.shuffle(combos)
        for fmt, u in combos[: ctx.scale(3, 4)]:
            prec = rng.randint(8, 14)
            t = roundtrip_case(ctx, out, spec, fmt, u, prec)
            if t is not None:
                ghosts = not all(spec["real"])
                rds = ["psi4", None] if fmt == "psi4" else (["xyz+", None] + (["xyz"] if (not ghosts and u == "Angstrom") else []))
                valid.append((t, fmt, rds))
                if len(out.samples) < 2:
                    out.sample({"stream": "A", "fmt": fmt, "units": u, "prec": prec, "text": t})
        if rng.random() < 0.35:
            file_roundtrip(ctx, out, spec, rng.choice([".xyz", ".psi4", ".psimol"]))
    token_sweep(ctx, out)
    # B
    for (t, fmt, rds) in valid:
        for _ in range(ctx.scale(2, 3)):
            rd = rng.choice(rds)
            nt, knobs = relayout(rng, t, "xyz" if rd == "xyz" else fmt)
            layout_case(ctx, out, t, fmt, rd, nt, knobs)
            if fmt != "psi4" and rng.random() < 0.5:
                _title_case(ctx, out, t, fmt, rd, rng)
            if len(out.samples) < 4:
                out.sample({"stream": "B", "dtype": rd, "knobs": sorted(knobs), "text": nt})
    # C
    nmut = ctx.scale(9000, 90000)
    for i in range(nmut):
        t, fmt, rds = valid[rng.randrange(len(valid))]
        if rng.random() < 0.3:
            t, _k = relayout(rng, t, fmt)
        mt = mutate(rng, t)
        if is_excluded(mt):
            continue
        dts = ["xyz", "xyz+", "psi4"] if rng.random() < 0.25 else [rng.choice(["xyz+", "psi4"] if fmt != "psi4" else ["psi4", "psi4", "xyz+"])]
        for dt in dts:
            total_case(ctx, out, mt, dt, "mut")
    for i in range(ctx.scale(5000, 50000)):
        dt = rng.choice(["xyz", "xyz+", "psi4", "psi4"])
        t = soup(rng, dt)
        if is_excluded(t):
            continue
        r = total_case(ctx, out, t, dt, "soup")
        if len(out.samples) < 6 and r[0] == "ok":
            out.sample({"stream": "C", "dtype": dt, "text": t, "outcome": "molecule"})
    _PRIO[0] = True
    try:
        keyword_stream(ctx, out)
        sep_stream(ctx, out)
    finally:
        _PRIO[0] = False
    close_pair_stream(ctx, out)
    run_models(ctx, out, ctx.scale(16000, 120000))
    out.exhaustive = False
    out.notes.append("all streams sampled from VERIF_SEED; nothing exhaustive")


KW_TEXTS = [
    "He 0 0 0\nunits bohr", "He 0 0 0\nunit au", "He 0 0 0\nUNITS=A.U.", "He 0 0 0\nunits   = \t angstrom", "He 0 0 0\nunit ang",
    "He 0 0 0\nunits a0u1", "He 0 0 0\nunits a,u,", "He 0 0 0\nunits nm", "He 0 0 0\nunits", "He 0 0 0\nunits,bohr", "He 0 0 0\nunitsbohr",
    "He 0 0 0\nunits bohr\nunits ang", "He 0 0 0\nnocom\nnoreorient", "He 0 0 0\nNO_COM\nNo_Reorient", "He 0 0 0\nno_com\nnocom",
    "He 0 0 0\nsymmetry c1", "He 0 0 0\nsymmetry = C2V", "He 0 0 0\nsymmetry c 1", "He 0 0 0\nsymmetry\tD2h\nsymmetry c1", "He 0 0 0\nSYMMETRY==cs",
    "0 1\nHe 0 0 0", "0 1\n--\nHe 0 0 0\n--\n1 2\nHe 0 0 2", "0 1", "0 1\n0 1\nHe 0 0 0", "--\nHe 0 0 0", "He 0 0 0\n--", "He 0 0 0\n--\n--\nHe 0 0 2",
    "He 0 0 0\n  --  \nHe 0 0 2", "He 0 0 0\n-- --\nHe 0 0 2", "He 0 0 0\n---\nHe 0 0 2", "He 0 0 0\n--\n1 1\n--\nHe 0 0 2",
    "efp h2o 0 0 0 0 0 0", "efp h2o 0 0 0 0 0 0\n--\nHe 0 0 5", "He 0 0 5\n--\nEFP c6h6 1.0,2.0,3.0 , 4 5 6,", "efp h2o 0 0 0 0 0 0\nno_com",
    "efp h2o 0 0 0 0 0 0\nHe 0 0 5", "efp h2o 0 0 0 0 0", "efp h2o 1d0 2e0 3 4 5 6\n--\nefp nh3 0 0 0 0 0 0\n--\n0 1\nHe 0 0 9",
    "efp nh3\n0 0 0\n1 0 0\n0 1 0", "0 1\n--\nefp h2o 0 0 0 0 0 0\n--\nHe 0 0 5",
    "He 0 0 0 # c\n# full\nHe 0 0 2#x", "\\# He 0 0 0", "He 0 0 0 \\# x # y", "#\nHe 0 0 0", "He 0 0 0\n#", "He 0 0 0 ##\\##",
    "2\n\nHe 0 0 0\nHe 0 0 2", "2 au\n0 1\nHe 0 0 0\n@He 0 0 2", "2,\n\nHe 0 0 0", "2 ,, \t AU\n1 2.5 x\nHe 0 0 0", "2bohr\n0 1x\nHe 0 0 0", "2 ang\n.5 2\n2 0 0 0",
    "2 angstrom\n\nHe 0 0 0", "#c\ntitle\nHe 0 0 0", "1\n#\nHe 0 0 0", "1\nHe 0 0 0\nHe 0 0 2", "1\n\n2_x 0 0 0", "1\n\n999 0 0 0", "1\n\nHeee 0 0 0",
    "He 0 0 1e400", "He 0 0 1e-400", "He 0 0 -0", "He .0 0. 0.e0", "He . 0 0", "He 0 0 1e", "He +-1 0 0", "He 0 0 0,", ",He 0 0 0", "He\x0b0 0 0", "He 0 0 0\x1f",
    "Gh(He) 0 0 0", "gH(he_x@4.0026) 0 0 0", "@4He 0 0 0", "Gh(He 0 0 0", "He) 0 0 0", "@Gh(He) 0 0 0", "1234 0 0 0", "12_ab 0 0 0", "He_ 0 0 0", "He@4. 0 0 0", "He@.5 0 0 0", "He@4.0@4.0 0 0 0",
]


def keyword_stream(ctx, out: Outcome):
    """fixed texts exercising every keyword spelling / efp form / comment rule, each under the three dtypes (M1 tie + totality)"""
    for t in KW_TEXTS:
        for dt in ("xyz", "xyz+", "psi4"):
            total_case(ctx, out, t, dt, "kw")
            out.count("C:keyword_texts")


# written-token shapes the label theorems (Props/C07Label.lean) distinguish: real / ghost  x  label '' | '_'+word characters | digits
_SWEEP_SHAPES = [(True, ""), (False, ""), (True, "_a1"), (False, "_frag_2"), (True, "205"), (False, "7"), (True, "__"), (False, "_0x"),
                 (False, "_q9"), (True, "0")]


def token_sweep(ctx, out: Outcome):
    """stream T: one-atom validated molecules - EVERY element of the shipped table (default isotope) x written-token shapes -
    through the ordinary round-trip oracle and the RW / R model lines (psi4; xyz+ as well when the atom has no label).  This
    is the table-wide instance of `written_token_reconciles` on the implementation: quick = 2, thorough = 6 of the 10 shapes per element (rotating with the element
    and the seed, so every shape meets many elements)."""
    rng = ctx.rng
    k = ctx.scale(2, 6)
    shift = rng.randrange(len(_SWEEP_SHAPES))
    qcel = _qcel()
    for zi, e in enumerate(gen_spec.els):
        z = int(qcel.periodictable.to_Z(e))
        for j in range(k):
            real, lbl = _SWEEP_SHAPES[(zi * k + j + shift) % len(_SWEEP_SHAPES)]
            spec = {
                "elem": [e], "real": [real], "elbl": [lbl], "geom": ["1.25", "-0.5", "2.0"], "units": "Bohr", "seps": [],
                "fc": [0], "fm": [(z % 2) + 1 if real else 1], "fix_com": bool((zi + j) % 2), "fix_orientation": False,
                "name": None, "iso": None, "canon": False,
            }
            out.count("T:token_sweep")
            roundtrip_case(ctx, out, spec, "psi4", rng.choice(["Bohr", "Angstrom"]), rng.randint(8, 14))
            if not lbl:
                roundtrip_case(ctx, out, spec, "xyz+", rng.choice(["Bohr", "Angstrom"]), rng.randint(8, 14))


def close_pair_stream(ctx, out: Outcome):
    """validated molecules with an atom pair between 0.1 bohr and 0.1 angstrom apart, written in angstrom"""
    qcel = _qcel()
    rng = ctx.rng
    for _ in range(ctx.scale(16, 80)):
        # 0.11-0.18 bohr: the recorded class (closer than 0.1 angstrom); 0.19-0.6 bohr: beyond 0.1 angstrom, must read back in either unit
        d = rng.choice([0.11, 0.15, 0.18, 0.19, 0.2, 0.25, 0.3, 0.35, 0.37, 0.45, 0.6])
        zs = rng.sample(["He", "Ne", "H", "Li", "O"], 2)
        geom = [0.0, 0.0, 0.0, 0.0, 0.0, d]
        fmt = rng.choice(["xyz", "xyz+", "psi4"])
        case = {"stream": "closepair", "symbols": zs, "geometry": geom, "fmt": fmt}
        closepair_case(ctx, out, case)


def _closepair_case(ctx, out: Outcome, case):
    qcel = _qcel()
    out.evaluations += 1
    out.count("A:close_pair")
    try:
        m = qcel.models.Molecule(symbols=case["symbols"], geometry=case["geometry"])
    except Exception:  # noqa
        return
    text = m.to_string(case["fmt"], "Angstrom")
    rd = "psi4" if case["fmt"] == "psi4" else "xyz+"
    mm = impl_molecule(text, rd)
    if mm[0] == "err":
        kind = "oracle:roundtrip_tooclose_units" if (mm[1] == "Validation" and "too close" in mm[2]) else "oracle:roundtrip_read"
        out.violations.append(Finding(kind, case, observed=mm[1] + ": " + mm[2], expected="same molecule",
                                      detail="a validated molecule with a close atom pair (>= 0.1 bohr) written in angstrom is refused on reading (recorded class: the pair is closer than 0.1 angstrom and the screen is applied in the text's units)"))
    elif mm[1].get_hash() != m.get_hash():
        out.violations.append(Finding("oracle:roundtrip_hash", case, detail="hash changed"))


closepair_case = _guarded("closepair", _closepair_case, lambda case: case)


def known_predicate(finding, entry) -> bool:
    if entry.get("kind") == "oracle:roundtrip_tooclose_units":
        c = finding.case
        if not (finding.kind == entry["kind"] and isinstance(c, dict) and c.get("stream") == "closepair"):
            return False
        g = np.asarray(c["geometry"], dtype=float).reshape(-1, 3)
        dmin = min(np.linalg.norm(g[i] - g[j]) for i in range(len(g)) for j in range(i))
        return 0.1 <= dmin < 0.1 / 0.52917721 and "too close" in str(finding.observed)
    if entry.get("kind") == "oracle:totality_no_atoms":
        # only the bare from_string route returning a record without a non-empty 'qm'
        return finding.kind == "oracle:totality_no_atoms" and finding.observed == "from_string returned an empty record"
    return False


def replay(ctx: Ctx, case) -> Outcome:
    out = Outcome()
    gen_spec.els = _elements()
    M1_CASES.clear()
    M1_PRIO.clear()
    W_CASES.clear()
    MOL_CASES.clear()
    RW_CASES.clear()
    with contextlib.redirect_stdout(io.StringIO()), warnings.catch_warnings(), np.errstate(all="ignore"):
        warnings.simplefilter("ignore")
        st = case.get("stream")
        if st == "roundtrip":
            roundtrip_case(ctx, out, case["spec"], case["fmt"], case["units"], case["prec"])
        elif st == "file":
            file_roundtrip(ctx, out, case["spec"], case["ext"])
        elif st == "layout":
            layout_case(ctx, out, case["text"], case["fmt"], case["dtype"], case["rewritten"], set(case.get("knobs", [])))
        elif st == "total":
            total_case(ctx, out, case["text"], case["dtype"], "replay")
        elif st == "closepair":
            closepair_case(ctx, out, case)
        elif st == "seplayout":
            seplayout_case(ctx, out, case["dtype"], case["text"], case["rewritten"])
        elif st == "regex":
            c07_regex.regex_replay(ctx, out, case)
        elif st in ("m1", "flow"):
            impl_parse(case["text"], case["dtype"])
            if case["dtype"] in ("xyz", "xyz+", "psi4"):
                total_case(ctx, out, case["text"], case["dtype"], "replay")
        else:
            raise ValueError(f"unknown replay case {case!r}")
        run_models(ctx, out, 10**9)
    return out
