"""Auxiliary public entry points of the library's table objects (periodic table, constants contexts, radii, Datum).

The properties C01 / C02 / C03 / C17 quantify over lookups "whatever happened before in the process".  Besides the lookups
themselves the library offers public helpers that read the same objects — header writers, table printers, comparison reports,
`Datum.to_units` — and an application may well have called them first.  `exercise(out)` calls every one of them once (into a
temporary directory, stdout swallowed) and is invoked by those checks BEFORE their exhaustive sweeps, so that anything such a
call leaves behind (class-level tables edited in place, shared dicts converted, thread-level contexts narrowed, caches primed
with the wrong key) is seen by the ordinary oracle on the ordinary inputs.  It asserts nothing itself; a helper that raises is
only counted.  Replays of those checks call it too (same process history).
"""
from __future__ import annotations

import contextlib
import io
import os
import tempfile

_DONE = {"n": 0}


def exercise(out=None, tag="aux") -> int:
    """-> number of auxiliary calls that raised (counted in out.distribution when `out` is given)"""
    import qcelemental as qcel
    from qcelemental import periodic_table as pt_mod
    from qcelemental.physical_constants import context as ctx_mod

    raised = 0
    calls = []
    with tempfile.TemporaryDirectory() as d:
        p = lambda n: os.path.join(d, n)  # noqa: E731
        calls += [
            ("periodic_table.write_c_header", lambda: pt_mod.write_c_header(p("masses.h"))),
            ("periodic_table.run_comparison", lambda: pt_mod.run_comparison()),
            ("constants.write_c_header", lambda: ctx_mod.write_c_header("CODATA2014", p("pc14.h"))),
            ("constants.write_c_header(2018)", lambda: ctx_mod.write_c_header("CODATA2018", p("pc18.h"), prefix="qc_")),
            ("constants.write_fortran_header", lambda: ctx_mod.write_fortran_header("CODATA2014", p("pc14.fh"))),
            ("constants.write_fortran_header(2018,kind)", lambda: ctx_mod.write_fortran_header("CODATA2018", p("pc18.fh"), kind="dp")),
            ("constants.run_comparison", lambda: ctx_mod.run_comparison("CODATA2014")),
            ("constants.run_internal_comparison", lambda: ctx_mod.run_internal_comparison("CODATA2014", "CODATA2018")),
            ("constants.string_representation", lambda: (qcel.constants.string_representation(), str(qcel.constants), repr(qcel.constants))),
            ("covalentradii.write_c_header", lambda: qcel.covalentradii.write_c_header(p("covrad.h"))),
            ("covalentradii.string_representation", lambda: (qcel.covalentradii.string_representation(), str(qcel.covalentradii))),
            ("vdwradii.write_c_header", lambda: qcel.vdwradii.write_c_header(p("vdwrad.h"), missing=1.5)),
            ("vdwradii.string_representation", lambda: (qcel.vdwradii.string_representation(), str(qcel.vdwradii))),
            ("Datum.to_units/dict", lambda: (qcel.covalentradii.get("C", return_tuple=True).to_units("pm"),
                                             qcel.constants.get("Bohr radius", return_tuple=True).to_units("angstrom"),
                                             qcel.constants.get("Hartree energy", return_tuple=True).dict())),
        ]
        for name, fn in calls:
            try:
                with contextlib.redirect_stdout(io.StringIO()), contextlib.redirect_stderr(io.StringIO()):
                    fn()
                if out is not None:
                    out.count(f"{tag}:called:{name}")
            except BaseException as e:  # noqa  -- the helper itself is not under test
                raised += 1
                if out is not None:
                    out.count(f"{tag}:raised:{name}:{type(e).__name__}")
    _DONE["n"] += 1
    return raised
